/- Lemmas/LexDur.lean — the DURATION rule of the lexer produces a text that `Duration.unpack` accepts. -/
import ODataVerif.Lemmas.LexRest
set_option linter.unusedSimpArgs false
set_option linter.unusedVariables false
namespace OQ.LexImage
open Spec (isDig)



/-! ### `Duration.unpack` side -/
section U
variable (isD : Char → Bool)

theorem drop_len_takeWhile (p : Char → Bool) : ∀ v : Str, v.drop (v.takeWhile p).length = v.dropWhile p
  | [] => rfl
  | c :: v => by
    simp only [List.takeWhile_cons, List.dropWhile_cons]
    split
    · simp [drop_len_takeWhile p v]
    · simp

theorem takeWhile_app_q (p : Char → Bool) (q : Char) (w : Str) (hq : p q = false) :
    ∀ v : Str, (v ++ q :: w).takeWhile p = v.takeWhile p
  | [] => by simp [List.takeWhile_cons, hq]
  | c :: v => by
    simp only [List.cons_append, List.takeWhile_cons, takeWhile_app_q p q w hq v]

theorem dropWhile_app_q (p : Char → Bool) (q : Char) (w : Str) (hq : p q = false) :
    ∀ v : Str, (v ++ q :: w).dropWhile p = v.dropWhile p ++ q :: w
  | [] => by simp [List.dropWhile_cons, hq]
  | c :: v => by
    simp only [List.cons_append, List.dropWhile_cons, dropWhile_app_q p q w hq v]
    split <;> simp

def encG (L : Char) : Option Str → Str
  | none => []
  | some ds => ds ++ [L]
def encS : Option Str → Str
  | none => []
  | some s => s ++ ['S']

theorem durGroupU_eq (L : Char) (v : Str) : durGroupU isD L v =
    (match v.takeWhile isD, v.dropWhile isD with
     | [], _ => (none, v)
     | _, c :: r => if c == L then (some (v.takeWhile isD), r) else (none, v)
     | _, [] => (none, v)) := by
  unfold durGroupU
  simp only [drop_len_takeWhile]
  rfl

theorem durGroupU_decomp (L : Char) (v : Str) (x r) (h : durGroupU isD L v = (x, r)) : v = encG L x ++ r := by
  rw [durGroupU_eq] at h
  have hv := List.takeWhile_append_dropWhile (p := isD) (l := v)
  cases h1 : v.takeWhile isD with
  | nil => simp only [h1, Prod.mk.injEq] at h; obtain ⟨rfl, rfl⟩ := h; rfl
  | cons d ds =>
    cases h2 : v.dropWhile isD with
    | nil => simp only [h1, h2, Prod.mk.injEq] at h; obtain ⟨rfl, rfl⟩ := h; rfl
    | cons c r' =>
      simp only [h1, h2] at h
      split at h
      · rename_i hc
        simp only [beq_iff_eq] at hc
        simp only [Prod.mk.injEq] at h; obtain ⟨rfl, rfl⟩ := h
        rw [h1, h2] at hv
        simp [encG, ← hv, hc]
      · simp only [Prod.mk.injEq] at h; obtain ⟨rfl, rfl⟩ := h; rfl

theorem durGroupU_parts (L : Char) (v : Str) (ds r) (h : durGroupU isD L v = (some ds, r)) : ds.all isD = true := by
  rw [durGroupU_eq] at h
  have hall : (v.takeWhile isD).all isD = true := by simp
  cases h1 : v.takeWhile isD with
  | nil => simp [h1] at h
  | cons d ds' =>
    cases h2 : v.dropWhile isD with
    | nil => simp [h1, h2] at h
    | cons c r' =>
      simp only [h1, h2] at h
      split at h <;> simp only [Prod.mk.injEq, Option.some.injEq, reduceCtorEq, false_and] at h
      obtain ⟨rfl, -⟩ := h
      rw [← h1]; exact hall

theorem durGroupU_app (L q : Char) (w : Str) (hq : isD q = false) (hL : q ≠ L) (v : Str) :
    durGroupU isD L (v ++ q :: w) = ((durGroupU isD L v).1, (durGroupU isD L v).2 ++ q :: w) := by
  simp only [durGroupU_eq, takeWhile_app_q isD q w hq, dropWhile_app_q isD q w hq]
  cases h1 : v.takeWhile isD with
  | nil => simp
  | cons d ds =>
    cases h2 : v.dropWhile isD with
    | nil => simp [hL]
    | cons c r =>
      simp only [List.cons_append]
      split <;> simp

theorem durGroupU_cancel (L q : Char) (w : Str) (hq : isD q = false) (hL : q ≠ L) (a b : Str) (x)
    (h : durGroupU isD L (a ++ q :: w) = (x, b ++ q :: w)) : durGroupU isD L a = (x, b) := by
  rw [durGroupU_app isD L q w hq hL] at h
  simp only [Prod.mk.injEq] at h
  obtain ⟨h1, h2⟩ := h
  have := List.append_cancel_right h2
  rw [← h1, ← this]


/-- `durSecondsU` with explicit tests -/
def secU (v : Str) : Option Str × Str :=
  if v.takeWhile isD = [] then (none, v) else
  match v.dropWhile isD with
  | [] => (none, v)
  | c :: r =>
    if c = 'S' then (some (v.takeWhile isD), r)
    else if c = '.' then
      (if r.takeWhile isD = [] then (none, v) else
       match r.dropWhile isD with
       | [] => (none, v)
       | c' :: r' => if c' = 'S' then (some (v.takeWhile isD ++ '.' :: r.takeWhile isD), r') else (none, v))
    else (none, v)

theorem durSecondsU_eq (v : Str) : durSecondsU isD v = secU isD v := by
  unfold durSecondsU secU
  simp only [drop_len_takeWhile]
  repeat' split
  all_goals first | rfl | (simp_all; done) | grind

theorem secU_decomp (v : Str) (x r) (h : secU isD v = (x, r)) : v = encS x ++ r := by
  have hv := List.takeWhile_append_dropWhile (p := isD) (l := v)
  unfold secU at h
  split at h
  · simp only [Prod.mk.injEq] at h; obtain ⟨rfl, rfl⟩ := h; rfl
  · split at h
    · simp only [Prod.mk.injEq] at h; obtain ⟨rfl, rfl⟩ := h; rfl
    · rename_i c r0 h2
      have hr := List.takeWhile_append_dropWhile (p := isD) (l := r0)
      rw [h2] at hv
      split at h
      · rename_i hc; subst hc
        simp only [Prod.mk.injEq] at h; obtain ⟨rfl, rfl⟩ := h
        simp [encS, hv]
      · split at h
        · rename_i hc; subst hc
          split at h
          · simp only [Prod.mk.injEq] at h; obtain ⟨rfl, rfl⟩ := h; rfl
          · split at h
            · simp only [Prod.mk.injEq] at h; obtain ⟨rfl, rfl⟩ := h; rfl
            · rename_i c' r' h3
              rw [h3] at hr
              split at h
              · rename_i hc; subst hc
                simp only [Prod.mk.injEq] at h; obtain ⟨rfl, rfl⟩ := h
                simp only [encS, List.append_assoc, List.cons_append, List.nil_append]
                rw [hr, hv]
              · simp only [Prod.mk.injEq] at h; obtain ⟨rfl, rfl⟩ := h; rfl
        · simp only [Prod.mk.injEq] at h; obtain ⟨rfl, rfl⟩ := h; rfl

theorem secU_parts (v : Str) (s r) (h : secU isD v = (some s, r)) : s.all (fun c => isD c || c == '.') = true := by
  have h1 : ∀ l : Str, (l.takeWhile isD).all (fun c => isD c || c == '.') = true := by
    intro l
    have : (l.takeWhile isD).all isD = true := by simp
    rw [List.all_eq_true] at this ⊢
    intro c hc
    simp [this c hc]
  unfold secU at h
  repeat' split at h
  all_goals simp only [Prod.mk.injEq, Option.some.injEq, reduceCtorEq, false_and] at h
  all_goals obtain ⟨rfl, -⟩ := h
  · exact h1 v
  · simp only [List.all_append, List.all_cons, Bool.and_eq_true]
    exact ⟨h1 v, by simp, h1 _⟩

theorem secU_app (w : Str) (hq : isD '\'' = false) (v : Str) :
    secU isD (v ++ '\'' :: w) = ((secU isD v).1, (secU isD v).2 ++ '\'' :: w) := by
  unfold secU
  simp only [takeWhile_app_q isD '\'' w hq, dropWhile_app_q isD '\'' w hq]
  split
  · rfl
  · cases h2 : v.dropWhile isD with
    | nil => simp
    | cons c r =>
      simp only [List.cons_append]
      split
      · rfl
      · split
        · simp only [takeWhile_app_q isD '\'' w hq, dropWhile_app_q isD '\'' w hq]
          split
          · rfl
          · cases h3 : r.dropWhile isD with
            | nil => simp
            | cons c' r' =>
              simp only [List.cons_append]
              split <;> rfl
        · rfl

theorem secU_cancel (w : Str) (hq : isD '\'' = false) (a b : Str) (x)
    (h : secU isD (a ++ '\'' :: w) = (x, b ++ '\'' :: w)) : secU isD a = (x, b) := by
  rw [secU_app isD w hq] at h
  simp only [Prod.mk.injEq] at h
  obtain ⟨h1, h2⟩ := h
  have := List.append_cancel_right h2
  rw [← h1, ← this]


/-- sign text / sign value pairs -/
def SignPair (sgs : Str) (sg : Option Char) : Prop :=
  (sgs = [] ∧ sg = none) ∨ (sgs = ['+'] ∧ sg = some '+') ∨ (sgs = ['-'] ∧ sg = some '-')

theorem durUnpack_A (hq : isD '\'' = false) (sgs sg) (hs : SignPair sgs sg) (W0 W1 W2 w : Str) (xy xm xd)
    (h1 : durGroupU isD 'Y' W0 = (xy, W1)) (h2 : durGroupU isD 'M' W1 = (xm, W2))
    (h3 : durGroupU isD 'D' W2 = (xd, '\'' :: w)) :
    durUnpack isD (sgs ++ 'P' :: (encG 'Y' xy ++ encG 'M' xm ++ encG 'D' xd)) =
      some ⟨sg, xy, xm, xd, none, none, none⟩ := by
  have e2 := durGroupU_decomp isD _ _ _ _ h3
  have e1 := durGroupU_decomp isD _ _ _ _ h2
  subst e2
  subst e1
  have c3 := durGroupU_cancel isD 'D' '\'' w hq (by decide) (encG 'D' xd) [] xd (by simpa using h3)
  have c2 := durGroupU_cancel isD 'M' '\'' w hq (by decide) (encG 'M' xm ++ encG 'D' xd) (encG 'D' xd) xm
    (by simpa [List.append_assoc] using h2)
  have c1 := durGroupU_cancel isD 'Y' '\'' w hq (by decide) (encG 'Y' xy ++ encG 'M' xm ++ encG 'D' xd)
    (encG 'M' xm ++ encG 'D' xd) xy (by
      have e0 := durGroupU_decomp isD _ _ _ _ h1
      rw [e0] at h1
      simpa [List.append_assoc] using h1)
  simp only [List.append_assoc] at c1 c2 c3
  rcases hs with ⟨rfl, rfl⟩ | ⟨rfl, rfl⟩ | ⟨rfl, rfl⟩ <;>
    simp [durUnpack, c1, c2, c3]

theorem durUnpack_B (hq : isD '\'' = false) (sgs sg) (hs : SignPair sgs sg) (W0 W1 W2 W4 W5 W6 w : Str)
    (xy xm xd xh xmi xs)
    (h1 : durGroupU isD 'Y' W0 = (xy, W1)) (h2 : durGroupU isD 'M' W1 = (xm, W2))
    (h3 : durGroupU isD 'D' W2 = (xd, 'T' :: W4))
    (h4 : durGroupU isD 'H' W4 = (xh, W5)) (h5 : durGroupU isD 'M' W5 = (xmi, W6))
    (h6 : durSecondsU isD W6 = (xs, '\'' :: w)) :
    durUnpack isD (sgs ++ 'P' :: (encG 'Y' xy ++ encG 'M' xm ++ encG 'D' xd ++
        'T' :: (encG 'H' xh ++ encG 'M' xmi ++ encS xs))) =
      some ⟨sg, xy, xm, xd, xh, xmi, xs⟩ := by
  rw [durSecondsU_eq] at h6
  have e6 := secU_decomp isD _ _ _ h6
  have e5 := durGroupU_decomp isD _ _ _ _ h5
  have e4 := durGroupU_decomp isD _ _ _ _ h4
  have e2 := durGroupU_decomp isD _ _ _ _ h3
  have e1 := durGroupU_decomp isD _ _ _ _ h2
  have e0 := durGroupU_decomp isD _ _ _ _ h1
  subst e6; subst e5; subst e4; subst e2; subst e1; subst e0
  have c6 := secU_cancel isD w hq (encS xs) [] xs (by simpa using h6)
  have c5 := durGroupU_cancel isD 'M' '\'' w hq (by decide) (encG 'M' xmi ++ encS xs) (encS xs) xmi
    (by simpa [List.append_assoc] using h5)
  have c4 := durGroupU_cancel isD 'H' '\'' w hq (by decide) (encG 'H' xh ++ encG 'M' xmi ++ encS xs)
    (encG 'M' xmi ++ encS xs) xh (by simpa [List.append_assoc] using h4)
  have c3 := durGroupU_cancel isD 'D' '\'' w hq (by decide)
    (encG 'D' xd ++ 'T' :: (encG 'H' xh ++ encG 'M' xmi ++ encS xs))
    ('T' :: (encG 'H' xh ++ encG 'M' xmi ++ encS xs)) xd (by simpa [List.append_assoc] using h3)
  have c2 := durGroupU_cancel isD 'M' '\'' w hq (by decide)
    (encG 'M' xm ++ encG 'D' xd ++ 'T' :: (encG 'H' xh ++ encG 'M' xmi ++ encS xs))
    (encG 'D' xd ++ 'T' :: (encG 'H' xh ++ encG 'M' xmi ++ encS xs)) xm (by simpa [List.append_assoc] using h2)
  have c1 := durGroupU_cancel isD 'Y' '\'' w hq (by decide)
    (encG 'Y' xy ++ encG 'M' xm ++ encG 'D' xd ++ 'T' :: (encG 'H' xh ++ encG 'M' xmi ++ encS xs))
    (encG 'M' xm ++ encG 'D' xd ++ 'T' :: (encG 'H' xh ++ encG 'M' xmi ++ encS xs)) xy
    (by simpa [List.append_assoc] using h1)
  simp only [List.append_assoc, List.cons_append] at c1 c2 c3 c4 c5 c6
  rcases hs with ⟨rfl, rfl⟩ | ⟨rfl, rfl⟩ | ⟨rfl, rfl⟩ <;>
    simp [durUnpack, c1, c2, c3, c4, c5, c6, durSecondsU_eq]

end U


/-! ### lexer side: the DURATION rule on ASCII input -/
abbrev D := pyCharEnv.isDigit
abbrev up (s : Str) : Str := s.map durUpper

theorem du_digit (c : Char) (hc : isAscii c = true) : D (durUpper c) = D c ∧ (D c = true → durUpper c = c) := by
  have := ascii_forall (fun c => D (durUpper c) == D c && (!D c || durUpper c == c)) (by decide +kernel) c hc
  simp only [Bool.and_eq_true, beq_iff_eq, Bool.or_eq_true, Bool.not_eq_true'] at this
  refine ⟨this.1, fun hd => ?_⟩
  rcases this.2 with h | h
  · rw [hd] at h; cases h
  · exact h

theorem du_dot (c : Char) (hc : isAscii c = true) : (durUpper c = '.' ↔ c = '.') ∧ (durUpper c = '\'' ↔ c = '\'') := by
  have := ascii_forall (fun c => ((durUpper c == '.') == (c == '.')) && ((durUpper c == '\'') == (c == '\'')))
    (by decide +kernel) c hc
  simp only [Bool.and_eq_true, beq_iff_eq] at this
  constructor
  · have := this.1; constructor <;> intro h <;> simp_all
  · have := this.2; constructor <;> intro h <;> simp_all

theorem all_of_suffix {P : Char → Bool} {a b : Str} (h : a <:+ b) (hb : b.all P = true) : a.all P = true := by
  rw [List.all_eq_true] at hb ⊢
  exact fun x hx => hb x (h.subset hx)

theorem up_takeWhile : ∀ cs : Str, cs.all isAscii = true →
    (up cs).takeWhile D = cs.takeWhile D ∧ (up cs).dropWhile D = up (cs.dropWhile D)
  | [], _ => by simp
  | c :: cs, ha => by
    simp only [List.all_cons, Bool.and_eq_true] at ha
    have ⟨h1, h2⟩ := du_digit c ha.1
    have ih := up_takeWhile cs ha.2
    simp only [up, List.map_cons, List.takeWhile_cons, List.dropWhile_cons, h1]
    split
    · rename_i hd
      rw [h2 hd]
      exact ⟨by rw [ih.1], ih.2⟩
    · simp

theorem up_digits : ∀ ds : Str, ds.all isAscii = true → ds.all D = true → up ds = ds
  | [], _, _ => rfl
  | c :: ds, ha, hd => by
    simp only [List.all_cons, Bool.and_eq_true] at ha hd
    simp only [up, List.map_cons, (du_digit c ha.1).2 hd.1]
    rw [show List.map durUpper ds = ds from up_digits ds ha.2 hd.2]

theorem span1_eq (p : Char → Bool) (cs : Str) :
    span1 p cs = if cs.takeWhile p = [] then none else some (cs.takeWhile p, cs.dropWhile p) := by
  unfold span1
  rw [span_eq]
  split
  · rename_i h; simp only [Prod.mk.injEq] at h; simp [h.1]
  · rename_i a b hne h
    simp only [Prod.mk.injEq] at h
    obtain ⟨rfl, rfl⟩ := h
    have : cs.takeWhile p ≠ [] := hne
    simp [this]

theorem durGroup_U (l : Char) (hl : l ∈ ciLetters) (cs : Str) (ha : cs.all isAscii = true) (m r : Str)
    (h : durGroup pyCharEnv l cs = (m, r)) :
    ∃ x, durGroupU D (asciiUpper l) (up cs) = (x, up r) ∧ up m = encG (asciiUpper l) x ∧ r.all isAscii = true := by
  unfold durGroup at h
  rw [span1_eq] at h
  rw [durGroupU_eq, (up_takeWhile cs ha).1, (up_takeWhile cs ha).2]
  have hdw : (cs.dropWhile pyCharEnv.isDigit).all isAscii = true := all_of_suffix (List.dropWhile_suffix _) ha
  have htw : (cs.takeWhile pyCharEnv.isDigit).all isAscii = true := by
    rw [List.all_eq_true] at ha ⊢
    exact fun x hx => ha x ((List.takeWhile_prefix _).subset hx)
  cases h1 : cs.takeWhile pyCharEnv.isDigit with
  | nil =>
    simp only [h1, if_true, Prod.mk.injEq] at h
    obtain ⟨rfl, rfl⟩ := h
    exact ⟨none, by simp [D, h1], rfl, ha⟩
  | cons d ds =>
    cases h2 : cs.dropWhile pyCharEnv.isDigit with
    | nil =>
      simp only [h1, h2, reduceCtorEq, if_false, Prod.mk.injEq] at h
      obtain ⟨rfl, rfl⟩ := h
      exact ⟨none, by simp [D, h1, h2], rfl, ha⟩
    | cons c r' =>
      rw [h2] at hdw
      simp only [List.all_cons, Bool.and_eq_true] at hdw
      simp only [h1, h2, reduceCtorEq, if_false] at h
      have hci := ci_dur l c hl hdw.1
      split at h
      · rename_i hc
        simp only [Prod.mk.injEq] at h
        obtain ⟨rfl, rfl⟩ := h
        rw [hci] at hc
        refine ⟨some (d :: ds), by simp [D, h1, h2, hc], ?_, hdw.2⟩
        simp only [beq_iff_eq] at hc
        rw [h1] at htw
        have hdig : (d :: ds).all D = true := by rw [← h1]; simp [D]
        have e := up_digits _ htw hdig
        simp only [up, List.map_append, List.map_cons, List.map_nil, encG, hc] at e ⊢
        rw [e]
      · rename_i hc
        simp only [Prod.mk.injEq] at h
        obtain ⟨rfl, rfl⟩ := h
        rw [hci] at hc
        exact ⟨none, by simp [D, h1, h2, hc], rfl, ha⟩


theorem S_upper : asciiUpper 's' = 'S' := by decide
theorem durUpper_dot : durUpper '.' = '.' := by decide

theorem durSeconds_U (cs : Str) (ha : cs.all isAscii = true) (m r : Str)
    (h : durSeconds pyCharEnv cs = (m, r)) :
    ∃ x, durSecondsU D (up cs) = (x, up r) ∧ up m = encS x ∧ r.all isAscii = true := by
  unfold durSeconds at h
  rw [span1_eq] at h
  rw [durSecondsU_eq]
  unfold secU
  rw [(up_takeWhile cs ha).1, (up_takeWhile cs ha).2]
  have hdw : (cs.dropWhile pyCharEnv.isDigit).all isAscii = true := all_of_suffix (List.dropWhile_suffix _) ha
  have htw : (cs.takeWhile pyCharEnv.isDigit).all isAscii = true := by
    rw [List.all_eq_true] at ha ⊢
    exact fun x hx => ha x ((List.takeWhile_prefix _).subset hx)
  have hdig : (cs.takeWhile pyCharEnv.isDigit).all D = true := by simp [D]
  cases h1 : cs.takeWhile pyCharEnv.isDigit with
  | nil =>
    simp only [h1, if_true, Prod.mk.injEq] at h
    obtain ⟨rfl, rfl⟩ := h
    exact ⟨none, by simp [D, h1], rfl, ha⟩
  | cons d ds =>
    rw [h1] at htw hdig
    have eds := up_digits _ htw hdig
    cases h2 : cs.dropWhile pyCharEnv.isDigit with
    | nil =>
      simp only [h1, h2, reduceCtorEq, if_false, Prod.mk.injEq] at h
      obtain ⟨rfl, rfl⟩ := h
      exact ⟨none, by simp [D, h1, h2], rfl, ha⟩
    | cons c r0 =>
      rw [h2] at hdw
      simp only [List.all_cons, Bool.and_eq_true] at hdw
      simp only [h1, h2, reduceCtorEq, if_false] at h
      by_cases hdot : c = '.'
      · subst hdot
        simp only [] at h
        rw [span1_eq] at h
        have hdw0 : (r0.dropWhile pyCharEnv.isDigit).all isAscii = true := all_of_suffix (List.dropWhile_suffix _) hdw.2
        have htw0 : (r0.takeWhile pyCharEnv.isDigit).all isAscii = true := by
          have := hdw.2
          rw [List.all_eq_true] at this ⊢
          exact fun x hx => this x ((List.takeWhile_prefix _).subset hx)
        have hdig0 : (r0.takeWhile pyCharEnv.isDigit).all D = true := by simp [D]
        simp only [D, h1, h2, up, List.map_cons, durUpper_dot, reduceCtorEq, if_false, if_true,
          show ('.' : Char) ≠ 'S' by decide]
        have e3 := (up_takeWhile r0 hdw.2)
        simp only [D, up] at e3
        rw [e3.1, e3.2]
        cases h3 : r0.takeWhile pyCharEnv.isDigit with
        | nil =>
          simp only [h3, if_true, Prod.mk.injEq] at h
          obtain ⟨rfl, rfl⟩ := h
          exact ⟨none, by simp [h2], rfl, ha⟩
        | cons f fs =>
          rw [h3] at htw0 hdig0
          have efs := up_digits _ htw0 hdig0
          cases h4 : r0.dropWhile pyCharEnv.isDigit with
          | nil =>
            simp only [h3, h4, reduceCtorEq, if_false, Prod.mk.injEq] at h
            obtain ⟨rfl, rfl⟩ := h
            exact ⟨none, by simp [h2], rfl, ha⟩
          | cons c' r' =>
            rw [h4] at hdw0
            simp only [List.all_cons, Bool.and_eq_true] at hdw0
            simp only [h3, h4, reduceCtorEq, if_false] at h
            have hci := ci_dur 's' c' (by decide) hdw0.1
            rw [S_upper] at hci
            split at h
            · rename_i hc
              simp only [Prod.mk.injEq] at h
              obtain ⟨rfl, rfl⟩ := h
              rw [hci, beq_iff_eq] at hc
              refine ⟨some (d :: ds ++ '.' :: (f :: fs)), by simp [hc], ?_, hdw0.2⟩
              simp only [up, List.map_append, List.map_cons, List.map_nil, encS, hc, durUpper_dot] at eds efs ⊢
              rw [eds, efs]
            · rename_i hc
              simp only [Prod.mk.injEq] at h
              obtain ⟨rfl, rfl⟩ := h
              rw [hci, beq_iff_eq] at hc
              exact ⟨none, by simp [hc, h2], rfl, ha⟩
      · have hci := ci_dur 's' c (by decide) hdw.1
        rw [S_upper] at hci
        have hnd : durUpper c ≠ '.' := fun hh => hdot ((du_dot c hdw.1).1.mp hh)
        split at h
        · rename_i heq
          simp only [Option.some.injEq, Prod.mk.injEq, List.cons.injEq] at heq
          exact absurd heq.2.1 hdot
        · rename_i ds' c'' r'' _ heq
          simp only [Option.some.injEq, Prod.mk.injEq, List.cons.injEq] at heq
          obtain ⟨rfl, rfl, rfl⟩ := heq
          split at h
          · rename_i hc
            simp only [Prod.mk.injEq] at h
            obtain ⟨rfl, rfl⟩ := h
            rw [hci, beq_iff_eq] at hc
            refine ⟨some (d :: ds), by simp [D, up, h1, h2, hc], ?_, hdw.2⟩
            simp only [up, List.map_append, List.map_cons, List.map_nil, encS, hc] at eds ⊢
            rw [eds]
          · rename_i hc
            simp only [Prod.mk.injEq] at h
            obtain ⟨rfl, rfl⟩ := h
            rw [hci, beq_iff_eq] at hc
            exact ⟨none, by simp [D, up, h1, h2, hc, hnd], rfl, ha⟩
        · rename_i hn1 hn2
          exact absurd rfl (hn2 _ _ _)



def partOk (x : Option Str) : Bool := match x with
  | some s => !s.contains '\''
  | none => true

theorem durPartsOk_eq (p : DurParts) : durPartsOk p =
    (partOk p.years && partOk p.months && partOk p.days && partOk p.hours && partOk p.minutes && partOk p.seconds) := rfl

theorem partOk_G (L : Char) (v : Str) (x r) (h : durGroupU D L v = (x, r)) : partOk x = true := by
  cases x with
  | none => rfl
  | some ds =>
    have := durGroupU_parts D L v ds r h
    simp only [partOk, Bool.not_eq_true']
    exact noQ_contains _ (noQ_digits _ this)

theorem partOk_S (v : Str) (x r) (h : durSecondsU D v = (x, r)) : partOk x = true := by
  cases x with
  | none => rfl
  | some ds =>
    rw [durSecondsU_eq] at h
    have := secU_parts D v ds r h
    simp only [partOk, Bool.not_eq_true']
    apply noQ_contains
    intro hm
    rw [List.all_eq_true] at this
    have := this _ hm
    simp [D, digit_q] at this

theorem durUpper_q : durUpper '\'' = '\'' := by decide

theorem scanDuration_ok (cs v r : Str) (ha : cs.all isAscii = true) (h : scanDuration pyCharEnv cs = some (v, r)) :
    ∃ p, durUnpack D v = some p ∧ durPartsOk p = true := by
  unfold scanDuration at h
  simp only [Option.bind_eq_bind, Option.bind_eq_some_iff] at h
  obtain ⟨⟨m0, r0⟩, h0, ⟨pm, r2⟩, hp, h⟩ := h
  dsimp only at hp h
  have a0 : r0.all isAscii = true := by
    have := kw_decomp _ _ _ _ _ h0
    rw [this] at ha; simp only [List.all_append, Bool.and_eq_true] at ha; exact ha.2
  -- the sign
  generalize hsg : scanDuration.match_1 (fun _ => List Char × List Char) r0 _ _ _ = sp at hp h
  obtain ⟨sgs, r1⟩ := sp
  have hsign : (∃ sg, SignPair sgs sg) ∧ r1.all isAscii = true ∧ up sgs = sgs := by
    split at hsg <;> simp only [Prod.mk.injEq] at hsg <;> obtain ⟨rfl, rfl⟩ := hsg
    · simp only [List.all_cons, Bool.and_eq_true] at a0
      exact ⟨⟨some '+', .inr (.inl ⟨rfl, rfl⟩)⟩, a0.2, by decide⟩
    · simp only [List.all_cons, Bool.and_eq_true] at a0
      exact ⟨⟨some '-', .inr (.inr ⟨rfl, rfl⟩)⟩, a0.2, by decide⟩
    · exact ⟨⟨none, .inl ⟨rfl, rfl⟩⟩, a0, rfl⟩
  obtain ⟨⟨sg, hsp⟩, a1, hups⟩ := hsign
  -- `P`
  try dsimp only at hp h
  simp only [kw_cons, kw_nil] at hp
  obtain ⟨cp, t, m', rfl, hcp, ⟨rfl, rfl⟩, rfl⟩ := hp
  simp only [List.all_cons, Bool.and_eq_true] at a1
  have hP : durUpper cp = 'P' := (ci_upper 'p' cp (by decide) a1.1 hcp).2.1
  -- the date groups
  generalize hy : durGroup pyCharEnv 'y' r2 = gy at h
  obtain ⟨y, r3⟩ := gy
  obtain ⟨xy, uy, ey, a3⟩ := durGroup_U 'y' (by decide) r2 a1.2 y r3 hy
  try dsimp only at h
  generalize hmo : durGroup pyCharEnv 'm' r3 = gm at h
  obtain ⟨mo, r4⟩ := gm
  obtain ⟨xm, um, em, a4⟩ := durGroup_U 'm' (by decide) r3 a3 mo r4 hmo
  try dsimp only at h
  generalize hd : durGroup pyCharEnv 'd' r4 = gd at h
  obtain ⟨d, r5⟩ := gd
  obtain ⟨xd, ud, ed, a5⟩ := durGroup_U 'd' (by decide) r4 a4 d r5 hd
  try dsimp only at h
  rw [show asciiUpper 'y' = 'Y' by decide] at uy ey
  rw [show asciiUpper 'm' = 'M' by decide] at um em
  rw [show asciiUpper 'd' = 'D' by decide] at ud ed
  cases r5 with
  | nil => simp at h
  | cons c t5 =>
    simp only [List.all_cons, Bool.and_eq_true] at a5
    by_cases hct : ciChar pyCharEnv 't' c = true
    · simp only [hct, if_true] at h
      have hT : durUpper c = 'T' := (ci_upper 't' c (by decide) a5.1 hct).2.1
      generalize hh : durGroup pyCharEnv 'h' t5 = gh at h
      obtain ⟨hr, r6⟩ := gh
      obtain ⟨xh, uh, eh, a6⟩ := durGroup_U 'h' (by decide) t5 a5.2 hr r6 hh
      try dsimp only at h
      generalize hmi : durGroup pyCharEnv 'm' r6 = gmi at h
      obtain ⟨mi, r7⟩ := gmi
      obtain ⟨xmi, umi, emi, a7⟩ := durGroup_U 'm' (by decide) r6 a6 mi r7 hmi
      try dsimp only at h
      generalize hs : durSeconds pyCharEnv r7 = gs at h
      obtain ⟨sc, r8⟩ := gs
      obtain ⟨xs, us, es, a8⟩ := durSeconds_U r7 a7 sc r8 hs
      try dsimp only at h
      rw [show asciiUpper 'h' = 'H' by decide] at uh eh
      rw [show asciiUpper 'm' = 'M' by decide] at umi emi
      split at h
      · simp only [Option.some.injEq, Prod.mk.injEq] at h
        obtain ⟨rfl, rfl⟩ := h
        refine ⟨⟨sg, xy, xm, xd, xh, xmi, xs⟩, ?_, ?_⟩
        · have := durUnpack_B D digit_q sgs sg hsp (up r2) (up r3) (up r4) (up t5) (up r6) (up r7) _ xy xm xd xh xmi xs
            uy um (by simpa [up, hT] using ud) uh umi (by simpa [up, durUpper_q] using us)
          simp only [up] at ey em ed eh emi es hups
          simp only [List.map_append, List.map_cons, List.map_nil, ey, em, ed, eh, emi, es, hP, hT, hups,
            List.append_assoc, List.cons_append, List.nil_append] at this ⊢
          exact this
        · simp only [durPartsOk_eq, Bool.and_eq_true]
          exact ⟨⟨⟨⟨⟨partOk_G _ _ _ _ uy, partOk_G _ _ _ _ um⟩, partOk_G _ _ _ _ ud⟩, partOk_G _ _ _ _ uh⟩,
            partOk_G _ _ _ _ umi⟩, partOk_S _ _ _ us⟩
      · simp at h
    · simp only [hct] at h
      simp only [Bool.false_eq_true, if_false] at h
      split at h
      · rename_i _ r' heq
        simp only [List.cons.injEq] at heq
        obtain ⟨rfl, rfl⟩ := heq
        simp only [Option.some.injEq, Prod.mk.injEq] at h
        obtain ⟨rfl, rfl⟩ := h
        refine ⟨⟨sg, xy, xm, xd, none, none, none⟩, ?_, ?_⟩
        · have := durUnpack_A D digit_q sgs sg hsp (up r2) (up r3) (up r4) _ xy xm xd
            uy um (by simpa [up, durUpper_q] using ud)
          simp only [up] at ey em ed hups
          simp only [List.map_append, List.map_cons, List.map_nil, ey, em, ed, hP, hups,
            List.append_assoc, List.cons_append, List.nil_append, List.append_nil] at this ⊢
          exact this
        · simp only [durPartsOk_eq, Bool.and_eq_true]
          exact ⟨⟨⟨⟨⟨partOk_G _ _ _ _ uy, partOk_G _ _ _ _ um⟩, partOk_G _ _ _ _ ud⟩, rfl⟩, rfl⟩, rfl⟩
      · simp at h

end OQ.LexImage
