/- Lemmas/ParseSepG.lean — like Lemmas/ParseSep.lean, for an arbitrary choice of the unary minus tokens after which a WS token
   is inserted (`sepG S`: after the minus tokens whose rest has a length in `S`, unless a WS follows already): every
   parser function, on success, commutes with `sepG S` (for Props/C19Text.lean). -/
import ODataVerif.Lemmas.LexChain
import ODataVerif.Model.Parser
namespace OQ.ParseSepG
open Spec LexRender
set_option linter.unusedSimpArgs false
set_option linter.unusedVariables false

@[simp] theorem ok_bind {α β} (a : α) (g : α → Except PErr β) : (Except.ok a >>= g) = g a := rfl
@[simp] theorem err_bind {α β} (e : PErr) (g : α → Except PErr β) : (Except.error e >>= g) = .error e := rfl

def wsHead : List Tok → Bool
  | .ws :: _ => true
  | _ => false

/-- insert a WS token after the unary minus tokens whose rest has a length in `S` (unless a WS follows already) -/
def sepG (S : List Nat) : List Tok → List Tok
  | [] => []
  | .uminus :: r => if S.contains r.length && !wsHead r then .uminus :: .ws :: sepG S r else .uminus :: sepG S r
  | t :: r => t :: sepG S r

variable {S : List Nat}

theorem sep_cons_ne {t : Tok} (h : t ≠ .uminus) (r : List Tok) : sepG S (t :: r) = t :: sepG S r := by
  cases t <;> first | rfl | exact absurd rfl h

@[simp] theorem sep_nil : sepG S [] = [] := rfl
@[simp] theorem sep_lit (k v r) : sepG S (.lit k v :: r) = .lit k v :: sepG S r := rfl
@[simp] theorem sep_ident (i r) : sepG S (.ident i :: r) = .ident i :: sepG S r := rfl
@[simp] theorem sep_arith (o r) : sepG S (.arith o :: r) = .arith o :: sepG S r := rfl
@[simp] theorem sep_cmp (o r) : sepG S (.cmp o :: r) = .cmp o :: sepG S r := rfl
@[simp] theorem sep_bool (o r) : sepG S (.bool o :: r) = .bool o :: sepG S r := rfl
@[simp] theorem sep_not (r) : sepG S (.not_ :: r) = .not_ :: sepG S r := rfl
@[simp] theorem sep_any (r) : sepG S (.any :: r) = .any :: sepG S r := rfl
@[simp] theorem sep_all (r) : sepG S (.all :: r) = .all :: sepG S r := rfl
@[simp] theorem sep_ws (r) : sepG S (.ws :: r) = .ws :: sepG S r := rfl
@[simp] theorem sep_lp (r) : sepG S (.lp :: r) = .lp :: sepG S r := rfl
@[simp] theorem sep_rp (r) : sepG S (.rp :: r) = .rp :: sepG S r := rfl
@[simp] theorem sep_comma (r) : sepG S (.comma :: r) = .comma :: sepG S r := rfl
@[simp] theorem sep_slash (r) : sepG S (.slash :: r) = .slash :: sepG S r := rfl
@[simp] theorem sep_colon (r) : sepG S (.colon :: r) = .colon :: sepG S r := rfl
@[simp] theorem sep_eqs (r) : sepG S (.eqs :: r) = .eqs :: sepG S r := rfl

theorem sep_head (t : Tok) (r : List Tok) : ∃ r', sepG S (t :: r) = t :: r' := by
  by_cases h : t = .uminus
  · subst h
    simp only [sepG]; split <;> exact ⟨_, rfl⟩
  · exact ⟨_, sep_cons_ne h r⟩

theorem skipWs_sep (ts : List Tok) : skipWs (sepG S ts) = sepG S (skipWs ts) := by
  cases ts with
  | nil => rfl
  | cons t r =>
    by_cases h : t = .ws
    · subst h; simp [skipWs]
    · obtain ⟨r', hr'⟩ := sep_head (S := S) t r
      rw [hr']
      have e1 : skipWs (t :: r') = t :: r' := by cases t <;> first | rfl | exact absurd rfl h
      have e2 : skipWs (t :: r) = t :: r := by cases t <;> first | rfl | exact absurd rfl h
      rw [e1, e2, hr']

theorem sep_uminus (r : List Tok) : ∃ tl, sepG S (.uminus :: r) = .uminus :: tl ∧ skipWs tl = sepG S (skipWs r) := by
  simp only [sepG]
  split
  · rename_i hc
    refine ⟨_, rfl, ?_⟩
    have hw : wsHead r = false := by simpa using (Bool.and_eq_true_iff.1 hc).2
    have : skipWs r = r := by
      cases r with
      | nil => rfl
      | cons t r0 => cases t <;> first | rfl | simp [wsHead] at hw
    rw [this]; rfl
  · exact ⟨_, rfl, skipWs_sep _⟩

structure SepInv (S : List Nat) (f : Nat) : Prop where
  expr : ∀ m ts x r, parseExpr false f m ts = .ok (x, r) → parseExpr false f m (sepG S ts) = .ok (x, sepG S r)
  loop : ∀ m lhs ts x r, parseLoop false f m lhs ts = .ok (x, r) → parseLoop false f m lhs (sepG S ts) = .ok (x, sepG S r)
  pre : ∀ ts x r, parsePrefix false f ts = .ok (x, r) → parsePrefix false f (sepG S ts) = .ok (x, sepG S r)
  paren : ∀ ts x r, parseParen false f ts = .ok (x, r) → parseParen false f (sepG S ts) = .ok (x, sepG S r)
  items : ∀ acc ts x r, parseItems false f acc ts = .ok (x, r) → parseItems false f acc (sepG S ts) = .ok (x, sepG S r)
  listE : ∀ ts x r, parseListExpr false f ts = .ok (x, r) → parseListExpr false f (sepG S ts) = .ok (x, sepG S r)
  callArgs : ∀ i ts x r, parseCallArgs false f i ts = .ok (x, r) → parseCallArgs false f i (sepG S ts) = .ok (x, sepG S r)
  namedRest : ∀ i acc ts x r, parseNamedRest false f i acc ts = .ok (x, r) →
    parseNamedRest false f i acc (sepG S ts) = .ok (x, sepG S r)
  path : ∀ i ts x r, parsePath false f i ts = .ok (x, r) → parsePath false f i (sepG S ts) = .ok (x, sepG S r)
  lam : ∀ ts x r, parseLambda false f ts = .ok (x, r) → parseLambda false f (sepG S ts) = .ok (x, sepG S r)

theorem sepInv_zero : SepInv S 0 := by
  constructor <;> intros <;> simp_all [parseExpr, parseLoop, parsePrefix, parseParen, parseItems, parseListExpr,
    parseCallArgs, parseNamedRest, parsePath, parseLambda]

theorem si_expr {f} (ih : SepInv S f) (m ts x r) (h : parseExpr false (f+1) m ts = .ok (x, r)) :
    parseExpr false (f+1) m (sepG S ts) = .ok (x, sepG S r) := by
  simp only [parseExpr] at h ⊢
  cases hp : parsePrefix false f ts with
  | error e => rw [hp] at h; simp at h
  | ok p =>
    obtain ⟨lhs, r1⟩ := p
    rw [hp] at h
    rw [ih.pre _ _ _ hp]
    simp only [ok_bind] at h ⊢
    exact ih.loop _ _ _ _ _ h


theorem si_loop {f} (ih : SepInv S f) (m lhs ts x r) (h : parseLoop false (f+1) m lhs ts = .ok (x, r)) :
    parseLoop false (f+1) m lhs (sepG S ts) = .ok (x, sepG S r) := by
  cases ts with
  | nil => simp [parseLoop] at h ⊢; obtain ⟨rfl, rfl⟩ := h; simp
  | cons t r0 =>
    have hdef : ∀ (hnb : ∀ o, t ≠ .bool o) (hnc : ∀ o, t ≠ .cmp o) (hna : ∀ o, t ≠ .arith o),
        parseLoop false (f+1) m lhs (sepG S (t :: r0)) = .ok (x, sepG S r) := by
      intro hnb hnc hna
      have e : parseLoop false (f+1) m lhs (t :: r0) = .ok (lhs, t :: r0) := by
        cases t <;> first | rfl | exact absurd rfl (hnb _) | exact absurd rfl (hnc _) | exact absurd rfl (hna _)
      rw [e] at h
      simp at h
      obtain ⟨rfl, rfl⟩ := h
      obtain ⟨r', hr'⟩ := sep_head t r0
      rw [hr']
      cases t <;> first | rfl | exact absurd rfl (hnb _) | exact absurd rfl (hnc _) | exact absurd rfl (hna _)
    cases t with
    | bool o =>
      simp only [parseLoop, sep_bool] at h ⊢
      split at h
      · rename_i hlv
        rw [if_pos hlv]
        cases hp : parseExpr false f (o.lvl + 1) r0 with
        | error e => rw [hp] at h; simp at h
        | ok p =>
          obtain ⟨rhs, r'⟩ := p
          rw [hp] at h
          rw [ih.expr _ _ _ _ hp]
          simp only [ok_bind] at h ⊢
          exact ih.loop _ _ _ _ _ h
      · rename_i hlv
        rw [if_neg hlv]
        simp at h; obtain ⟨rfl, rfl⟩ := h; simp
    | arith o =>
      simp only [parseLoop, sep_arith] at h ⊢
      split at h
      · rename_i hlv
        rw [if_pos hlv]
        cases hp : parseExpr false f (o.lvl + 1) r0 with
        | error e => rw [hp] at h; simp at h
        | ok p =>
          obtain ⟨rhs, r'⟩ := p
          rw [hp] at h
          rw [ih.expr _ _ _ _ hp]
          simp only [ok_bind] at h ⊢
          exact ih.loop _ _ _ _ _ h
      · rename_i hlv
        rw [if_neg hlv]
        simp at h; obtain ⟨rfl, rfl⟩ := h; simp
    | cmp o =>
      by_cases ho : o = .in_
      · subst ho
        simp only [parseLoop, sep_cmp] at h ⊢
        split at h
        · rename_i hlv
          rw [if_pos hlv]
          cases hp : parseListExpr false f r0 with
          | error e => rw [hp] at h; simp at h
          | ok p =>
            obtain ⟨rhs, r'⟩ := p
            rw [hp] at h
            rw [ih.listE _ _ _ hp]
            simp only [ok_bind] at h ⊢
            exact ih.loop _ _ _ _ _ h
        · rename_i hlv
          rw [if_neg hlv]
          simp at h; obtain ⟨rfl, rfl⟩ := h; simp
      · have e : ∀ ts', parseLoop false (f+1) m lhs (.cmp o :: ts') =
            if o.lvl ≥ m then (do
              let (rhs, r') ← parseExpr false f (o.lvl + 1) ts'
              parseLoop false f m (.compare o lhs rhs) r') else .ok (lhs, .cmp o :: ts') := by
          intro ts'; cases o <;> first | exact absurd rfl ho | rfl
        rw [sep_cmp, e] at *
        split at h
        · rename_i hlv
          rw [if_pos hlv]
          cases hp : parseExpr false f (o.lvl + 1) r0 with
          | error e => rw [hp] at h; simp at h
          | ok p =>
            obtain ⟨rhs, r'⟩ := p
            rw [hp] at h
            rw [ih.expr _ _ _ _ hp]
            simp only [ok_bind] at h ⊢
            exact ih.loop _ _ _ _ _ h
        · rename_i hlv
          rw [if_neg hlv]
          simp at h; obtain ⟨rfl, rfl⟩ := h; simp
    | _ => exact hdef (by intro o; simp) (by intro o; simp) (by intro o; simp)


theorem liftOutcome_ok {α} {o : Outcome α} {rest : List Tok} {x : α} {r : List Tok}
    (h : liftOutcome o rest = .ok (x, r)) : r = rest ∧ ∀ rest', liftOutcome o rest' = .ok (x, rest') := by
  cases o with
  | ok a =>
    simp [liftOutcome] at h
    obtain ⟨rfl, rfl⟩ := h
    exact ⟨rfl, fun _ => rfl⟩
  | _ => simp [liftOutcome] at h

theorem finishCall_sep {i : Ident} {args : Exprs} {rest : List Tok} {x : Expr} {r : List Tok}
    (h : finishCall false i args rest = .ok (x, r)) : finishCall false i args (sepG S rest) = .ok (x, sepG S r) := by
  cases rest with
  | nil =>
    simp only [finishCall] at h ⊢
    simp at h
    obtain ⟨rfl, hl⟩ := liftOutcome_ok h
    simpa using hl []
  | cons t r0 =>
    obtain ⟨r', hr'⟩ := sep_head t r0
    simp only [finishCall] at h
    rw [hr']
    simp only [finishCall]
    split at h
    · rename_i hf
      rw [if_pos hf]
      obtain ⟨rfl, hl⟩ := liftOutcome_ok h
      rw [hr']; exact hl _
    · simp at h

theorem sep_head_ne {t0 : Tok} {r : List Tok} (h : ∀ r', r ≠ t0 :: r') : ∀ r', sepG S r ≠ t0 :: r' := by
  intro r' he
  cases r with
  | nil => simp at he
  | cons t r0 =>
    obtain ⟨r'', hr''⟩ := sep_head t r0
    rw [hr''] at he
    simp at he
    exact h r0 (by rw [he.1])

theorem parsePrefix_ident_lp {f : Nat} (i : Ident) (r : List Tok) (h : ∀ r', r ≠ .rp :: r') :
    parsePrefix false (f+1) (.ident i :: .lp :: r) = parseCallArgs false f i (skipWs r) := by
  cases r with
  | nil => rfl
  | cons t r0 => cases t <;> first | rfl | exact absurd rfl (h _)

theorem parsePrefix_ident {f : Nat} (i : Ident) (r : List Tok) (h : ∀ r', r ≠ .lp :: r') :
    parsePrefix false (f+1) (.ident i :: r) = parsePath false f i r := by
  cases r with
  | nil => rfl
  | cons t r0 => cases t <;> first | rfl | exact absurd rfl (h _)

theorem si_pre {f} (ih : SepInv S f) (ts x r) (h : parsePrefix false (f+1) ts = .ok (x, r)) :
    parsePrefix false (f+1) (sepG S ts) = .ok (x, sepG S r) := by
  cases ts with
  | nil => simp [parsePrefix, failAt] at h
  | cons t r0 =>
    cases t with
    | not_ =>
      simp only [parsePrefix, sep_not] at h ⊢
      cases hp : parseExpr false f (unaryLvl + 1) r0 with
      | error e => rw [hp] at h; simp [Functor.map, Except.map] at h
      | ok p =>
        obtain ⟨e, r'⟩ := p
        rw [hp] at h
        rw [ih.expr _ _ _ _ hp]
        simp [Functor.map, Except.map, pure, Except.pure] at h ⊢
        obtain ⟨rfl, rfl⟩ := h
        exact ⟨rfl, rfl⟩
    | uminus =>
      obtain ⟨tl, htl, hsk⟩ := sep_uminus r0
      rw [htl]
      simp only [parsePrefix] at h ⊢
      rw [hsk]
      cases hp : parseExpr false f (unaryLvl + 1) (skipWs r0) with
      | error e => rw [hp] at h; simp [Functor.map, Except.map] at h
      | ok p =>
        obtain ⟨e, r'⟩ := p
        rw [hp] at h
        rw [ih.expr _ _ _ _ hp]
        simp [Functor.map, Except.map, pure, Except.pure] at h ⊢
        obtain ⟨rfl, rfl⟩ := h
        exact ⟨rfl, rfl⟩
    | lit k v =>
      simp only [parsePrefix, sep_lit] at h ⊢
      simp at h ⊢
      obtain ⟨rfl, rfl⟩ := h
      exact ⟨rfl, rfl⟩
    | lp =>
      simp only [parsePrefix, sep_lp] at h ⊢
      rw [skipWs_sep]
      exact ih.paren _ _ _ h
    | ident i =>
      rw [sep_ident]
      by_cases h1 : ∃ r1, r0 = .lp :: r1
      · obtain ⟨r1, rfl⟩ := h1
        rw [sep_lp]
        by_cases h2 : ∃ r2, r1 = .rp :: r2
        · obtain ⟨r2, rfl⟩ := h2
          rw [sep_rp]
          simp only [parsePrefix] at h ⊢
          exact finishCall_sep h
        · have h2' : ∀ r', r1 ≠ .rp :: r' := fun r' he => h2 ⟨r', he⟩
          rw [parsePrefix_ident_lp i r1 h2'] at h
          rw [parsePrefix_ident_lp i _ (sep_head_ne h2'), skipWs_sep]
          exact ih.callArgs _ _ _ _ h
      · have h1' : ∀ r', r0 ≠ .lp :: r' := fun r' he => h1 ⟨r', he⟩
        rw [parsePrefix_ident i r0 h1'] at h
        rw [parsePrefix_ident i _ (sep_head_ne h1')]
        exact ih.path _ _ _ _ h
    | _ => simp [parsePrefix, failAt] at h


theorem si_items {f} (ih : SepInv S f) (acc ts x r) (h : parseItems false (f+1) acc ts = .ok (x, r)) :
    parseItems false (f+1) acc (sepG S ts) = .ok (x, sepG S r) := by
  simp only [parseItems] at h ⊢
  cases hp : parseExpr false f 0 ts with
  | error e => rw [hp] at h; simp at h
  | ok p =>
    obtain ⟨e, r1⟩ := p
    rw [hp] at h
    rw [ih.expr _ _ _ _ hp]
    simp only [ok_bind] at h ⊢
    rw [skipWs_sep]
    generalize skipWs r1 = y at h ⊢
    cases y with
    | nil => simp [failAt] at h
    | cons t y0 =>
      cases t with
      | rp => simp [pure, Except.pure] at h ⊢; obtain ⟨rfl, rfl⟩ := h; exact ⟨rfl, rfl⟩
      | comma =>
        simp only [sep_comma] at h ⊢
        rw [skipWs_sep]
        exact ih.items _ _ _ _ h
      | uminus =>
        obtain ⟨r', hr'⟩ := sep_head (S := S) .uminus y0
        simp [failAt] at h
      | _ => simp [failAt] at h

theorem si_paren {f} (ih : SepInv S f) (ts x r) (h : parseParen false (f+1) ts = .ok (x, r)) :
    parseParen false (f+1) (sepG S ts) = .ok (x, sepG S r) := by
  simp only [parseParen] at h ⊢
  cases hp : parseExpr false f 0 ts with
  | error e => rw [hp] at h; simp at h
  | ok p =>
    obtain ⟨e, r1⟩ := p
    rw [hp] at h
    rw [ih.expr _ _ _ _ hp]
    simp only [ok_bind] at h ⊢
    rw [skipWs_sep]
    generalize skipWs r1 = y at h ⊢
    cases y with
    | nil => simp [failAt] at h
    | cons t y0 =>
      cases t with
      | rp => simp [pure, Except.pure] at h ⊢; obtain ⟨rfl, rfl⟩ := h; exact ⟨rfl, rfl⟩
      | comma =>
        simp only [sep_comma] at h ⊢
        rw [skipWs_sep]
        generalize skipWs y0 = z at h ⊢
        by_cases hz : ∃ z0, z = .rp :: z0
        · obtain ⟨z0, rfl⟩ := hz
          simp [pure, Except.pure] at h ⊢; obtain ⟨rfl, rfl⟩ := h; exact ⟨rfl, rfl⟩
        · have hz' : ∀ r', z ≠ .rp :: r' := fun r' he => hz ⟨r', he⟩
          split at h
          · rename_i r'' ; exact absurd rfl (hz' _)
          split
          · rename_i r'' heq; exact absurd heq (sep_head_ne hz' _)
          cases hq : parseItems false f (.cons e .nil) z with
          | error e' => rw [hq] at h; simp [Functor.map, Except.map] at h
          | ok q =>
            obtain ⟨items, r3⟩ := q
            rw [hq] at h
            rw [ih.items _ _ _ _ hq]
            simp [Functor.map, Except.map, pure, Except.pure] at h ⊢
            obtain ⟨rfl, rfl⟩ := h
            exact ⟨rfl, rfl⟩
      | _ => simp [failAt] at h


theorem si_listE {f} (ih : SepInv S f) (ts x r) (h : parseListExpr false (f+1) ts = .ok (x, r)) :
    parseListExpr false (f+1) (sepG S ts) = .ok (x, sepG S r) := by
  cases ts with
  | nil => simp [parseListExpr, failAt] at h
  | cons t r0 =>
    cases t with
    | lp =>
      simp only [parseListExpr, sep_lp] at h ⊢
      rw [skipWs_sep]
      cases hp : parseExpr false f 0 (skipWs r0) with
      | error e => rw [hp] at h; simp at h
      | ok p =>
        obtain ⟨e, r1⟩ := p
        rw [hp] at h
        rw [ih.expr _ _ _ _ hp]
        simp only [ok_bind] at h ⊢
        rw [skipWs_sep]
        generalize skipWs r1 = y at h ⊢
        cases y with
        | nil => simp [failAt] at h
        | cons t y0 =>
          cases t with
          | comma =>
            simp only [sep_comma] at h ⊢
            rw [skipWs_sep]
            generalize skipWs y0 = z at h ⊢
            by_cases hz : ∃ z0, z = .rp :: z0
            · obtain ⟨z0, rfl⟩ := hz
              simp [pure, Except.pure] at h ⊢; obtain ⟨rfl, rfl⟩ := h; exact ⟨rfl, rfl⟩
            · have hz' : ∀ r', z ≠ .rp :: r' := fun r' he => hz ⟨r', he⟩
              split at h
              · rename_i r'' ; exact absurd rfl (hz' _)
              split
              · rename_i r'' heq; exact absurd heq (sep_head_ne hz' _)
              cases hq : parseItems false f (.cons e .nil) z with
              | error e' => rw [hq] at h; simp [Functor.map, Except.map] at h
              | ok q =>
                obtain ⟨items, r3⟩ := q
                rw [hq] at h
                rw [ih.items _ _ _ _ hq]
                simp [Functor.map, Except.map, pure, Except.pure] at h ⊢
                obtain ⟨rfl, rfl⟩ := h
                exact ⟨rfl, rfl⟩
          | _ => simp [failAt] at h
    | _ => simp [parseListExpr, failAt] at h

theorem si_lam {f} (ih : SepInv S f) (ts x r) (h : parseLambda false (f+1) ts = .ok (x, r)) :
    parseLambda false (f+1) (sepG S ts) = .ok (x, sepG S r) := by
  cases ts with
  | nil => simp [parseLambda, failAt] at h
  | cons t r0 =>
    cases t with
    | ident v =>
      simp only [parseLambda, sep_ident] at h ⊢
      rw [skipWs_sep]
      generalize skipWs r0 = y at h ⊢
      cases y with
      | nil => simp [failAt] at h
      | cons t y0 =>
        cases t with
        | colon =>
          simp only [sep_colon] at h ⊢
          rw [skipWs_sep]
          cases hp : parseExpr false f 0 (skipWs y0) with
          | error e => rw [hp] at h; simp [Functor.map, Except.map] at h
          | ok p =>
            obtain ⟨e, r1⟩ := p
            rw [hp] at h
            rw [ih.expr _ _ _ _ hp]
            simp [Functor.map, Except.map, pure, Except.pure] at h ⊢
            obtain ⟨rfl, rfl⟩ := h
            exact ⟨rfl, rfl⟩
        | _ => simp [failAt] at h
    | _ => simp [parseLambda, failAt] at h


theorem si_namedRest {f} (ih : SepInv S f) (i acc ts x r) (h : parseNamedRest false (f+1) i acc ts = .ok (x, r)) :
    parseNamedRest false (f+1) i acc (sepG S ts) = .ok (x, sepG S r) := by
  simp only [parseNamedRest] at h ⊢
  rw [skipWs_sep]
  generalize skipWs ts = y at h ⊢
  cases y with
  | nil => simp [failAt] at h
  | cons t y0 =>
    cases t with
    | rp => simp only [sep_rp] at h ⊢; exact finishCall_sep h
    | comma =>
      simp only [sep_comma] at h ⊢
      rw [skipWs_sep]
      generalize skipWs y0 = z at h ⊢
      cases z with
      | nil => simp [failAt] at h
      | cons t1 z0 =>
        cases t1 with
        | ident n =>
          cases z0 with
          | nil => simp [failAt] at h
          | cons t2 z1 =>
            cases t2 with
            | eqs =>
              simp only [sep_ident, sep_eqs] at h ⊢
              cases hp : parseExpr false f 0 z1 with
              | error e => rw [hp] at h; simp at h
              | ok p =>
                obtain ⟨e, r1⟩ := p
                rw [hp] at h
                rw [ih.expr _ _ _ _ hp]
                simp only [ok_bind] at h ⊢
                exact ih.namedRest _ _ _ _ _ h
            | _ => simp [failAt] at h
        | _ => simp [failAt] at h
    | _ => simp [failAt] at h

theorem expectRp_sep {ts r : List Tok} (h : expectRp false ts = .ok r) : expectRp false (sepG S ts) = .ok (sepG S r) := by
  cases ts with
  | nil => simp [expectRp, failAt] at h
  | cons t r0 =>
    cases t with
    | rp => simp [expectRp] at h ⊢; rw [h]
    | _ => simp [expectRp, failAt] at h

theorem si_path {f} (ih : SepInv S f) (i ts x r) (h : parsePath false (f+1) i ts = .ok (x, r)) :
    parsePath false (f+1) i (sepG S ts) = .ok (x, sepG S r) := by
  by_cases hs : ∃ r0, ts = .slash :: r0
  · obtain ⟨r0, rfl⟩ := hs
    rw [sep_slash]
    cases r0 with
    | nil => simp [parsePath, failAt] at h
    | cons t r1 =>
      cases t with
      | ident j =>
        simp only [parsePath, sep_ident] at h ⊢
        cases hp : parsePath false f j r1 with
        | error e => rw [hp] at h; simp at h
        | ok p =>
          obtain ⟨tail, r'⟩ := p
          rw [hp] at h
          rw [ih.path _ _ _ _ hp]
          simp only [ok_bind] at h ⊢
          obtain ⟨rfl, hl⟩ := liftOutcome_ok h
          exact hl _
      | any =>
        cases r1 with
        | nil => simp [parsePath, failAt] at h
        | cons t2 r2 =>
          cases t2 with
          | lp =>
            simp only [parsePath, sep_any, sep_lp] at h ⊢
            rw [skipWs_sep]
            generalize skipWs r2 = z at h ⊢
            by_cases hz : ∃ z0, z = .rp :: z0
            · obtain ⟨z0, rfl⟩ := hz
              simp [pure, Except.pure] at h ⊢; obtain ⟨rfl, rfl⟩ := h; exact ⟨rfl, rfl⟩
            · have hz' : ∀ r', z ≠ .rp :: r' := fun r' he => hz ⟨r', he⟩
              split at h
              · rename_i r'' ; exact absurd rfl (hz' _)
              split
              · rename_i r'' heq; exact absurd heq (sep_head_ne hz' _)
              cases hq : parseLambda false f z with
              | error e' => rw [hq] at h; simp at h
              | ok q =>
                obtain ⟨lam, r3⟩ := q
                rw [hq] at h
                rw [ih.lam _ _ _ hq]
                simp only [ok_bind] at h ⊢
                rw [skipWs_sep]
                cases he : expectRp false (skipWs r3) with
                | error e' => rw [he] at h; simp [Functor.map, Except.map] at h
                | ok r4 =>
                  rw [he] at h
                  rw [expectRp_sep he]
                  simp [Functor.map, Except.map, pure, Except.pure] at h ⊢
                  obtain ⟨rfl, rfl⟩ := h
                  exact ⟨rfl, rfl⟩
          | _ => simp [parsePath, failAt] at h
      | all =>
        cases r1 with
        | nil => simp [parsePath, failAt] at h
        | cons t2 r2 =>
          cases t2 with
          | lp =>
            simp only [parsePath, sep_all, sep_lp] at h ⊢
            rw [skipWs_sep]
            cases hq : parseLambda false f (skipWs r2) with
            | error e' => rw [hq] at h; simp at h
            | ok q =>
              obtain ⟨lam, r3⟩ := q
              rw [hq] at h
              rw [ih.lam _ _ _ hq]
              simp only [ok_bind] at h ⊢
              rw [skipWs_sep]
              cases he : expectRp false (skipWs r3) with
              | error e' => rw [he] at h; simp [Functor.map, Except.map] at h
              | ok r4 =>
                rw [he] at h
                rw [expectRp_sep he]
                simp [Functor.map, Except.map, pure, Except.pure] at h ⊢
                obtain ⟨rfl, rfl⟩ := h
                exact ⟨rfl, rfl⟩
          | _ => simp [parsePath, failAt] at h
      | _ => simp [parsePath, failAt] at h
  · have hs' : ∀ r', ts ≠ .slash :: r' := fun r' he => hs ⟨r', he⟩
    have e : ∀ w : List Tok, (∀ r', w ≠ .slash :: r') → parsePath false (f+1) i w = .ok (.ident i, w) := by
      intro w hw
      cases w with
      | nil => rfl
      | cons t w0 => cases t <;> first | rfl | exact absurd rfl (hw _)
    rw [e ts hs'] at h
    rw [e _ (sep_head_ne hs')]
    simp at h ⊢
    obtain ⟨rfl, rfl⟩ := h
    exact ⟨rfl, rfl⟩


theorem si_callArgs {f} (ih : SepInv S f) (i ts x r) (h : parseCallArgs false (f+1) i ts = .ok (x, r)) :
    parseCallArgs false (f+1) i (sepG S ts) = .ok (x, sepG S r) := by
  by_cases hn : ∃ n r0, ts = .ident n :: .eqs :: r0
  · obtain ⟨n, r0, rfl⟩ := hn
    simp only [parseCallArgs, sep_ident, sep_eqs] at h ⊢
    cases hp : parseExpr false f 0 r0 with
    | error e => rw [hp] at h; simp at h
    | ok p =>
      obtain ⟨e, r1⟩ := p
      rw [hp] at h
      rw [ih.expr _ _ _ _ hp]
      simp only [ok_bind] at h ⊢
      exact ih.namedRest _ _ _ _ _ h
  · have hn' : ∀ n r0, ts ≠ .ident n :: .eqs :: r0 := fun n r0 he => hn ⟨n, r0, he⟩
    have hn'' : ∀ n r0, sepG S ts ≠ .ident n :: .eqs :: r0 := by
      intro n r0 he
      cases ts with
      | nil => simp at he
      | cons t w =>
        obtain ⟨w', hw'⟩ := sep_head t w
        rw [hw'] at he
        simp at he
        obtain ⟨rfl, rfl⟩ := he
        rw [sep_ident] at hw'
        simp at hw'
        cases w with
        | nil => simp at hw'
        | cons t2 w2 =>
          obtain ⟨w3, hw3⟩ := sep_head t2 w2
          rw [hw3] at hw'
          simp at hw'
          exact hn' _ _ (by rw [hw'.1])
    have e : ∀ w : List Tok, (∀ n r0, w ≠ .ident n :: .eqs :: r0) → parseCallArgs false (f+1) i w =
        (do
          let (e, r1) ← parseExpr false f 0 w
          match skipWs r1 with
          | .rp :: r2 => finishCall false i (.cons e .nil) r2
          | .comma :: r2 =>
              (match skipWs r2 with
               | .rp :: r3 => finishCall false i (.cons e .nil) r3
               | r3 => do
                   let (items, r4) ← parseItems false f (.cons e .nil) r3
                   finishCall false i items r4)
          | r2 => .error (failAt false r2)) := by
      intro w hw
      rw [parseCallArgs]
      · rfl
      · intro n r0 he
        exact hw n r0 he
    rw [e ts hn'] at h
    rw [e _ hn'']
    cases hp : parseExpr false f 0 ts with
    | error e => rw [hp] at h; simp at h
    | ok p =>
      obtain ⟨e, r1⟩ := p
      rw [hp] at h
      rw [ih.expr _ _ _ _ hp]
      simp only [ok_bind] at h ⊢
      rw [skipWs_sep]
      generalize skipWs r1 = y at h ⊢
      cases y with
      | nil => simp [failAt] at h
      | cons t y0 =>
        cases t with
        | rp => simp only [sep_rp] at h ⊢; exact finishCall_sep h
        | comma =>
          simp only [sep_comma] at h ⊢
          rw [skipWs_sep]
          generalize skipWs y0 = z at h ⊢
          by_cases hz : ∃ z0, z = .rp :: z0
          · obtain ⟨z0, rfl⟩ := hz
            simp only [sep_rp] at h ⊢; exact finishCall_sep h
          · have hz' : ∀ r', z ≠ .rp :: r' := fun r' he => hz ⟨r', he⟩
            split at h
            · rename_i r'' ; exact absurd rfl (hz' _)
            split
            · rename_i r'' heq; exact absurd heq (sep_head_ne hz' _)
            cases hq : parseItems false f (.cons e .nil) z with
            | error e' => rw [hq] at h; simp at h
            | ok q =>
              obtain ⟨items, r3⟩ := q
              rw [hq] at h
              rw [ih.items _ _ _ _ hq]
              simp only [ok_bind] at h ⊢
              exact finishCall_sep h
        | _ => simp [failAt] at h

theorem sepInv (S : List Nat) : ∀ f, SepInv S f
  | 0 => sepInv_zero
  | f + 1 =>
    have ih := sepInv S f
    ⟨si_expr ih, si_loop ih, si_pre ih, si_paren ih, si_items ih, si_listE ih, si_callArgs ih, si_namedRest ih,
     si_path ih, si_lam ih⟩

end OQ.ParseSepG

