/- Lemmas/LitLex.lean — the scanner model reads each well-formed spelling of Spec/LitSpell.lean as one token of its kind
   (kind half of Props/C06Value.lean). -/
import ODataVerif.Lemmas.LitValue
import ODataVerif.Lemmas.LexTok
import ODataVerif.Lemmas.LexRest
namespace OQ.LitLex
open OQ.LitSpell OQ.LitValue OQ.LexRender
set_option linter.unusedSimpArgs false
set_option linter.unusedVariables false

/-! ### from a spelling alone to a spelling followed by a boundary -/

theorem lexOne_boundary {s : Str} {k : LitKind} {v : Str} (h : lexOne E s = some (.lit k v, [])) (rest : Str)
    (hb : boundary rest) : lexOne E (s ++ rest) = some (.lit k v, rest) := by
  rcases hb with rfl | ⟨c, t, rfl, hc⟩
  · simpa using h
  · refine lexOne_ext_lit t h ?_ ?_
    · rcases hc with rfl | rfl | rfl <;> decide
    · rcases hc with rfl | rfl | rfl <;> decide

/-! ### `lexOne` picks the first rule that matches -/
section pick
variable {env : CharEnv} {cs v r : Str}

theorem lexOne_duration (h1 : scanDuration env cs = some (v, r)) : lexOne env cs = some (.lit .duration v, r) := by
  simp [lexOne, h1]
theorem lexOne_string (h1 : scanDuration env cs = none) (h2 : scanString cs = some (v, r)) :
    lexOne env cs = some (.lit .str v, r) := by
  simp [lexOne, h1, h2]
theorem lexOne_guid (h1 : scanDuration env cs = none) (h2 : scanString cs = none) (h3 : scanGeography env cs = none)
    (h4 : scanGuid env cs = some (v, r)) : lexOne env cs = some (.lit .guid v, r) := by
  simp [lexOne, h1, h2, h3, h4]
theorem lexOne_datetime (h1 : scanDuration env cs = none) (h2 : scanString cs = none) (h3 : scanGeography env cs = none)
    (h4 : scanGuid env cs = none) (h5 : scanDateTime env cs = some (v, r)) : lexOne env cs = some (.lit .datetime v, r) := by
  simp [lexOne, h1, h2, h3, h4, h5]
theorem lexOne_date (h1 : scanDuration env cs = none) (h2 : scanString cs = none) (h3 : scanGeography env cs = none)
    (h4 : scanGuid env cs = none) (h5 : scanDateTime env cs = none) (h6 : scanDatePart env cs = some (v, r)) :
    lexOne env cs = some (.lit .date v, r) := by
  simp [lexOne, h1, h2, h3, h4, h5, h6]
theorem lexOne_time (h1 : scanDuration env cs = none) (h2 : scanString cs = none) (h3 : scanGeography env cs = none)
    (h4 : scanGuid env cs = none) (h5 : scanDateTime env cs = none) (h6 : scanDatePart env cs = none)
    (h7 : scanTime env cs = some (v, r)) : lexOne env cs = some (.lit .time v, r) := by
  simp [lexOne, h1, h2, h3, h4, h5, h6, h7]
theorem lexOne_int (h1 : scanDuration env cs = none) (h2 : scanString cs = none) (h3 : scanGeography env cs = none)
    (h4 : scanGuid env cs = none) (h5 : scanDateTime env cs = none) (h6 : scanDatePart env cs = none)
    (h7 : scanTime env cs = none) (h8 : scanDecimal env cs = none) (h9 : scanInteger env cs = some (v, r)) :
    lexOne env cs = some (.lit .int v, r) := by
  simp [lexOne, h1, h2, h3, h4, h5, h6, h7, h8, h9]
end pick


/-! ### generic scanner facts -/
section generic
variable {env : CharEnv}

theorem span_all (p : Char → Bool) : ∀ (ds r : Str), (∀ c ∈ ds, p c = true) → (∀ c t, r = c :: t → p c = false) →
    span p (ds ++ r) = (ds, r)
  | [], [], _, _ => rfl
  | [], c :: t, _, hr => by simp [span, hr c t rfl]
  | d :: ds, r, hd, hr => by
    simp only [List.cons_append, span, hd d (by simp), if_true]
    rw [span_all p ds r (fun c hc => hd c (List.mem_cons_of_mem _ hc)) hr]

theorem span1_all (p : Char → Bool) (ds r : Str) (hne : ds ≠ []) (hd : ∀ c ∈ ds, p c = true)
    (hr : ∀ c t, r = c :: t → p c = false) : span1 p (ds ++ r) = some (ds, r) := by
  unfold span1
  rw [span_all p ds r hd hr]
  cases ds with
  | nil => exact absurd rfl hne
  | cons d ds => rfl

theorem takeN_all' (p : Char → Bool) : ∀ (n : Nat) (a r : Str), a.length = n → (∀ c ∈ a, p c = true) →
    takeN p n (a ++ r) = some (a, r)
  | 0, a, r, hl, _ => by
    have : a = [] := List.length_eq_zero_iff.1 hl
    subst this; rfl
  | n + 1, [], r, hl, _ => by simp at hl
  | n + 1, c :: a, r, hl, ha => by
    simp only [List.cons_append, takeN, ha c (by simp), if_true]
    rw [takeN_all' p n a r (by simpa using hl) (fun x hx => ha x (List.mem_cons_of_mem _ hx))]

theorem takeUpTo_all' (p : Char → Bool) : ∀ (n : Nat) (a r : Str), a.length ≤ n → (∀ c ∈ a, p c = true) →
    (∀ c t, r = c :: t → p c = false) → takeUpTo p n (a ++ r) = (a, r)
  | 0, a, r, hl, _, _ => by
    have : a = [] := List.length_eq_zero_iff.1 (by omega)
    subst this; rfl
  | n + 1, [], [], _, _, _ => rfl
  | n + 1, [], c :: t, _, _, hr => by simp [takeUpTo, hr c t rfl]
  | n + 1, c :: a, r, hl, ha, hr => by
    simp only [List.cons_append, takeUpTo, ha c (by simp), if_true]
    rw [takeUpTo_all' p n a r (by simp at hl; omega) (fun x hx => ha x (List.mem_cons_of_mem _ hx)) hr]

theorem kw_self : ∀ (w r : Str), (∀ p ∈ w, ciChar env p p = true) → kw env w (w ++ r) = some (w, r)
  | [], r, _ => rfl
  | p :: w, r, h => by
    simp only [List.cons_append, kw, h p (by simp), if_true]
    rw [kw_self w r (fun q hq => h q (List.mem_cons_of_mem _ hq))]

/-- no `-` anywhere: not a GUID, not a date -/
theorem scanGuid_nominus (cs : Str) (h : cs.all (· != '-') = true) : scanGuid env cs = none := by
  unfold scanGuid
  cases h1 : takeN (isHex env) 8 cs with
  | none => rfl
  | some ar =>
    obtain ⟨a, r⟩ := ar
    have hr := LexImage.takeN_rest (· != '-') (isHex env) 8 cs a r h1 h
    cases r with
    | nil => rfl
    | cons c t =>
      have : c ≠ '-' := by
        simp only [List.all_cons, Bool.and_eq_true] at hr
        simpa using hr.1
      simp [this]

theorem scanDatePart_nominus (cs : Str) (h : cs.all (· != '-') = true) : scanDatePart env cs = none := by
  unfold scanDatePart
  split
  · simp at h
  · rfl

theorem scanHourMinute_nocolon (cs : Str) (h : cs.all (· != ':') = true) : scanHourMinute env cs = none := by
  unfold scanHourMinute
  split
  · simp at h
  · rfl

end generic

/-! ### digit characters under CPython's classes -/

theorem pad_all (P : Char → Prop) (h : ∀ k, k < 10 → P (Char.ofNat (48 + k))) (w n : Nat) : ∀ c ∈ pad w n, P c := by
  induction w generalizing n with
  | zero => simp [pad]
  | succ w ih =>
    intro c hc
    simp only [pad, List.mem_append, List.mem_singleton] at hc
    rcases hc with hc | rfl
    · exact ih _ c hc
    · exact digitChar_ind P h _

theorem pad_allB (P : Char → Bool) (h : ∀ k, k < 10 → P (Char.ofNat (48 + k)) = true) (w n : Nat) : (pad w n).all P = true := by
  rw [List.all_eq_true]; exact pad_all (fun c => P c = true) h w n

theorem dc_isDigit (n : Nat) : E.isDigit (digitChar n) = true := digitChar_ind (fun c => E.isDigit c = true) (by decide +kernel) n
theorem dc_isHex (n : Nat) : isHex E (digitChar n) = true := digitChar_ind (fun c => isHex E c = true) (by decide +kernel) n
theorem dc_ci_d (n : Nat) : ciChar E 'd' (digitChar n) = false := digitChar_ind (fun c => ciChar E 'd' c = false) (by decide +kernel) n
theorem dc_ci_g (n : Nat) : ciChar E 'g' (digitChar n) = false := digitChar_ind (fun c => ciChar E 'g' c = false) (by decide +kernel) n
theorem dc_ne_quote (n : Nat) : digitChar n ≠ '\'' := digitChar_ind (· ≠ '\'') (by decide) n

/-- the first three rules fail on a text that starts with a digit -/
theorem pre3_digit (n : Nat) (t : Str) :
    scanDuration E (digitChar n :: t) = none ∧ scanString (digitChar n :: t) = none ∧ scanGeography E (digitChar n :: t) = none :=
  ⟨scanDuration_head (dc_ci_d n), scanString_head (dc_ne_quote n), scanGeography_head (dc_ci_g n)⟩

theorem scanExponent_nil : scanExponent E [] = none := rfl

theorem int_alone (w n : Nat) : lexOne E (pad (w + 1) n) = some (.lit .int (pad (w + 1) n), []) := by
  have hdig : ∀ c ∈ pad (w + 1) n, E.isDigit c = true := pad_all _ (by decide +kernel) _ _
  have hminus : (pad (w + 1) n).all (· != '-') = true := pad_allB _ (by decide) _ _
  have hcolon : (pad (w + 1) n).all (· != ':') = true := pad_allB _ (by decide) _ _
  have hspan : span1 E.isDigit (pad (w + 1) n) = some (pad (w + 1) n, []) := by
    have := span1_all E.isDigit (pad (w + 1) n) [] (pad_ne_nil w n) hdig (by intro c t h; cases h)
    simpa using this
  obtain ⟨t, ht⟩ := pad_head w n
  have hint : scanInteger E (pad (w + 1) n) = some (pad (w + 1) n, []) := by
    rw [ht] at hspan ⊢
    unfold scanInteger
    split
    · rename_i heq; simp at heq; exact absurd heq.1 (digitChar_ne_plus _)
    · rename_i heq; simp at heq; exact absurd heq.1 (digitChar_ne_minus _)
    · exact hspan
  have hdec : scanDecimal E (pad (w + 1) n) = none := by
    simp [scanDecimal, hint, scanExponent_nil]
  have hdp : scanDatePart E (pad (w + 1) n) = none := scanDatePart_nominus _ hminus
  refine lexOne_int ?_ ?_ ?_ (scanGuid_nominus _ hminus) ?_ hdp ?_ hdec hint
  · rw [ht]; exact (pre3_digit _ _).1
  · rw [ht]; exact (pre3_digit _ _).2.1
  · rw [ht]; exact (pre3_digit _ _).2.2
  · simp [scanDateTime, hdp]
  · simp [scanTime, scanHourMinute_nocolon _ hcolon]

theorem int_kind (w n : Nat) (h : n < 10 ^ (w + 1)) (rest : Str) (hb : boundary rest) :
    lexOne pyCharEnv (pad (w + 1) n ++ rest) = some (.lit .int (pad (w + 1) n), rest) :=
  lexOne_boundary (int_alone w n) rest hb


/-! ### dates -/
theorem isHex_minus : isHex E '-' = false := by decide +kernel
theorem isHex_colon : isHex E ':' = false := by decide +kernel
theorem isDigit_colon : E.isDigit ':' = false := by decide +kernel

def monthCond (m1 m2 : Char) : Bool := (m1 == '0' && E.isDigit m2) || (m1 == '1' && inCharRange '0' '2' m2)
def dayCond (d1 d2 : Char) : Bool := (inCharRange '0' '2' d1 && E.isDigit d2) || (d1 == '3' && inCharRange '0' '1' d2)

theorem monthCond_ok : ∀ m, m < 13 → 1 ≤ m → monthCond (digitChar (m / 10)) (digitChar m) = true := by decide +kernel
theorem dayCond_ok : ∀ d, d < 32 → 1 ≤ d → dayCond (digitChar (d / 10)) (digitChar d) = true := by decide +kernel

theorem scanDatePart_iso (y m d : Nat) (h : validDate y m d) (r : Str) :
    scanDatePart E (isoDate y m d ++ r) = some (isoDate y m d, r) := by
  obtain ⟨h1, h2, h3, h4, h5, h6⟩ := h
  have := monthLen_le y m
  have hm := monthCond_ok m (by omega) h3
  have hd := dayCond_ok d (by omega) h5
  simp only [monthCond, dayCond, dc_isDigit] at hm hd
  simp only [isoDate, pad4, pad2, List.cons_append, List.nil_append, scanDatePart, dc_isDigit, hm, hd, Bool.and_self, Bool.true_and, if_true]

theorem iso_head (y m d : Nat) : ∃ t, isoDate y m d = digitChar (y / 10 / 10 / 10) :: t := ⟨_, rfl⟩

theorem scanGuid_iso (y m d : Nat) (r : Str) : scanGuid E (isoDate y m d ++ r) = none := by
  simp [isoDate, pad4, pad2, scanGuid, takeN, dc_isHex, isHex_minus]

theorem date_alone (y m d : Nat) (h : validDate y m d) : lexOne E (isoDate y m d) = some (.lit .date (isoDate y m d), []) := by
  have hdp := scanDatePart_iso y m d h []
  have hg := scanGuid_iso y m d []
  rw [List.append_nil] at hdp hg
  obtain ⟨t, ht⟩ := iso_head y m d
  refine lexOne_date ?_ ?_ ?_ hg ?_ hdp
  · rw [ht]; exact (pre3_digit _ _).1
  · rw [ht]; exact (pre3_digit _ _).2.1
  · rw [ht]; exact (pre3_digit _ _).2.2
  · simp [scanDateTime, hdp]

theorem date_kind (y m d : Nat) (h : validDate y m d) (rest : Str) (hb : boundary rest) :
    lexOne pyCharEnv (isoDate y m d ++ rest) = some (.lit .date (isoDate y m d), rest) :=
  lexOne_boundary (date_alone y m d h) rest hb


/-! ### clocks -/
theorem hourCond_ok : ∀ h, h < 24 → ((inCharRange '0' '1' (digitChar (h / 10)) && E.isDigit (digitChar h))
    || (digitChar (h / 10) == '2' && inCharRange '0' '3' (digitChar h))) = true := by decide +kernel
theorem minCond_ok : ∀ m, m < 60 → (inCharRange '0' '5' (digitChar (m / 10)) && E.isDigit (digitChar m)) = true := by
  decide +kernel

theorem scanHourMinute_clock (h mi : Nat) (hh : h < 24) (hmi : mi < 60) (r : Str) :
    scanHourMinute E (pad 2 h ++ ':' :: (pad 2 mi ++ r)) = some (pad 2 h ++ ':' :: pad 2 mi, r) := by
  have h1 := hourCond_ok h hh
  have h2 := minCond_ok mi hmi
  simp only [Bool.and_eq_true] at h2
  simp only [pad2, List.cons_append, List.nil_append, scanHourMinute, h1, h2.1, h2.2, Bool.and_self, if_true]

theorem fracText_digits (fs : List Nat) : ∀ c ∈ fracText fs, E.isDigit c = true := by
  intro c hc
  simp only [fracText, List.mem_map] at hc
  obtain ⟨d, _, rfl⟩ := hc
  exact dc_isDigit d

/-- what may follow the seconds: not a fraction, not a digit -/
def SecEnd (r : Str) : Prop := ∀ c t, r = c :: t → c ≠ '.' ∧ c ≠ ':' ∧ E.isDigit c = false

theorem scanFraction_none (r : Str) (hr : SecEnd r) : scanFraction E r = ([], r) := by
  cases r with
  | nil => rfl
  | cons c t =>
    have := (hr c t rfl).1
    unfold scanFraction
    split
    · rename_i heq; simp at heq; exact absurd heq.1 this
    · rfl

theorem scanFraction_frac (fs : List Nat) (hne : fs ≠ []) (hl : fs.length ≤ 12) (r : Str) (hr : SecEnd r) :
    scanFraction E ('.' :: (fracText fs ++ r)) = ('.' :: fracText fs, r) := by
  have h1 := takeUpTo_all' E.isDigit 12 (fracText fs) r (by simpa [fracText] using hl) (fracText_digits fs)
    (fun c t e => (hr c t e).2.2)
  simp only [List.cons_append, scanFraction, h1]
  cases fs with
  | nil => exact absurd rfl hne
  | cons a t => rfl

theorem scanSeconds_pad (s : Nat) (hs : s < 60) (r : Str) :
    scanSeconds E (':' :: (pad 2 s ++ r)) = some (':' :: (pad 2 s ++ (scanFraction E r).1), (scanFraction E r).2) := by
  have h2 := minCond_ok s hs
  have hc := digitChar_ne_colon (s / 10)
  simp only [pad2, List.cons_append, List.nil_append]
  unfold scanSeconds
  split
  · rename_i heq; simp at heq; exact (hc heq.1).elim
  · rename_i heq
    simp only [List.cons.injEq, true_and] at heq
    obtain ⟨rfl, rfl, rfl⟩ := heq
    simp [h2]
  · rename_i h1 h2; exact absurd rfl (h2 _ _ _)

theorem scanSeconds_secs (sc : Secs) (hs : sc.ok) (hne : sc ≠ .none) (hf : ∀ s fs, sc = .frac s fs → fs.length ≤ 12)
    (r : Str) (hr : SecEnd r) : scanSeconds E (sc.text ++ r) = some (sc.text, r) := by
  cases sc with
  | none => exact absurd rfl hne
  | whole s =>
    simp only [Secs.text, List.cons_append]
    rw [scanSeconds_pad s hs r, scanFraction_none r hr]; simp
  | frac s fs =>
    obtain ⟨h1, h2, h3⟩ := hs
    simp only [Secs.text, List.cons_append, List.append_assoc]
    rw [scanSeconds_pad s h1, scanFraction_frac fs h2 (hf s fs rfl) r hr]

theorem scanSeconds_none (r : Str) (hr : SecEnd r) : scanSeconds E r = none := by
  cases r with
  | nil => rfl
  | cons c t =>
    have := (hr c t rfl).2.1
    unfold scanSeconds
    split
    · rename_i heq; simp at heq; exact absurd heq.1 this
    · rename_i heq; simp at heq; exact absurd heq.1 this
    · rfl

theorem secEnd_nil : SecEnd [] := by intro c t h; cases h

theorem clock_head (h mi : Nat) (sc : Secs) : ∃ t, clockText h mi sc = digitChar (h / 10) :: t := ⟨_, rfl⟩

theorem scanGuid_clock (h mi : Nat) (r : Str) : scanGuid E (pad 2 h ++ ':' :: r) = none := by
  simp [pad2, scanGuid, takeN, dc_isHex, isHex_colon]

theorem scanDatePart_clock (h mi : Nat) (r : Str) : scanDatePart E (pad 2 h ++ ':' :: (pad 2 mi ++ r)) = none := by
  simp only [pad2, List.cons_append, List.nil_append]
  unfold scanDatePart
  split
  · rename_i heq; simp at heq; exact absurd heq.2.2.2.2.1 (digitChar_ne_minus _)
  · rfl

theorem time_alone (h mi : Nat) (sc : Secs) (hh : h < 24) (hmi : mi < 60) (hs : sc.ok) (hsec : sc ≠ .none)
    (hf : ∀ s fs, sc = .frac s fs → fs.length ≤ 12) :
    lexOne E (clockText h mi sc) = some (.lit .time (clockText h mi sc), []) := by
  obtain ⟨t, ht⟩ := clock_head h mi sc
  have hct : clockText h mi sc = pad 2 h ++ ':' :: (pad 2 mi ++ sc.text) := by simp [clockText]
  have hg : scanGuid E (clockText h mi sc) = none := by rw [hct]; exact scanGuid_clock h mi _
  have hdp : scanDatePart E (clockText h mi sc) = none := by rw [hct]; exact scanDatePart_clock h mi _
  have htime : scanTime E (clockText h mi sc) = some (clockText h mi sc, []) := by
    have h1 := scanHourMinute_clock h mi hh hmi sc.text
    have h2 := scanSeconds_secs sc hs hsec hf [] secEnd_nil
    rw [List.append_nil] at h2
    rw [hct]
    simp [scanTime, h1, h2]
  refine lexOne_time ?_ ?_ ?_ hg ?_ hdp htime
  · rw [ht]; exact (pre3_digit _ _).1
  · rw [ht]; exact (pre3_digit _ _).2.1
  · rw [ht]; exact (pre3_digit _ _).2.2
  · simp [scanDateTime, hdp]

/-- CHANGED hypothesis `hf`: the TIME rule reads at most twelve fraction digits -/
theorem time_kind (h mi : Nat) (sc : Secs) (hh : h < 24) (hmi : mi < 60) (hs : sc.ok) (hsec : sc ≠ .none)
    (hf : ∀ s fs, sc = .frac s fs → fs.length ≤ 12) (rest : Str) (hb : boundary rest) :
    lexOne pyCharEnv (clockText h mi sc ++ rest) = some (.lit .time (clockText h mi sc), rest) :=
  lexOne_boundary (time_alone h mi sc hh hmi hs hsec hf) rest hb


/-! ### date-times -/

theorem secEnd_off (o : Off) : SecEnd o.text := by
  intro c t h
  cases o with
  | naive => cases h
  | z u => cases u <;> · simp [Off.text] at h; obtain ⟨rfl, _⟩ := h; exact ⟨by decide, by decide, by decide +kernel⟩
  | hm neg a b => cases neg <;> · simp [Off.text] at h; obtain ⟨rfl, _⟩ := h; exact ⟨by decide, by decide, by decide +kernel⟩

theorem secsPart (sc : Secs) (hs : sc.ok) (hf : ∀ s fs, sc = .frac s fs → fs.length ≤ 12) (r : Str) (hr : SecEnd r) :
    scanSeconds E (sc.text ++ r) = some (sc.text, r) ∨ (scanSeconds E (sc.text ++ r) = none ∧ sc.text = []) := by
  by_cases hn : sc = .none
  · subst hn; right; simp [Secs.text, scanSeconds_none r hr]
  · left; exact scanSeconds_secs sc hs hn hf r hr

theorem ci_z_Z : ciChar E 'z' 'Z' = true := by decide +kernel
theorem ci_z_plus : ciChar E 'z' '+' = false := by decide +kernel
theorem ci_z_minus : ciChar E 'z' '-' = false := by decide +kernel
theorem ci_t_T : ciChar E 't' 'T' = true := by decide +kernel

theorem scanOffset_off (o : Off) (ho : o.ok) (hz : o ≠ .z false) : scanOffset E o.text = (o.text, []) := by
  cases o with
  | naive => rfl
  | z u =>
    cases u
    · exact absurd rfl hz
    · simp [Off.text, scanOffset, ci_z_Z]
  | hm neg a b =>
    have h1 := scanHourMinute_clock a b ho.1 ho.2 []
    rw [List.append_nil] at h1
    cases neg
    · simp [Off.text, scanOffset, ci_z_plus, h1]
    · simp [Off.text, scanOffset, ci_z_minus, h1]

theorem asciiUpper_pad (w n : Nat) : (pad w n).map asciiUpper = pad w n := by
  have := pad_all (fun c => asciiUpper c = c) (by decide) w n
  conv => rhs; rw [← List.map_id (pad w n)]
  exact List.map_congr_left this

theorem asciiUpper_frac (fs : List Nat) : (fracText fs).map asciiUpper = fracText fs := by
  simp only [fracText, List.map_map]
  apply List.map_congr_left
  intro d _
  exact digitChar_ind (fun c => asciiUpper c = c) (by decide) d

theorem asciiUpper_secs (sc : Secs) : sc.text.map asciiUpper = sc.text := by
  cases sc <;> simp [Secs.text, asciiUpper_pad, asciiUpper_frac] <;> decide

theorem asciiUpper_off (o : Off) (hz : o ≠ .z false) : o.text.map asciiUpper = o.text := by
  cases o with
  | naive => rfl
  | z u => cases u; exact absurd rfl hz; decide
  | hm neg a b => cases neg <;> simp [Off.text, asciiUpper_pad] <;> decide

theorem asciiUpper_iso (y m d : Nat) : (isoDate y m d).map asciiUpper = isoDate y m d := by
  simp [isoDate, asciiUpper_pad]; decide

theorem dtText_eq (y mo d h mi : Nat) (sc : Secs) (o : Off) :
    dateTimeText y mo d 'T' h mi sc o = isoDate y mo d ++ 'T' :: (pad 2 h ++ ':' :: (pad 2 mi ++ (sc.text ++ o.text))) := by
  simp [dateTimeText, clockText]

theorem asciiUpper_dt (y mo d h mi : Nat) (sc : Secs) (o : Off) (hz : o ≠ .z false) :
    (dateTimeText y mo d 'T' h mi sc o).map asciiUpper = dateTimeText y mo d 'T' h mi sc o := by
  rw [dtText_eq]
  simp [asciiUpper_iso, asciiUpper_pad, asciiUpper_secs, asciiUpper_off o hz]
  decide

theorem scanDateTime_text (y mo d h mi : Nat) (sc : Secs) (o : Off) (hd : validDate y mo d)
    (hh : h < 24) (hmi : mi < 60) (hs : sc.ok) (ho : o.ok) (hf : ∀ s fs, sc = .frac s fs → fs.length ≤ 12) (hz : o ≠ .z false) :
    scanDateTime E (dateTimeText y mo d 'T' h mi sc o) = some (dateTimeText y mo d 'T' h mi sc o, []) := by
  have hup := asciiUpper_dt y mo d h mi sc o hz
  rw [dtText_eq] at hup ⊢
  have h1 := scanDatePart_iso y mo d hd ('T' :: (pad 2 h ++ ':' :: (pad 2 mi ++ (sc.text ++ o.text))))
  have h2 := scanHourMinute_clock h mi hh hmi (sc.text ++ o.text)
  have h3 := secsPart sc hs hf o.text (secEnd_off o)
  have h4 := scanOffset_off o ho hz
  rcases h3 with h3 | ⟨h3, h3'⟩
  · simp only [scanDateTime, h1, ci_t_T, h2, h3, h4, Option.bind_eq_bind, Option.bind_some, if_true, Option.pure_def]
    rw [← hup]
    simp
  · rw [h3'] at hup h1 h2 h3 ⊢
    simp only [List.nil_append] at hup h1 h2 h3 ⊢
    simp only [scanDateTime, h1, ci_t_T, h2, h3, h4, Option.bind_eq_bind, Option.bind_some, if_true, Option.pure_def]
    rw [← hup]
    simp


theorem datetime_alone (y mo d h mi : Nat) (sc : Secs) (o : Off) (hd : validDate y mo d)
    (hh : h < 24) (hmi : mi < 60) (hs : sc.ok) (ho : o.ok) (hf : ∀ s fs, sc = .frac s fs → fs.length ≤ 12) (hz : o ≠ .z false) :
    lexOne E (dateTimeText y mo d 'T' h mi sc o) = some (.lit .datetime (dateTimeText y mo d 'T' h mi sc o), []) := by
  have hdt := scanDateTime_text y mo d h mi sc o hd hh hmi hs ho hf hz
  have hg : scanGuid E (dateTimeText y mo d 'T' h mi sc o) = none := by
    rw [dtText_eq]; exact scanGuid_iso y mo d _
  obtain ⟨t, ht⟩ := iso_head y mo d
  have hhead : dateTimeText y mo d 'T' h mi sc o = digitChar (y / 10 / 10 / 10) :: (t ++ 'T' :: clockText h mi sc ++ o.text) := by
    simp [dateTimeText, ht]
  refine lexOne_datetime ?_ ?_ ?_ hg hdt
  · rw [hhead]; exact (pre3_digit _ _).1
  · rw [hhead]; exact (pre3_digit _ _).2.1
  · rw [hhead]; exact (pre3_digit _ _).2.2

/-- CHANGED hypotheses `hf` (at most twelve fraction digits are read) and `hz` (the token text is upper-cased: a lower-case `z` is not carried) -/
theorem datetime_kind (y mo d h mi : Nat) (sc : Secs) (o : Off) (hd : validDate y mo d)
    (hh : h < 24) (hmi : mi < 60) (hs : sc.ok) (ho : o.ok) (hf : ∀ s fs, sc = .frac s fs → fs.length ≤ 12) (hz : o ≠ .z false)
    (rest : Str) (hb : boundary rest) :
    lexOne pyCharEnv (dateTimeText y mo d 'T' h mi sc o ++ rest) = some (.lit .datetime (dateTimeText y mo d 'T' h mi sc o), rest) :=
  lexOne_boundary (datetime_alone y mo d h mi sc o hd hh hmi hs ho hf hz) rest hb

/-! ### strings -/
theorem string_alone (s : Str) : lexOne E (quoteText s) = some (.lit .str s, []) := by
  have h2 := scanString_quote s [] (by intro t h; cases h)
  rw [List.append_nil] at h2
  refine lexOne_string ?_ h2
  rw [quoteText_eq]
  exact scanDuration_head (by decide +kernel)

theorem string_kind (s rest : Str) (hb : boundary rest) :
    lexOne pyCharEnv (quoteText s ++ rest) = some (.lit .str s, rest) :=
  lexOne_boundary (string_alone s) rest hb


/-! ### GUIDs -/

theorem scanGuid_parts {env : CharEnv} (a b c d e r : Str) (la : a.length = 8) (lb : b.length = 4) (lc : c.length = 4)
    (ld : d.length = 4) (le : e.length = 12) (ha : ∀ x ∈ a, isHex env x = true) (hb : ∀ x ∈ b, isHex env x = true)
    (hc : ∀ x ∈ c, isHex env x = true) (hd : ∀ x ∈ d, isHex env x = true) (he : ∀ x ∈ e, isHex env x = true) :
    scanGuid env (a ++ '-' :: (b ++ '-' :: (c ++ '-' :: (d ++ '-' :: (e ++ r))))) =
      some (a ++ '-' :: (b ++ '-' :: (c ++ '-' :: (d ++ '-' :: e))), r) := by
  simp [scanGuid, takeN_all' _ 8 a _ la ha, takeN_all' _ 4 b _ lb hb, takeN_all' _ 4 c _ lc hc, takeN_all' _ 4 d _ ld hd,
    takeN_all' _ 12 e _ le he]

theorem hexPad_all (P : Char → Prop) (h : ∀ k, k < 16 → ∀ u, P (hexChar u k)) (up : Nat → Bool) (w n : Nat) :
    ∀ c ∈ hexPad up w n, P c := by
  induction w generalizing n with
  | zero => simp [hexPad]
  | succ w ih =>
    intro c hc
    simp only [hexPad, List.mem_append, List.mem_singleton] at hc
    rcases hc with hc | rfl
    · exact ih _ c hc
    · exact hexChar_ind P h _ _

theorem hex_isHex : ∀ k, k < 16 → ∀ u, isHex E (hexChar u k) = true := by decide +kernel
theorem hex_ci_u : ∀ k, k < 16 → ∀ u, ciChar E 'u' (hexChar u k) = false := by decide +kernel
theorem hex_ci_g : ∀ k, k < 16 → ∀ u, ciChar E 'g' (hexChar u k) = false := by decide +kernel
theorem hex_ne_quote : ∀ k, k < 16 → ∀ u, hexChar u k ≠ '\'' := by decide +kernel

theorem scanDuration_second (c1 c2 : Char) (t : Str) (h : ciChar E 'u' c2 = false) : scanDuration E (c1 :: c2 :: t) = none := by
  simp [scanDuration, kw, h]

theorem guidText_eq (up : Nat → Bool) (n : Nat) :
    guidText up n = (hexPad up 32 n).take 8 ++ '-' :: (((hexPad up 32 n).drop 8).take 4 ++ '-' :: (((hexPad up 32 n).drop 12).take 4 ++
      '-' :: (((hexPad up 32 n).drop 16).take 4 ++ '-' :: (hexPad up 32 n).drop 20))) := by
  simp [guidText, List.append_assoc]

theorem guid_alone (up : Nat → Bool) (n : Nat) : lexOne E (guidText up n) = some (.lit .guid (guidText up n), []) := by
  rw [guidText_eq]
  generalize hh : hexPad up 32 n = h
  have hlen : h.length = 32 := by rw [← hh]; exact hexPad_length up 32 n
  have hhex : ∀ c ∈ h, isHex E c = true := by rw [← hh]; exact hexPad_all _ hex_isHex up 32 n
  have hu : ∀ c ∈ h, ciChar E 'u' c = false := by rw [← hh]; exact hexPad_all _ hex_ci_u up 32 n
  have hg : ∀ c ∈ h, ciChar E 'g' c = false := by rw [← hh]; exact hexPad_all _ hex_ci_g up 32 n
  have hq : ∀ c ∈ h, c ≠ '\'' := by rw [← hh]; exact hexPad_all _ hex_ne_quote up 32 n
  have hscan := scanGuid_parts (env := E) (h.take 8) ((h.drop 8).take 4) ((h.drop 12).take 4) ((h.drop 16).take 4) (h.drop 20) []
    (by simp [hlen]) (by simp [hlen]) (by simp [hlen]) (by simp [hlen]) (by simp [hlen])
    (fun x hx => hhex x (List.mem_of_mem_take hx))
    (fun x hx => hhex x (List.mem_of_mem_drop (List.mem_of_mem_take hx)))
    (fun x hx => hhex x (List.mem_of_mem_drop (List.mem_of_mem_take hx)))
    (fun x hx => hhex x (List.mem_of_mem_drop (List.mem_of_mem_take hx)))
    (fun x hx => hhex x (List.mem_of_mem_drop hx))
  rw [List.append_nil] at hscan
  rcases h with _ | ⟨c1, _ | ⟨c2, t⟩⟩
  · simp at hlen
  · simp at hlen
  · have e : List.take 8 (c1 :: c2 :: t) = c1 :: c2 :: List.take 6 t := rfl
    rw [e] at hscan ⊢
    exact lexOne_guid (scanDuration_second _ _ _ (hu c2 (by simp))) (scanString_head (hq c1 (by simp)))
      (scanGeography_head (hg c1 (by simp))) hscan

theorem guid_kind (up : Nat → Bool) (n : Nat) (h : n < 2 ^ 128) (rest : Str) (hb : boundary rest) :
    lexOne pyCharEnv (guidText up n ++ rest) = some (.lit .guid (guidText up n), rest) :=
  lexOne_boundary (guid_alone up n) rest hb


/-! ### durations -/

theorem pad_digits (w n : Nat) : ∀ c ∈ pad w n, E.isDigit c = true := pad_all _ (by decide +kernel) w n

theorem durGroup_eq (l : Char) (ds : Str) (c : Char) (r : Str) (hne : ds ≠ []) (hds : ∀ x ∈ ds, E.isDigit x = true)
    (hc : E.isDigit c = false) :
    durGroup E l (ds ++ c :: r) = if ciChar E l c then (ds ++ [c], r) else ([], ds ++ c :: r) := by
  have h1 := span1_all E.isDigit ds (c :: r) hne hds (by intro x t e; cases e; exact hc)
  simp only [durGroup, h1]

/-- `cs` does not begin with a `<digits>l` group -/
def NotGrp (l : Char) (cs : Str) : Prop := durGroup E l cs = ([], cs)

theorem notGrp_cons (l c : Char) (t : Str) (hc : E.isDigit c = false) : NotGrp l (c :: t) := by
  simp [NotGrp, durGroup, span1_head hc]

theorem notGrp_digits (l : Char) (ds : Str) (c : Char) (r : Str) (hds : ∀ x ∈ ds, E.isDigit x = true)
    (hc : E.isDigit c = false) (hcl : ciChar E l c = false) : NotGrp l (ds ++ c :: r) := by
  cases ds with
  | nil => exact notGrp_cons l c r hc
  | cons d ds =>
    unfold NotGrp
    rw [durGroup_eq l (d :: ds) c r (by simp) hds hc]
    simp [hcl]

theorem notGrp_comp (l L : Char) (c : Option (Nat × Nat)) (r : Str) (hL : E.isDigit L = false) (hci : ciChar E l L = false)
    (hr : NotGrp l r) : NotGrp l (compText L c ++ r) := by
  cases c with
  | none => simpa [compText] using hr
  | some p =>
    obtain ⟨w, n⟩ := p
    simp only [compText, List.append_assoc, List.singleton_append]
    exact notGrp_digits l _ L r (pad_digits _ _) hL hci

theorem durGroup_comp (l L : Char) (hL : E.isDigit L = false) (hci : ciChar E l L = true) (c : Option (Nat × Nat)) (r : Str)
    (hr : NotGrp l r) : durGroup E l (compText L c ++ r) = (compText L c, r) := by
  cases c with
  | none => simpa [compText, NotGrp] using hr
  | some p =>
    obtain ⟨w, n⟩ := p
    simp only [compText, List.append_assoc, List.singleton_append]
    rw [durGroup_eq l _ L r (pad_ne_nil w n) (pad_digits _ _) hL]
    simp [hci]

theorem ci_s_S : ciChar E 's' 'S' = true := by decide +kernel
theorem isDigit_S : E.isDigit 'S' = false := by decide +kernel
theorem isDigit_dot : E.isDigit '.' = false := by decide +kernel
theorem isDigit_quote : E.isDigit '\'' = false := by decide +kernel

theorem durSeconds_text (s : DSecs) (hs : s.ok) (rest : Str) :
    durSeconds E (s.text ++ '\'' :: rest) = (s.text, '\'' :: rest) := by
  cases s with
  | none => simp [DSecs.text, durSeconds, span1_head isDigit_quote]
  | whole w n =>
    have h1 := span1_all E.isDigit (pad (w + 1) n) ('S' :: '\'' :: rest) (pad_ne_nil w n) (pad_digits _ _)
      (by intro x t e; cases e; exact isDigit_S)
    simp [DSecs.text, durSeconds, h1, ci_s_S]
  | frac w n fs =>
    obtain ⟨h1, h2, h3, h4⟩ := hs
    have hne : fracText fs ≠ [] := by cases fs with | nil => exact absurd rfl h2 | cons a t => simp [fracText]
    have e1 := span1_all E.isDigit (pad (w + 1) n) ('.' :: (fracText fs ++ 'S' :: '\'' :: rest)) (pad_ne_nil w n) (pad_digits _ _)
      (by intro x t e; cases e; exact isDigit_dot)
    have e2 := span1_all E.isDigit (fracText fs) ('S' :: '\'' :: rest) hne (fracText_digits fs)
      (by intro x t e; cases e; exact isDigit_S)
    simp [DSecs.text, durSeconds, e1, e2, ci_s_S]

theorem notGrp_secs (l : Char) (h1 : ciChar E l 'S' = false) (h2 : ciChar E l '.' = false) (s : DSecs) (rest : Str) :
    NotGrp l (s.text ++ '\'' :: rest) := by
  cases s with
  | none => exact notGrp_cons l _ _ isDigit_quote
  | whole w n =>
    simp only [DSecs.text, List.append_assoc, List.singleton_append]
    exact notGrp_digits l _ 'S' _ (pad_digits _ _) isDigit_S h1
  | frac w n fs =>
    simp only [DSecs.text, List.append_assoc, List.cons_append]
    exact notGrp_digits l _ '.' _ (pad_digits _ _) isDigit_dot h2


theorem durUpper_pad (w n : Nat) : (pad w n).map durUpper = pad w n := by
  have := pad_all (fun c => durUpper c = c) (by decide) w n
  conv => rhs; rw [← List.map_id (pad w n)]
  exact List.map_congr_left this

theorem durUpper_frac (fs : List Nat) : (fracText fs).map durUpper = fracText fs := by
  simp only [fracText, List.map_map]
  apply List.map_congr_left
  intro d _
  exact digitChar_ind (fun c => durUpper c = c) (by decide) d

theorem durUpper_comp (L : Char) (hL : durUpper L = L) (c : Option (Nat × Nat)) : (compText L c).map durUpper = compText L c := by
  rcases c with _ | ⟨w, n⟩
  · rfl
  · simp [compText, durUpper_pad, hL]

theorem durUpper_secs (s : DSecs) : s.text.map durUpper = s.text := by
  cases s <;> simp [DSecs.text, durUpper_pad, durUpper_frac] <;> decide

theorem durUpper_sign (sg : Sign) : sg.text.map durUpper = sg.text := by
  cases sg <;> decide

theorem durUpper_tp (tp) : (tpText tp).map durUpper = tpText tp := by
  rcases tp with _ | ⟨h, mi, s⟩
  · rfl
  · simp [tpText, durUpper_comp 'H' (by decide), durUpper_comp 'M' (by decide), durUpper_secs]; decide

theorem durUpper_text (sg : Sign) (y mo d : Option (Nat × Nat)) (tp) :
    (durText sg y mo d tp).map durUpper = durText sg y mo d tp := by
  rw [durText_eq]
  simp [durUpper_sign, durUpper_comp 'Y' (by decide), durUpper_comp 'M' (by decide), durUpper_comp 'D' (by decide), durUpper_tp]
  decide

theorem kw_duration (r : Str) : kw E "duration'".toList ("duration'".toList ++ r) = some ("duration'".toList, r) :=
  kw_self _ r (by decide +kernel)

theorem ci_p_P : ciChar E 'p' 'P' = true := by decide +kernel
theorem ci_t_quote : ciChar E 't' '\'' = false := by decide +kernel

theorem tp_part (tp : Option (Option (Nat × Nat) × Option (Nat × Nat) × DSecs))
    (ht : ∀ h mi s, tp = some (h, mi, s) → compOk h ∧ compOk mi ∧ s.ok) (rest : Str) :
    (match tpText tp ++ '\'' :: rest with
      | c :: t =>
          if ciChar E 't' c then
            let (h, t) := durGroup E 'h' t
            let (mi, t) := durGroup E 'm' t
            let (s, t) := durSeconds E t
            (c :: h ++ mi ++ s, t)
          else ([], tpText tp ++ '\'' :: rest)
      | [] => ([], tpText tp ++ '\'' :: rest)) = (tpText tp, '\'' :: rest) := by
  rcases tp with _ | ⟨h, mi, s⟩
  · simp [tpText, ci_t_quote]
  · obtain ⟨hh, hmi, hs⟩ := ht h mi s rfl
    have e1 := durGroup_comp 'h' 'H' (by decide +kernel) (by decide +kernel) h (compText 'M' mi ++ (s.text ++ '\'' :: rest))
      (notGrp_comp _ _ _ _ (by decide +kernel) (by decide +kernel) (notGrp_secs _ (by decide +kernel) (by decide +kernel) s rest))
    have e2 := durGroup_comp 'm' 'M' (by decide +kernel) (by decide +kernel) mi (s.text ++ '\'' :: rest)
      (notGrp_secs _ (by decide +kernel) (by decide +kernel) s rest)
    have e3 := durSeconds_text s hs rest
    simp only [tpText, List.cons_append, List.append_assoc, ci_t_T, if_true, e1, e2, e3]


theorem notGrp_tp (l : Char) (tp) (rest : Str) : NotGrp l (tpText tp ++ '\'' :: rest) := by
  rcases tp with _ | ⟨h, mi, s⟩
  · exact notGrp_cons l _ _ isDigit_quote
  · exact notGrp_cons l 'T' _ (by decide +kernel)

theorem scanDuration_text (sg : Sign) (y mo d : Option (Nat × Nat)) (tp : Option (Option (Nat × Nat) × Option (Nat × Nat) × DSecs))
    (hy : compOk y) (hmo : compOk mo) (hd : compOk d)
    (ht : ∀ h mi s, tp = some (h, mi, s) → compOk h ∧ compOk mi ∧ s.ok) (rest : Str) :
    scanDuration E ("duration'".toList ++ (sg.text ++ 'P' :: (compText 'Y' y ++ (compText 'M' mo ++ (compText 'D' d ++ (tpText tp ++ '\'' :: rest))))))
      = some ((sg.text ++ 'P' :: (compText 'Y' y ++ (compText 'M' mo ++ (compText 'D' d ++ tpText tp)))).map durUpper, rest) := by
  have e1 := durGroup_comp 'y' 'Y' (by decide +kernel) (by decide +kernel) y (compText 'M' mo ++ (compText 'D' d ++ (tpText tp ++ '\'' :: rest)))
    (notGrp_comp _ _ _ _ (by decide +kernel) (by decide +kernel)
      (notGrp_comp _ _ _ _ (by decide +kernel) (by decide +kernel) (notGrp_tp _ _ _)))
  have e2 := durGroup_comp 'm' 'M' (by decide +kernel) (by decide +kernel) mo (compText 'D' d ++ (tpText tp ++ '\'' :: rest))
    (notGrp_comp _ _ _ _ (by decide +kernel) (by decide +kernel) (notGrp_tp _ _ _))
  have e3 := durGroup_comp 'd' 'D' (by decide +kernel) (by decide +kernel) d (tpText tp ++ '\'' :: rest) (notGrp_tp _ _ _)
  unfold scanDuration
  simp only [kw_duration, Option.bind_eq_bind, Option.bind_some]
  rcases tp with _ | ⟨h, mi, s⟩
  · simp only [tpText, List.nil_append, List.append_nil] at e1 e2 e3 ⊢
    cases sg <;>
      simp [Sign.text, kw, ci_p_P, e1, e2, e3, ci_t_quote]
  · obtain ⟨hh, hmi, hs⟩ := ht h mi s rfl
    have e4 := durGroup_comp 'h' 'H' (by decide +kernel) (by decide +kernel) h (compText 'M' mi ++ (s.text ++ '\'' :: rest))
      (notGrp_comp _ _ _ _ (by decide +kernel) (by decide +kernel) (notGrp_secs _ (by decide +kernel) (by decide +kernel) s rest))
    have e5 := durGroup_comp 'm' 'M' (by decide +kernel) (by decide +kernel) mi (s.text ++ '\'' :: rest)
      (notGrp_secs _ (by decide +kernel) (by decide +kernel) s rest)
    have e6 := durSeconds_text s hs rest
    simp only [tpText, List.cons_append, List.append_assoc] at e1 e2 e3 ⊢
    cases sg <;>
      simp [Sign.text, kw, ci_p_P, e1, e2, e3, e4, e5, e6, ci_t_T]


theorem duration_kind (sg : Sign) (y mo d : Option (Nat × Nat)) (tp : Option (Option (Nat × Nat) × Option (Nat × Nat) × DSecs))
    (hy : compOk y) (hmo : compOk mo) (hd : compOk d)
    (ht : ∀ h mi s, tp = some (h, mi, s) → compOk h ∧ compOk mi ∧ s.ok) (rest : Str) :
    lexOne pyCharEnv ("duration'".toList ++ durText sg y mo d tp ++ '\'' :: rest) = some (.lit .duration (durText sg y mo d tp), rest) := by
  have h1 := scanDuration_text sg y mo d tp hy hmo hd ht rest
  have hup := durUpper_text sg y mo d tp
  rw [durText_eq] at hup ⊢
  rw [hup] at h1
  apply lexOne_duration
  rw [← h1]
  congr 1
  simp only [List.append_assoc, List.cons_append]


/-! ### date-times in either letter case of `T` and `Z` -/

theorem ci_z_z : ciChar E 'z' 'z' = true := by decide +kernel
theorem ci_t_t : ciChar E 't' 't' = true := by decide +kernel

theorem scanOffset_any (o : Off) (ho : o.ok) : scanOffset E o.text = (o.text, []) := by
  cases o with
  | naive => rfl
  | z u => cases u <;> simp [Off.text, scanOffset, ci_z_Z, ci_z_z]
  | hm neg a b => exact scanOffset_off (.hm neg a b) ho (by simp)

theorem asciiUpper_off_up (o : Off) : o.text.map asciiUpper = o.up.text := by
  cases o with
  | naive => rfl
  | z u => cases u <;> decide
  | hm neg a b => exact asciiUpper_off (.hm neg a b) (by simp)

theorem dtText_eq' (y mo d h mi : Nat) (sep : Char) (sc : Secs) (o : Off) :
    dateTimeText y mo d sep h mi sc o = isoDate y mo d ++ sep :: (pad 2 h ++ ':' :: (pad 2 mi ++ (sc.text ++ o.text))) := by
  simp [dateTimeText, clockText]

theorem asciiUpper_dt_any (y mo d h mi : Nat) (sep : Char) (sc : Secs) (o : Off) (hsep : sep = 'T' ∨ sep = 't') :
    (dateTimeText y mo d sep h mi sc o).map asciiUpper = dateTimeText y mo d 'T' h mi sc o.up := by
  have hs : asciiUpper sep = 'T' := by rcases hsep with rfl | rfl <;> decide
  rw [dtText_eq', dtText_eq']
  simp [asciiUpper_iso, asciiUpper_pad, asciiUpper_secs, asciiUpper_off_up, hs]
  decide

theorem scanDateTime_any (y mo d h mi : Nat) (sep : Char) (sc : Secs) (o : Off) (hd : validDate y mo d)
    (hh : h < 24) (hmi : mi < 60) (hs : sc.ok) (ho : o.ok) (hsep : sep = 'T' ∨ sep = 't')
    (hf : ∀ s fs, sc = .frac s fs → fs.length ≤ 12) :
    scanDateTime E (dateTimeText y mo d sep h mi sc o) = some (dateTimeText y mo d 'T' h mi sc o.up, []) := by
  have hup := asciiUpper_dt_any y mo d h mi sep sc o hsep
  have hci : ciChar E 't' sep = true := by rcases hsep with rfl | rfl <;> decide +kernel
  rw [← hup, dtText_eq']
  have h1 := scanDatePart_iso y mo d hd (sep :: (pad 2 h ++ ':' :: (pad 2 mi ++ (sc.text ++ o.text))))
  have h2 := scanHourMinute_clock h mi hh hmi (sc.text ++ o.text)
  have h3 := secsPart sc hs hf o.text (secEnd_off o)
  have h4 := scanOffset_any o ho
  rcases h3 with h3 | ⟨h3, h3'⟩
  · simp only [scanDateTime, h1, hci, h2, h3, h4, Option.bind_eq_bind, Option.bind_some, if_true, Option.pure_def]
    simp
  · rw [h3'] at h1 h2 h3 ⊢
    simp only [List.nil_append] at h1 h2 h3 ⊢
    simp only [scanDateTime, h1, hci, h2, h3, h4, Option.bind_eq_bind, Option.bind_some, if_true, Option.pure_def]
    simp

theorem datetime_alone_any (y mo d h mi : Nat) (sep : Char) (sc : Secs) (o : Off) (hd : validDate y mo d)
    (hh : h < 24) (hmi : mi < 60) (hs : sc.ok) (ho : o.ok) (hsep : sep = 'T' ∨ sep = 't')
    (hf : ∀ s fs, sc = .frac s fs → fs.length ≤ 12) :
    lexOne E (dateTimeText y mo d sep h mi sc o) = some (.lit .datetime (dateTimeText y mo d 'T' h mi sc o.up), []) := by
  have hdt := scanDateTime_any y mo d h mi sep sc o hd hh hmi hs ho hsep hf
  have hg : scanGuid E (dateTimeText y mo d sep h mi sc o) = none := by
    rw [dtText_eq']; exact scanGuid_iso y mo d _
  obtain ⟨t, ht⟩ := iso_head y mo d
  have hhead : dateTimeText y mo d sep h mi sc o = digitChar (y / 10 / 10 / 10) :: (t ++ sep :: clockText h mi sc ++ o.text) := by
    simp [dateTimeText, ht]
  refine lexOne_datetime ?_ ?_ ?_ hg hdt
  · rw [hhead]; exact (pre3_digit _ _).1
  · rw [hhead]; exact (pre3_digit _ _).2.1
  · rw [hhead]; exact (pre3_digit _ _).2.2

theorem datetime_kind_anycase (y mo d h mi : Nat) (sep : Char) (sc : Secs) (o : Off) (hd : validDate y mo d)
    (hh : h < 24) (hmi : mi < 60) (hs : sc.ok) (ho : o.ok) (hsep : sep = 'T' ∨ sep = 't')
    (hf : ∀ s fs, sc = .frac s fs → fs.length ≤ 12) (rest : Str) (hb : boundary rest) :
    lexOne pyCharEnv (dateTimeText y mo d sep h mi sc o ++ rest) = some (.lit .datetime (dateTimeText y mo d 'T' h mi sc o.up), rest) :=
  lexOne_boundary (datetime_alone_any y mo d h mi sep sc o hd hh hmi hs ho hsep hf) rest hb


/-! ### identifiers -/

theorem wordA_ascii (c : Char) (h : isWordA c = true) : LexImage.isAscii c = true := by
  simp only [isWordA, isStartA, Bool.or_eq_true, Bool.and_eq_true, decide_eq_true_eq, beq_iff_eq, le_char_iff] at h
  simp only [LexImage.isAscii, decide_eq_true_eq]
  have h1 : 'z'.toNat = 122 := rfl
  have h2 : 'Z'.toNat = 90 := rfl
  have h3 : '9'.toNat = 57 := rfl
  rcases h with (((rfl | h) | h) | h)
  · decide
  all_goals omega

/-- what the rules ask about an ASCII word character -/
def wordFacts (c : Char) : Bool :=
  E.isWord c && !E.isSpace c && c != '\'' && c != '-' && c != '.' && c != '+'

theorem wordA_facts (c : Char) (h : isWordA c = true) : wordFacts c = true := by
  have := LexImage.ascii_forall (fun c => !isWordA c || wordFacts c) (by decide +kernel) c (wordA_ascii c h)
  simpa [h] using this

def startFacts (c : Char) : Bool :=
  isIdentStart E c && !E.isDigit c && !inCharRange '0' '1' c && c != '2' && isWordA c

theorem startA_facts (c : Char) (h : isStartA c = true) : startFacts c = true := by
  have hw : isWordA c = true := by simp [isWordA, h]
  have := LexImage.ascii_forall (fun c => !isStartA c || startFacts c) (by decide +kernel) c (wordA_ascii c hw)
  simpa [h] using this

/-- `x` matches the pattern letter `p` only if it is that letter in one of the two ASCII cases -/
def ciLow (p : Char) : Bool := (List.range 128).all fun n => !ciChar E p (Char.ofNat n) || lowerA (Char.ofNat n) == p

theorem ciLow_spec {p x : Char} (hp : ciLow p = true) (hx : LexImage.isAscii x = true) (h : ciChar E p x = true) : lowerA x = p := by
  have := LexImage.ascii_forall (fun x => !ciChar E p x || lowerA x == p)
    (by intro n hn; simp only [ciLow, List.all_eq_true, List.mem_range] at hp; exact hp n hn) x hx
  simpa [h] using this

theorem kw_lower : ∀ (w s m r : Str), w.all ciLow = true → s.all LexImage.isAscii = true → kw E w s = some (m, r) →
    m.map lowerA = w ∧ s = m ++ r
  | [], s, m, r, _, _, h => by simp [kw] at h; obtain ⟨rfl, rfl⟩ := h; simp
  | p :: w, [], m, r, _, _, h => by simp [kw] at h
  | p :: w, c :: s, m, r, hw, hs, h => by
    simp only [List.all_cons, Bool.and_eq_true] at hw hs
    simp only [kw] at h
    split at h
    · rename_i hc
      cases hk : kw E w s with
      | none => simp [hk] at h
      | some y =>
        obtain ⟨m', r'⟩ := y
        simp [hk] at h
        obtain ⟨rfl, rfl⟩ := h
        obtain ⟨e1, e2⟩ := kw_lower w s m' r' hw.2 hs.2 hk
        exact ⟨by simp [ciLow_spec hw.1 hs.1 hc, e1], by simp [e2]⟩
    · simp at h

/-- the tail of a dotted identifier, as `identTail` reads it: word characters, each dot followed by a word character -/
def Tail : Str → Prop
  | [] => True
  | '.' :: c :: t => isWordA c = true ∧ Tail t
  | c :: t => isWordA c = true ∧ Tail t

theorem tail_word {c : Char} {t : Str} (hc : isWordA c = true) : Tail (c :: t) ↔ Tail t := by
  have hne : c ≠ '.' := by rintro rfl; simp [isWordA, isStartA] at hc
  rw [Tail.eq_def]
  split
  · rename_i heq; cases heq
  · rename_i heq; simp at heq; exact absurd heq.1 hne
  · rename_i heq; simp at heq; obtain ⟨rfl, rfl⟩ := heq; simp [hc]

theorem tail_dot_nil : ¬ Tail ['.'] := by
  simp [Tail, isWordA, isStartA]

theorem tail_dot {c : Char} {t : Str} : Tail ('.' :: c :: t) ↔ isWordA c = true ∧ Tail t := by
  simp [Tail]

theorem tail_app {s r : Str} (hs : s.all isWordA = true) : Tail (s ++ r) ↔ Tail r := by
  induction s with
  | nil => simp
  | cons c s ih =>
    simp only [List.all_cons, Bool.and_eq_true] at hs
    rw [List.cons_append, tail_word hs.1, ih hs.2]

/-- the number of identifier characters (dots are free) -/
def nd (t : Str) : Nat := (t.filter (· != '.')).length

theorem identTail_full : ∀ (k : Nat) (t : Str) (n : Nat), t.length ≤ k → Tail t → nd t ≤ n → identTail E n t = (t, []) := by
  intro k
  induction k with
  | zero =>
    intro t n hl _ _
    have : t = [] := List.length_eq_zero_iff.1 (by omega)
    subst this; cases n <;> rfl
  | succ k ih =>
    intro t n hl ht hn
    cases t with
    | nil => cases n <;> rfl
    | cons c t =>
      by_cases hc : c = '.'
      · subst hc
        cases t with
        | nil => exact absurd ht tail_dot_nil
        | cons c t =>
          obtain ⟨hw, ht'⟩ := tail_dot.1 ht
          have hf := wordA_facts c hw
          simp only [wordFacts, Bool.and_eq_true, Bool.not_eq_true', bne_iff_ne, ne_eq] at hf
          have hcd : c ≠ '.' := hf.1.2
          have hn' : nd t + 1 ≤ n := by simpa [nd, List.filter_cons, hcd] using hn
          obtain ⟨n', rfl⟩ : ∃ n', n = n' + 1 := ⟨n - 1, by omega⟩
          have := ih t n' (by simp at hl; omega) ht' (by omega)
          simp [identTail, hf.1.1.1.1.1, this]
      · have hw : isWordA c = true := by
          rw [Tail.eq_def] at ht
          split at ht
          · rename_i heq; cases heq
          · rename_i heq; simp at heq; exact absurd heq.1 hc
          · rename_i heq; simp at heq; obtain ⟨rfl, rfl⟩ := heq; exact ht.1
        have ht' := (tail_word hw).1 ht
        have hf := wordA_facts c hw
        simp only [wordFacts, Bool.and_eq_true, Bool.not_eq_true', bne_iff_ne, ne_eq] at hf
        have hn' : nd t + 1 ≤ n := by simpa [nd, List.filter_cons, hc] using hn
        obtain ⟨n', rfl⟩ : ∃ n', n = n' + 1 := ⟨n - 1, by omega⟩
        have := ih t n' (by simp at hl; omega) ht' (by omega)
        rw [identTail.eq_def]
        simp [hc, hf.1.1.1.1.1, this]


theorem dotted_single (a : Str) : dotted [a] = a := by simp [dotted]
theorem dotted_cons2 (a b : Str) (L : List Str) : dotted (a :: b :: L) = a ++ '.' :: dotted (b :: L) := by
  simp [dotted, List.intersperse]

theorem word_ne_dot {c : Char} (h : isWordA c = true) : c ≠ '.' := by
  rintro rfl; simp [isWordA, isStartA] at h

theorem nd_word (s : Str) (hs : s.all isWordA = true) : s.filter (· != '.') = s := by
  rw [List.filter_eq_self]
  intro c hc
  have := word_ne_dot (List.all_eq_true.1 hs c hc)
  simpa using this

structure DottedOk (X : Str) (total : Nat) : Prop where
  tail : Tail X
  nd : nd X = total
  head : ∃ c t, X = c :: t ∧ isWordA c = true
  chars : ∀ x ∈ X, isWordA x = true ∨ x = '.'

theorem dotted_ok : ∀ (L : List Str), L ≠ [] → (∀ s ∈ L, s ≠ [] ∧ s.all isWordA = true) → DottedOk (dotted L) (L.map List.length).sum
  | [], h, _ => absurd rfl h
  | [a], _, h => by
    obtain ⟨hne, hw⟩ := h a (by simp)
    rw [dotted_single]
    refine ⟨?_, by simp [nd, nd_word a hw], ?_, fun x hx => Or.inl (List.all_eq_true.1 hw x hx)⟩
    · have := (tail_app (s := a) (r := []) hw).2 trivial
      simpa using this
    · cases a with
      | nil => exact absurd rfl hne
      | cons c t => exact ⟨c, t, rfl, by simp at hw; exact hw.1⟩
  | a :: b :: L, _, h => by
    obtain ⟨hne, hw⟩ := h a (by simp)
    have ih := dotted_ok (b :: L) (by simp) (fun s hs => h s (List.mem_cons_of_mem _ hs))
    obtain ⟨c, t, hY, hc⟩ := ih.head
    rw [dotted_cons2]
    refine ⟨?_, ?_, ?_, ?_⟩
    · rw [tail_app hw, hY, tail_dot]
      have := ih.tail
      rw [hY, tail_word hc] at this
      exact ⟨hc, this⟩
    · have := ih.nd
      simp only [nd] at this ⊢
      simp [List.filter_append, nd_word a hw, List.filter_cons, this]
    · cases a with
      | nil => exact absurd rfl hne
      | cons c' t' => exact ⟨c', t' ++ '.' :: dotted (b :: L), rfl, by simp at hw; exact hw.1⟩
    · intro x hx
      simp only [List.mem_append, List.mem_cons] at hx
      rcases hx with hx | rfl | hx
      · exact Or.inl (List.all_eq_true.1 hw x hx)
      · exact Or.inr rfl
      · exact ih.chars x hx


section identRules
variable {X : Str} {total : Nat} (hX : DottedOk X total)
include hX

theorem dotted_facts : ∀ x ∈ X, E.isSpace x = false ∧ x ≠ '\'' ∧ x ≠ '-' ∧ LexImage.isAscii x = true := by
  intro x hx
  rcases hX.chars x hx with h | rfl
  · have hf := wordA_facts x h
    simp only [wordFacts, Bool.and_eq_true, Bool.not_eq_true', bne_iff_ne, ne_eq] at hf
    exact ⟨hf.1.1.1.1.2, hf.1.1.1.2, hf.1.1.2, wordA_ascii x h⟩
  · exact ⟨by decide +kernel, by decide, by decide, by decide⟩

theorem dotted_ascii : X.all LexImage.isAscii = true := by
  rw [List.all_eq_true]; exact fun x hx => (dotted_facts hX x hx).2.2.2

theorem kw_quote_none (w : Str) (hw : '\'' ∈ w) : kw E w X = none := by
  cases hk : kw E w X with
  | none => rfl
  | some y =>
    obtain ⟨x, hx, hxq⟩ := kw_mem _ _ y.1 y.2 hk '\'' hw
    have hxe : x = '\'' := by simpa [ciChar, isAsciiLower] using hxq
    exact absurd hxe (dotted_facts hX x hx).2.1

theorem ident_scanDuration : scanDuration E X = none := by
  simp only [scanDuration, kw_quote_none hX "duration'".toList (by decide)]; rfl

theorem ident_scanGeography : scanGeography E X = none := by
  simp only [scanGeography, kw_quote_none hX "geography'".toList (by decide)]; rfl

theorem ident_scanGuid : scanGuid E X = none := by
  apply scanGuid_nominus
  rw [List.all_eq_true]
  intro x hx
  simpa using (dotted_facts hX x hx).2.2.1

theorem ident_scanNot : scanNot E X = none := by
  cases hk : kw E "not".toList X with
  | none => simp only [scanNot, hk]; rfl
  | some y =>
    obtain ⟨m, r⟩ := y
    have hdec := LexImage.kw_decomp E _ _ _ _ hk
    cases r with
    | nil => simp only [scanNot, hk]; rfl
    | cons c t =>
      have hc := (dotted_facts hX c (by rw [hdec]; simp)).1
      simp only [scanNot, hk, Option.bind_eq_bind, Option.bind_some, span1_head hc]; rfl

theorem ident_scanWord (w : Str) (hw : w.all ciLow = true) (hdot : '.' ∉ w) (hres : X.map lowerA ≠ w) : scanWord E w X = none := by
  cases hk : kw E w X with
  | none => simp [scanWord, hk]
  | some y =>
    obtain ⟨m, r⟩ := y
    obtain ⟨hm, hdec⟩ := kw_lower w X m r hw (dotted_ascii hX) hk
    have hmw : m.all isWordA = true := by
      rw [List.all_eq_true]
      intro x hx
      rcases hX.chars x (by rw [hdec]; exact List.mem_append_left _ hx) with h | rfl
      · exact h
      · exfalso; apply hdot; rw [← hm]
        exact List.mem_map.2 ⟨'.', hx, by decide⟩
    have ht : Tail r := by have := hX.tail; rwa [hdec, tail_app hmw] at this
    have hcont : notIdentCont E r = false := by
      cases r with
      | nil => exfalso; apply hres; rw [hdec]; simpa using hm
      | cons c t =>
        by_cases hc : c = '.'
        · subst hc
          cases t with
          | nil => exact absurd ht tail_dot_nil
          | cons c2 t2 =>
            have hf := wordA_facts c2 (tail_dot.1 ht).1
            simp only [wordFacts, Bool.and_eq_true] at hf
            simp [notIdentCont, hf.1.1.1.1.1]
        · have hw' : isWordA c = true := by
            rw [Tail.eq_def] at ht
            split at ht
            · rename_i heq; cases heq
            · rename_i heq; simp at heq; exact absurd heq.1 hc
            · rename_i heq; simp at heq; obtain ⟨rfl, rfl⟩ := heq; exact ht.1
          have hf := wordA_facts c hw'
          simp only [wordFacts, Bool.and_eq_true] at hf
          rw [notIdentCont.eq_def]
          simp [hc, hf.1.1.1.1.1]
    simp [scanWord, hk, hcont]

end identRules

theorem reserved_ne {X : Str} (h : notReserved X) (w : Str) (hw : w ∈ reservedWords) : X.map lowerA ≠ w := by
  intro e; exact h (e ▸ hw)

theorem lexOne_ident_of (c : Char) (t0 : Str) (total : Nat) (hX : DottedOk (c :: t0) total) (hc : isStartA c = true)
    (htot : total ≤ 128) (hres : notReserved (c :: t0)) :
    lexOne E (c :: t0) = some (.ident (identOfText (c :: t0)), []) := by
  have hs := startA_facts c hc
  simp only [startFacts, Bool.and_eq_true, Bool.not_eq_true', bne_iff_ne, ne_eq] at hs
  obtain ⟨⟨⟨⟨hstart, hdig⟩, h01⟩, h2⟩, hword⟩ := hs
  have hf := wordA_facts c hword
  simp only [wordFacts, Bool.and_eq_true, Bool.not_eq_true', bne_iff_ne, ne_eq] at hf
  obtain ⟨⟨⟨⟨⟨hw, hsp⟩, hq⟩, hm⟩, hdot⟩, hp⟩ := hf
  have r1 := ident_scanDuration hX
  have r2 : scanString (c :: t0) = none := scanString_head hq
  have r3 := ident_scanGeography hX
  have r4 := ident_scanGuid hX
  have r5 : scanDateTime E (c :: t0) = none := scanDateTime_head hdig
  have r6 : scanDatePart E (c :: t0) = none := scanDatePart_head hdig
  have r7 : scanTime E (c :: t0) = none := scanTime_head h01 h2
  have r8 : scanDecimal E (c :: t0) = none := scanDecimal_head hp hm hdig
  have r9 : scanInteger E (c :: t0) = none := scanInteger_head hp hm hdig
  have w1 := ident_scanWord hX "true".toList (by decide +kernel) (by decide) (reserved_ne hres _ (by decide))
  have w2 := ident_scanWord hX "false".toList (by decide +kernel) (by decide) (reserved_ne hres _ (by decide))
  have w3 := ident_scanWord hX "null".toList (by decide +kernel) (by decide) (reserved_ne hres _ (by decide))
  have w4 := ident_scanWord hX "any".toList (by decide +kernel) (by decide) (reserved_ne hres _ (by decide))
  have w5 := ident_scanWord hX "all".toList (by decide +kernel) (by decide) (reserved_ne hres _ (by decide))
  have rn := ident_scanNot hX
  have hop : ∀ w, scanOp E w (c :: t0) = none := fun w => scanOp_head hsp
  have htail : identTail E 127 t0 = (t0, []) := by
    have h1 := (tail_word hword).1 hX.tail
    have h2 : nd t0 + 1 = total := by
      have := hX.nd
      simpa [nd, List.filter_cons, hdot] using this
    exact identTail_full _ t0 127 (Nat.le_refl _) h1 (by omega)
  have hid : scanIdent E (c :: t0) = some (identOfText (c :: t0), []) := by
    simp [scanIdent, hstart, htail]
  rw [lexOne_eq]
  simp only [rules, litRules, restRules, List.cons_append, List.nil_append, firstSome, rLit, rBool, rNull, rOp, rKw, rIdent,
    r1, r2, r3, r4, r5, r6, r7, r8, r9, w1, w2, w3, w4, w5, rn, hop, hid, Option.map_none, Option.map_some, rMinus_cons, hm, if_false]


theorem ident_scanNot_blank {X : Str} {total : Nat} (hX : DottedOk X total) (hres : notReserved X) (rest : Str) :
    scanNot E (X ++ ' ' :: rest) = none := by
  have hext := kw_ext E ' ' rest "not".toList X (by decide +kernel)
  cases hk : kw E "not".toList X with
  | none =>
    rw [hk] at hext
    simp only [scanNot, hext]; rfl
  | some y =>
    obtain ⟨m, r⟩ := y
    rw [hk] at hext
    obtain ⟨hm, hdec⟩ := kw_lower _ X m r (by decide +kernel) (dotted_ascii hX) hk
    cases r with
    | nil =>
      exfalso
      apply reserved_ne hres "not".toList (by decide)
      rw [hdec]; simpa using hm
    | cons c t =>
      have hc := (dotted_facts hX c (by rw [hdec]; simp)).1
      simp only [scanNot, hext, ext_some, Option.bind_eq_bind, Option.bind_some, List.cons_append, span1_head hc]; rfl

theorem ident_kind (segs : List Str) (last : Str) (h : wfIdent (segs ++ [last])) (hk : notReserved (dotted (segs ++ [last])))
    (rest : Str) (hb : boundary rest) :
    lexOne pyCharEnv (dotted (segs ++ [last]) ++ rest) = some (.ident ⟨last, segs⟩, rest) := by
  obtain ⟨hsegs, ⟨c, t, r, hshape, hc⟩, htot⟩ := h
  have hX := dotted_ok (segs ++ [last]) (by simp) hsegs
  have hnodot : ∀ s ∈ segs ++ [last], '.' ∉ s := by
    intro s hs hd
    exact word_ne_dot (List.all_eq_true.1 (hsegs s hs).2 _ hd) rfl
  have hns := LitValue.ident_namespaces segs last hnodot
  obtain ⟨t0, ht0⟩ : ∃ t0, dotted (segs ++ [last]) = c :: t0 := by
    rw [hshape]
    cases r with
    | nil => exact ⟨t, by rw [dotted_single]⟩
    | cons b L => exact ⟨t ++ '.' :: dotted (b :: L), by rw [dotted_cons2]; rfl⟩
  rw [ht0] at hX hk hns ⊢
  have halone := lexOne_ident_of c t0 _ hX hc htot hk
  rw [hns] at halone
  rcases hb with rfl | ⟨d, tl, rfl, hd⟩
  · simpa using halone
  · refine lexOne_ext_ident tl halone ?_ ?_
    · rcases hd with rfl | rfl | rfl <;> decide
    · intro hd'; subst hd'
      exact ident_scanNot_blank hX hk tl


/-! ### decimal / exponent numbers -/

theorem lexOne_float {env : CharEnv} {cs v r : Str} (h1 : scanDuration env cs = none) (h2 : scanString cs = none)
    (h3 : scanGeography env cs = none) (h4 : scanGuid env cs = none) (h5 : scanDateTime env cs = none)
    (h6 : scanDatePart env cs = none) (h7 : scanTime env cs = none) (h8 : scanDecimal env cs = some (v, r)) :
    lexOne env cs = some (.lit .float v, r) := by
  simp [lexOne, h1, h2, h3, h4, h5, h6, h7, h8]

theorem takeN_decomp (p : Char → Bool) : ∀ (n : Nat) (cs m r : Str), takeN p n cs = some (m, r) → cs = m ++ r
  | 0, cs, m, r, h => by simp [takeN] at h; obtain ⟨rfl, rfl⟩ := h; rfl
  | n + 1, [], m, r, h => by simp [takeN] at h
  | n + 1, c :: cs, m, r, h => by
    simp only [takeN] at h
    split at h
    · cases hk : takeN p n cs with
      | none => simp [hk] at h
      | some y =>
        obtain ⟨m', r'⟩ := y
        simp [hk] at h
        obtain ⟨rfl, rfl⟩ := h
        simp [takeN_decomp p n cs m' r' hk]
    · simp at h

/-- fewer than two `-`: not a GUID, not a date -/
theorem scanGuid_fewminus {env : CharEnv} (cs : Str) (h : cs.count '-' ≤ 1) : scanGuid env cs = none := by
  unfold scanGuid
  cases h1 : takeN (isHex env) 8 cs with
  | none => rfl
  | some ar =>
    obtain ⟨a, r⟩ := ar
    have hd := takeN_decomp _ _ _ _ _ h1
    cases r with
    | nil => rfl
    | cons c t =>
      by_cases hc : c = '-'
      · subst hc
        have ht : t.count '-' = 0 := by
          rw [hd] at h; simp [List.count_append] at h; omega
        have htall : t.all (· != '-') = true := by
          rw [List.all_eq_true]; intro x hx
          have : x ≠ '-' := by rintro rfl; exact absurd (List.count_pos_iff.2 hx) (by omega)
          simpa using this
        simp only [Option.bind_eq_bind, Option.bind_some]
        cases h2 : takeN (isHex env) 4 t with
        | none => rfl
        | some br =>
          obtain ⟨b, r2⟩ := br
          have hr2 := LexImage.takeN_rest (· != '-') (isHex env) 4 t b r2 h2 htall
          cases r2 with
          | nil => rfl
          | cons c2 t2 =>
            have : c2 ≠ '-' := by
              simp only [List.all_cons, Bool.and_eq_true] at hr2
              simpa using hr2.1
            simp [this]
      · simp [hc]

theorem scanDatePart_fewminus {env : CharEnv} (cs : Str) (h : cs.count '-' ≤ 1) : scanDatePart env cs = none := by
  unfold scanDatePart
  split
  · simp [List.count_cons] at h; omega
  · rfl


def fracT (fr : Option (Nat × Nat)) : Str := match fr with | none => [] | some (wf, nf) => '.' :: pad (wf + 1) nf

theorem decimalText_eq (sg : Sign) (wi ni : Nat) (fr : Option (Nat × Nat)) (ex : Expo) :
    decimalText sg wi ni fr ex = sg.text ++ (pad (wi + 1) ni ++ (fracT fr ++ ex.text)) := by
  rcases fr with _ | ⟨wf, nf⟩ <;> simp [decimalText, fracT, List.append_assoc]

theorem ci_e_e : ciChar E 'e' 'e' = true := by decide +kernel
theorem ci_e_E : ciChar E 'e' 'E' = true := by decide +kernel
theorem isDigit_e : E.isDigit 'e' = false := by decide +kernel
theorem isDigit_E : E.isDigit 'E' = false := by decide +kernel

theorem span1_pad (w n : Nat) (r : Str) (hr : ∀ c t, r = c :: t → E.isDigit c = false) :
    span1 E.isDigit (pad (w + 1) n ++ r) = some (pad (w + 1) n, r) :=
  span1_all E.isDigit _ r (pad_ne_nil w n) (pad_digits _ _) hr

theorem scanInteger_signed (sg : Sign) (w n : Nat) (r : Str) (hr : ∀ c t, r = c :: t → E.isDigit c = false) :
    scanInteger E (sg.text ++ (pad (w + 1) n ++ r)) = some (sg.text ++ pad (w + 1) n, r) := by
  have h1 := span1_pad w n r hr
  cases sg with
  | none =>
    obtain ⟨t, ht⟩ := pad_head w n
    simp only [Sign.text, List.nil_append]
    rw [ht] at h1 ⊢
    unfold scanInteger
    split
    · rename_i heq; simp at heq; exact absurd heq.1 (digitChar_ne_plus _)
    · rename_i heq; simp at heq; exact absurd heq.1 (digitChar_ne_minus _)
    · exact h1
  | plus => simp [Sign.text, scanInteger, h1]
  | minus => simp [Sign.text, scanInteger, h1]

theorem scanExponent_text (u : Bool) (sg : Sign) (w n : Nat) :
    scanExponent E ((if u then 'E' else 'e') :: (sg.text ++ pad (w + 1) n)) = some ((if u then 'E' else 'e') :: (sg.text ++ pad (w + 1) n), []) := by
  have h1 := span1_pad w n [] (by intro c t h; cases h)
  rw [List.append_nil] at h1
  have hci : ciChar E 'e' (if u then 'E' else 'e') = true := by cases u <;> simp [ci_e_e, ci_e_E]
  cases sg with
  | none =>
    obtain ⟨t, ht⟩ := pad_head w n
    simp only [Sign.text, List.nil_append]
    rw [ht] at h1 ⊢
    unfold scanExponent
    simp only [hci, if_true]
    split
    · rename_i heq; simp at heq; exact absurd heq.1 (digitChar_ne_plus _)
    · rename_i heq; simp at heq; exact absurd heq.1 (digitChar_ne_minus _)
    · simp [h1]
  | plus => simp [Sign.text, scanExponent, hci, h1]
  | minus => simp [Sign.text, scanExponent, hci, h1]

theorem expo_text_eq (u : Bool) (sg : Sign) (w n : Nat) :
    (Expo.some u sg w n).text = (if u then 'E' else 'e') :: (sg.text ++ pad (w + 1) n) := by
  simp [Expo.text]

theorem expo_head_nodigit (ex : Expo) : ∀ c t, ex.text = c :: t → E.isDigit c = false ∧ c ≠ '.' := by
  intro c t h
  cases ex with
  | none => cases h
  | some u sg w n =>
    rw [expo_text_eq] at h
    simp only [List.cons.injEq] at h
    obtain ⟨rfl, _⟩ := h
    cases u <;> exact ⟨by decide +kernel, by decide⟩

theorem scanDecimal_text (sg : Sign) (wi ni : Nat) (fr : Option (Nat × Nat)) (ex : Expo) (hfe : fr ≠ none ∨ ex ≠ .none) :
    scanDecimal E (sg.text ++ (pad (wi + 1) ni ++ (fracT fr ++ ex.text))) = some (sg.text ++ (pad (wi + 1) ni ++ (fracT fr ++ ex.text)), []) := by
  rcases fr with _ | ⟨wf, nf⟩
  · -- no fraction: the exponent is there
    cases ex with
    | none => simp at hfe
    | some u sg' w n =>
      have hi := scanInteger_signed sg wi ni (Expo.some u sg' w n).text (fun c t h => (expo_head_nodigit _ c t h).1)
      have he := scanExponent_text u sg' w n
      simp only [fracT, List.nil_append]
      rw [expo_text_eq] at hi ⊢
      unfold scanDecimal
      simp only [hi, Option.bind_eq_bind, Option.bind_some]
      split
      · rename_i heq; simp at heq; cases u <;> simp at heq
      · simp [he]
  · have hi := scanInteger_signed sg wi ni ('.' :: (pad (wf + 1) nf ++ ex.text)) (by intro c t h; cases h; exact isDigit_dot)
    have hf := span1_pad wf nf ex.text (fun c t h => (expo_head_nodigit _ c t h).1)
    simp only [fracT, List.cons_append]
    unfold scanDecimal
    simp only [hi, Option.bind_eq_bind, Option.bind_some, hf]
    cases ex with
    | none => simp [Expo.text, scanExponent]
    | some u sg' w n =>
      have he := scanExponent_text u sg' w n
      rw [expo_text_eq]
      simp [he]


theorem count_pad (w n : Nat) : (pad w n).count '-' = 0 := by
  rw [List.count_eq_zero]
  intro h
  exact pad_all (· ≠ '-') (by decide) w n _ h rfl

theorem count_fracT (fr : Option (Nat × Nat)) : (fracT fr).count '-' = 0 := by
  rcases fr with _ | ⟨wf, nf⟩
  · rfl
  · simp [fracT, List.count_cons, count_pad]

theorem count_expo (ex : Expo) : ex.text.count '-' ≤ 1 := by
  cases ex with
  | none => simp [Expo.text]
  | some u sg w n =>
    rw [expo_text_eq]
    cases u <;> cases sg <;> simp [Sign.text, List.count_cons, List.count_append, count_pad]

theorem nocolon_pad (w n : Nat) : (pad w n).all (· != ':') = true := pad_allB _ (by decide) w n

theorem nocolon_decimal (sg : Sign) (wi ni : Nat) (fr : Option (Nat × Nat)) (ex : Expo) :
    (sg.text ++ (pad (wi + 1) ni ++ (fracT fr ++ ex.text))).all (· != ':') = true := by
  have h1 : sg.text.all (· != ':') = true := by cases sg <;> decide
  have h2 : (fracT fr).all (· != ':') = true := by
    rcases fr with _ | ⟨wf, nf⟩
    · rfl
    · simp only [fracT, List.all_cons, nocolon_pad]; decide
  have h3 : ex.text.all (· != ':') = true := by
    cases ex with
    | none => rfl
    | some u sg' w n =>
      rw [expo_text_eq]
      have : sg'.text.all (· != ':') = true := by cases sg' <;> decide
      cases u <;> simp only [List.all_cons, List.all_append, this, nocolon_pad] <;> decide
  simp only [List.all_append, h1, h2, h3, nocolon_pad, Bool.and_self]

theorem decimal_alone (sg : Sign) (wi ni : Nat) (fr : Option (Nat × Nat)) (ex : Expo) (hfe : fr ≠ none ∨ ex ≠ .none) :
    lexOne E (decimalText sg wi ni fr ex) = some (.lit .float (decimalText sg wi ni fr ex), []) := by
  rw [decimalText_eq]
  have hdec := scanDecimal_text sg wi ni fr ex hfe
  have htime : scanTime E (sg.text ++ (pad (wi + 1) ni ++ (fracT fr ++ ex.text))) = none := by
    simp [scanTime, scanHourMinute_nocolon _ (nocolon_decimal sg wi ni fr ex)]
  cases sg with
  | none =>
    simp only [Sign.text, List.nil_append] at hdec htime ⊢
    have hcount : (pad (wi + 1) ni ++ (fracT fr ++ ex.text)).count '-' ≤ 1 := by
      have := count_expo ex
      simp [List.count_append, count_pad, count_fracT, this]
    have hdp := scanDatePart_fewminus (env := E) _ hcount
    have hg := scanGuid_fewminus (env := E) _ hcount
    obtain ⟨t, ht⟩ := pad_head wi ni
    refine lexOne_float ?_ ?_ ?_ hg ?_ hdp htime hdec
    · rw [ht]; exact (pre3_digit _ _).1
    · rw [ht]; exact (pre3_digit _ _).2.1
    · rw [ht]; exact (pre3_digit _ _).2.2
    · simp [scanDateTime, hdp]
  | plus =>
    simp only [Sign.text, List.cons_append, List.nil_append] at hdec htime ⊢
    exact lexOne_float (scanDuration_head (by decide +kernel)) (scanString_head (by decide)) (scanGeography_head (by decide +kernel))
      (scanGuid_head (by decide +kernel)) (scanDateTime_head (by decide +kernel)) (scanDatePart_head (by decide +kernel)) htime hdec
  | minus =>
    simp only [Sign.text, List.cons_append, List.nil_append] at hdec htime ⊢
    exact lexOne_float (scanDuration_head (by decide +kernel)) (scanString_head (by decide)) (scanGeography_head (by decide +kernel))
      (scanGuid_head (by decide +kernel)) (scanDateTime_head (by decide +kernel)) (scanDatePart_head (by decide +kernel)) htime hdec

theorem decimal_kind (sg : Sign) (wi ni : Nat) (fr : Option (Nat × Nat)) (ex : Expo) (hi : ni < 10 ^ (wi + 1))
    (hf : ∀ wf nf, fr = some (wf, nf) → nf < 10 ^ (wf + 1)) (he : ex.ok) (hfe : fr ≠ none ∨ ex ≠ .none) (rest : Str) (hb : boundary rest) :
    lexOne pyCharEnv (decimalText sg wi ni fr ex ++ rest) = some (.lit .float (decimalText sg wi ni fr ex), rest) :=
  lexOne_boundary (decimal_alone sg wi ni fr ex hfe) rest hb


/-! ### Boolean, null in any letter case -/

/-- a letter in the chosen case -/
def cl (b : Bool) (p : Char) : Char := if b then (if 'a' ≤ p ∧ p ≤ 'z' then Char.ofNat (p.toNat - 32) else p) else p

theorem caseWord4 (up : Nat → Bool) (a b c d : Char) :
    caseWord up [a, b, c, d] = [cl (up 0) a, cl (up 1) b, cl (up 2) c, cl (up 3) d] := by
  simp [caseWord, cl, List.zipIdx]
theorem caseWord5 (up : Nat → Bool) (a b c d e : Char) :
    caseWord up [a, b, c, d, e] = [cl (up 0) a, cl (up 1) b, cl (up 2) c, cl (up 3) d, cl (up 4) e] := by
  simp [caseWord, cl, List.zipIdx]

theorem true_alone : ∀ b0 b1 b2 b3 : Bool, lexOne E [cl b0 't', cl b1 'r', cl b2 'u', cl b3 'e'] =
    some (.lit .bool [cl b0 't', cl b1 'r', cl b2 'u', cl b3 'e'], []) ∧
    pyVal .bool [cl b0 't', cl b1 'r', cl b2 'u', cl b3 'e'] = .ok (.bool true) := by decide +kernel

theorem false_alone : ∀ b0 b1 b2 b3 b4 : Bool, lexOne E [cl b0 'f', cl b1 'a', cl b2 'l', cl b3 's', cl b4 'e'] =
    some (.lit .bool [cl b0 'f', cl b1 'a', cl b2 'l', cl b3 's', cl b4 'e'], []) ∧
    pyVal .bool [cl b0 'f', cl b1 'a', cl b2 'l', cl b3 's', cl b4 'e'] = .ok (.bool false) := by decide +kernel

theorem null_alone : ∀ b0 b1 b2 b3 : Bool, lexOne E [cl b0 'n', cl b1 'u', cl b2 'l', cl b3 'l'] = some (.lit .null [], []) := by
  decide +kernel

theorem bool_kind (up : Nat → Bool) (b : Bool) (rest : Str) (hb : boundary rest) :
    lexOne pyCharEnv (caseWord up (if b then "true".toList else "false".toList) ++ rest)
      = some (.lit .bool (caseWord up (if b then "true".toList else "false".toList)), rest)
    ∧ pyVal .bool (caseWord up (if b then "true".toList else "false".toList)) = .ok (.bool b) := by
  cases b
  · have e : caseWord up (if false = true then "true".toList else "false".toList) =
        [cl (up 0) 'f', cl (up 1) 'a', cl (up 2) 'l', cl (up 3) 's', cl (up 4) 'e'] := caseWord5 up _ _ _ _ _
    rw [e]
    have := false_alone (up 0) (up 1) (up 2) (up 3) (up 4)
    exact ⟨lexOne_boundary this.1 rest hb, this.2⟩
  · have e : caseWord up (if true = true then "true".toList else "false".toList) =
        [cl (up 0) 't', cl (up 1) 'r', cl (up 2) 'u', cl (up 3) 'e'] := caseWord4 up _ _ _ _
    rw [e]
    have := true_alone (up 0) (up 1) (up 2) (up 3)
    exact ⟨lexOne_boundary this.1 rest hb, this.2⟩

theorem null_kind (up : Nat → Bool) (rest : Str) (hb : boundary rest) :
    lexOne pyCharEnv (caseWord up "null".toList ++ rest) = some (.lit .null [], rest) := by
  have e : caseWord up "null".toList = [cl (up 0) 'n', cl (up 1) 'u', cl (up 2) 'l', cl (up 3) 'l'] := caseWord4 up _ _ _ _
  rw [e]
  exact lexOne_boundary (null_alone _ _ _ _) rest hb


/-! ### geography literals -/

theorem lexOne_geo {env : CharEnv} {cs v r : Str} (h1 : scanDuration env cs = none) (h2 : scanString cs = none)
    (h3 : scanGeography env cs = some (v, r)) : lexOne env cs = some (.lit .geo v, r) := by
  simp [lexOne, h1, h2, h3]

theorem ciChar_cl {env : CharEnv} (b : Bool) (p : Char) (hp : isAsciiLower p = true) : ciChar env p (cl b p) = true := by
  have h' : 'a' ≤ p ∧ p ≤ 'z' := by simpa [isAsciiLower] using hp
  cases b
  · simp [ciChar, cl, hp]
  · simp [ciChar, cl, hp, asciiUpper, h']

/-- the keyword `w` spelled in any letter case, then a quote, matches the pattern `w'` -/
theorem kw_cased {env : CharEnv} (up : Nat → Bool) : ∀ (w : Str) (k : Nat) (r : Str), (∀ p ∈ w, isAsciiLower p = true) →
    kw env (w ++ ['\'']) ((w.zipIdx k).map (fun p => cl (up p.2) p.1) ++ '\'' :: r) =
      some ((w.zipIdx k).map (fun p => cl (up p.2) p.1) ++ ['\''], r)
  | [], k, r, _ => by simp [kw, ciChar, isAsciiLower]
  | p :: w, k, r, h => by
    have ih := kw_cased (env := env) up w (k + 1) r (fun q hq => h q (List.mem_cons_of_mem _ hq))
    simp only [List.zipIdx_cons, List.map_cons, List.cons_append, kw, ciChar_cl _ p (h p (by simp)), if_true, ih]

theorem caseWord_eq (up : Nat → Bool) (w : Str) : caseWord up w = (w.zipIdx 0).map (fun p => cl (up p.2) p.1) := by
  simp [caseWord, cl]

theorem geo_kw (up : Nat → Bool) (r : Str) :
    kw E "geography'".toList (caseWord up "geography".toList ++ '\'' :: r) = some (caseWord up "geography".toList ++ ['\''], r) := by
  rw [caseWord_eq]
  exact kw_cased up "geography".toList 0 r (by decide)

theorem geo_head (up : Nat → Bool) : ∃ t, caseWord up "geography".toList = cl (up 0) 'g' :: t := by
  rw [caseWord_eq]; exact ⟨_, rfl⟩

theorem geography_kind (up : Nat → Bool) (content rest : Str) (hb : boundary rest) :
    lexOne pyCharEnv (geoText up content ++ rest)
      = some (.lit .geo (content.flatMap (fun c => if c = '\'' then ['\'', '\''] else [c])), rest) := by
  have hr : ∀ t, rest ≠ '\'' :: t := by
    intro t h
    rcases hb with rfl | ⟨c, t', rfl, hc⟩
    · cases h
    · simp at h; rcases hc with hc | hc | hc <;> (rw [hc] at h; simp at h)
  have hbody := strBody_esc content rest hr
  have hkw := geo_kw up (esc content ++ '\'' :: rest)
  have htext : geoText up content ++ rest = caseWord up "geography".toList ++ '\'' :: (esc content ++ '\'' :: rest) := by
    simp [geoText, esc, List.append_assoc]
  rw [htext]
  have hgeo : scanGeography E (caseWord up "geography".toList ++ '\'' :: (esc content ++ '\'' :: rest)) = some (esc content, rest) := by
    simp only [scanGeography, hkw, Option.bind_eq_bind, Option.bind_some, hbody]
  obtain ⟨t, ht⟩ := geo_head up
  have hd : ciChar E 'd' (cl (up 0) 'g') = false := by cases up 0 <;> decide +kernel
  have hq : cl (up 0) 'g' ≠ '\'' := by cases up 0 <;> decide
  rw [ht] at hgeo ⊢
  exact lexOne_geo (scanDuration_head hd) (scanString_head hq) hgeo

end OQ.LitLex
