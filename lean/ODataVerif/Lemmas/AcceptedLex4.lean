/-
  Lemmas/AcceptedLex4.lean — a literal token the lexer emits is read back, from its spelling alone, as itself
  (`lit_alone`): the rule that produced it matches the spelling completely (trim lemmas) and the earlier rules fail.
-/
import ODataVerif.Lemmas.AcceptedLex3
namespace OQ.AcceptedLex
open OQ.LexRender OQ.Spec OQ.CaseMap
set_option linter.unusedSimpArgs false
set_option linter.unusedVariables false

/-! ### first characters -/
theorem digit_ci {c p : Char} (hp : p ∈ ['d', 'g', 't', 'f', 'n', 'a']) (hd : E.isDigit c = true) : ciChar E p c = false := by
  cases h : ciChar E p c with
  | false => rfl
  | true => exact absurd (ciChar_imp c p hp h) (isDigit_imp c hd).2.1

/-- what the first three rules ask of a first character: not `d`, not `g`, not a quote -/
structure Pre3 (c : Char) : Prop where
  d : ciChar E 'd' c = false
  g : ciChar E 'g' c = false
  q : c ≠ '\''

theorem pre3_digit {c : Char} (h : E.isDigit c = true) : Pre3 c :=
  ⟨digit_ci (by decide) h, digit_ci (by decide) h, ne_of_class h digit_quote⟩
theorem pre3_plus : Pre3 '+' := ⟨by decide +kernel, by decide +kernel, by decide⟩
theorem pre3_minus : Pre3 '-' := ⟨by decide +kernel, by decide +kernel, by decide⟩

theorem pre3_num {c : Char} (h : c = '+' ∨ c = '-' ∨ E.isDigit c = true) : Pre3 c := by
  rcases h with rfl | rfl | h
  · exact pre3_plus
  · exact pre3_minus
  · exact pre3_digit h

theorem Pre3.rules {c : Char} (h : Pre3 c) (t : Str) :
    scanDuration E (c :: t) = none ∧ scanString (c :: t) = none ∧ scanGeography E (c :: t) = none :=
  ⟨scanDuration_head h.d, scanString_head h.q, scanGeography_head h.g⟩

/-! ### texts without a quote -/
theorem kw_noq {w s : Str} (hw : '\'' ∈ w) (hs : '\'' ∉ s) : kw E w s = none := by
  cases hk : kw E w s with
  | none => rfl
  | some y =>
    obtain ⟨x, hx, hxq⟩ := kw_mem _ _ y.1 y.2 hk '\'' hw
    have hxe : x = '\'' := by simpa [ciChar, isAsciiLower] using hxq
    subst hxe
    exact absurd hx hs

theorem scanDuration_noq {s : Str} (hs : '\'' ∉ s) : scanDuration E s = none := by
  simp only [scanDuration, kw_noq (w := "duration'".toList) (by decide) hs]; rfl

theorem scanGeography_noq {s : Str} (hs : '\'' ∉ s) : scanGeography E s = none := by
  simp only [scanGeography, kw_noq (w := "geography'".toList) (by decide) hs]; rfl

/-! ### which rules can have fired when a later scanner matches -/
theorem kind_of_guid {cs : Str} {x : Str × Str} (h : scanGuid E cs = some x) :
    ∃ k v r, lexOne E cs = some (.lit k v, r) ∧ (k = .duration ∨ k = .str ∨ k = .geo ∨ k = .guid) := by
  unfold lexOne
  cases h1 : scanDuration E cs with
  | some a => exact ⟨.duration, a.1, a.2, rfl, Or.inl rfl⟩
  | none =>
    cases h2 : scanString cs with
    | some a => exact ⟨.str, a.1, a.2, rfl, Or.inr (Or.inl rfl)⟩
    | none =>
      cases h3 : scanGeography E cs with
      | some a => exact ⟨.geo, a.1, a.2, rfl, Or.inr (Or.inr (Or.inl rfl))⟩
      | none => exact ⟨.guid, x.1, x.2, by simp [h], Or.inr (Or.inr (Or.inr rfl))⟩

theorem kind_of_date {cs : Str} {x : Str × Str} (h : scanDatePart E cs = some x) :
    ∃ k v r, lexOne E cs = some (.lit k v, r) ∧
      (k = .duration ∨ k = .str ∨ k = .geo ∨ k = .guid ∨ k = .datetime ∨ k = .date) := by
  cases h4 : scanGuid E cs with
  | some a =>
    obtain ⟨k, v, r, hl, hk⟩ := kind_of_guid h4
    refine ⟨k, v, r, hl, ?_⟩
    rcases hk with e | e | e | e <;> simp [e]
  | none =>
    unfold lexOne
    cases h1 : scanDuration E cs with
    | some a => exact ⟨.duration, a.1, a.2, rfl, Or.inl rfl⟩
    | none =>
      cases h2 : scanString cs with
      | some a => exact ⟨.str, a.1, a.2, rfl, Or.inr (Or.inl rfl)⟩
      | none =>
        cases h3 : scanGeography E cs with
        | some a => exact ⟨.geo, a.1, a.2, rfl, Or.inr (Or.inr (Or.inl rfl))⟩
        | none =>
          cases h5 : scanDateTime E cs with
          | some a => exact ⟨.datetime, a.1, a.2, by simp [h4], by simp⟩
          | none => exact ⟨.date, x.1, x.2, by simp [h4, h], by simp⟩

theorem guid_none_of_kind {cs r v : Str} {k : LitKind} (h : lexOne E cs = some (.lit k v, r))
    (hk : k ≠ .duration ∧ k ≠ .str ∧ k ≠ .geo ∧ k ≠ .guid) : scanGuid E cs = none := by
  cases hg : scanGuid E cs with
  | none => rfl
  | some x =>
    obtain ⟨k', v', r', hl, hk'⟩ := kind_of_guid hg
    rw [h] at hl
    simp only [Option.some.injEq, Prod.mk.injEq, Tok.lit.injEq] at hl
    obtain ⟨⟨rfl, -⟩, -⟩ := hl
    rcases hk' with e | e | e | e
    · exact absurd e hk.1
    · exact absurd e hk.2.1
    · exact absurd e hk.2.2.1
    · exact absurd e hk.2.2.2

theorem date_none_of_kind {cs r v : Str} {k : LitKind} (h : lexOne E cs = some (.lit k v, r))
    (hk : k ≠ .duration ∧ k ≠ .str ∧ k ≠ .geo ∧ k ≠ .guid ∧ k ≠ .datetime ∧ k ≠ .date) : scanDatePart E cs = none := by
  cases hg : scanDatePart E cs with
  | none => rfl
  | some x =>
    obtain ⟨k', v', r', hl, hk'⟩ := kind_of_date hg
    rw [h] at hl
    simp only [Option.some.injEq, Prod.mk.injEq, Tok.lit.injEq] at hl
    obtain ⟨⟨rfl, -⟩, -⟩ := hl
    rcases hk' with e | e | e | e | e | e
    · exact absurd e hk.1
    · exact absurd e hk.2.1
    · exact absurd e hk.2.2.1
    · exact absurd e hk.2.2.2.1
    · exact absurd e hk.2.2.2.2.1
    · exact absurd e hk.2.2.2.2.2

/-! ### picking a rule -/
section pick
variable {cs v r : Str}
theorem pick_geo (h1 : scanDuration E cs = none) (h2 : scanString cs = none) (h3 : scanGeography E cs = some (v, r)) :
    lexOne E cs = some (.lit .geo v, r) := by
  simp [lexOne, h1, h2, h3]
theorem pick_float (h1 : scanDuration E cs = none) (h2 : scanString cs = none) (h3 : scanGeography E cs = none)
    (h4 : scanGuid E cs = none) (h5 : scanDateTime E cs = none) (h6 : scanDatePart E cs = none)
    (h7 : scanTime E cs = none) (h8 : scanDecimal E cs = some (v, r)) :
    lexOne E cs = some (.lit .float v, r) := by
  simp [lexOne, h1, h2, h3, h4, h5, h6, h7, h8]
theorem pick_true (h1 : scanDuration E cs = none) (h2 : scanString cs = none) (h3 : scanGeography E cs = none)
    (h4 : scanGuid E cs = none) (h5 : scanDateTime E cs = none) (h6 : scanDatePart E cs = none)
    (h7 : scanTime E cs = none) (h8 : scanDecimal E cs = none) (h9 : scanInteger E cs = none)
    (h10 : scanWord E "true".toList cs = some (v, r)) :
    lexOne E cs = some (boolOrIdent v, r) := by
  have h10' : scanWord E ['t', 'r', 'u', 'e'] cs = some (v, r) := h10
  simp [lexOne, h1, h2, h3, h4, h5, h6, h7, h8, h9, h10']
theorem pick_false (h1 : scanDuration E cs = none) (h2 : scanString cs = none) (h3 : scanGeography E cs = none)
    (h4 : scanGuid E cs = none) (h5 : scanDateTime E cs = none) (h6 : scanDatePart E cs = none)
    (h7 : scanTime E cs = none) (h8 : scanDecimal E cs = none) (h9 : scanInteger E cs = none)
    (h10 : scanWord E "true".toList cs = none) (h11 : scanWord E "false".toList cs = some (v, r)) :
    lexOne E cs = some (boolOrIdent v, r) := by
  have h10' : scanWord E ['t', 'r', 'u', 'e'] cs = none := h10
  have h11' : scanWord E ['f', 'a', 'l', 's', 'e'] cs = some (v, r) := h11
  simp [lexOne, h1, h2, h3, h4, h5, h6, h7, h8, h9, h10', h11']
end pick

/-! ### fixed positions -/
theorem scanGuid_dash5 (y1 y2 y3 y4 : Char) (t : Str) : scanGuid E (y1 :: y2 :: y3 :: y4 :: '-' :: t) = none := by
  simp only [scanGuid, takeN, hex_minus, Option.bind_eq_bind]
  repeat' split
  all_goals simp_all

theorem colon_hex : isHex E ':' = false := by decide +kernel

theorem scanGuid_colon3 (h1 h2 : Char) (t : Str) : scanGuid E (h1 :: h2 :: ':' :: t) = none := by
  simp only [scanGuid, takeN, colon_hex, Option.bind_eq_bind]
  repeat' split
  all_goals simp_all

theorem scanDatePart_colon3 (h1 h2 : Char) (t : Str) : scanDatePart E (h1 :: h2 :: ':' :: t) = none := by
  unfold scanDatePart
  split
  · rename_i heq
    simp only [List.cons.injEq] at heq
    obtain ⟨rfl, rfl, rfl, -⟩ := heq
    simp [digit_colon]
  · rfl

theorem scanDateTime_of_date {s : Str} (h : scanDatePart E s = none) : scanDateTime E s = none := by
  simp [scanDateTime, h]

theorem numCh_ne_colon {c : Char} (h : numCh c) : c ≠ ':' := by
  rcases h with rfl | rfl | rfl | h | h
  · decide
  · decide
  · decide
  · rcases e_cases h with rfl | rfl <;> decide
  · exact ne_of_class h digit_colon

theorem scanTime_num {v : Str} (h : ∀ c ∈ v, numCh c) : scanTime E v = none := by
  have : scanHourMinute E v = none := LitLex.scanHourMinute_nocolon v (by
    rw [List.all_eq_true]; intro c hc; simpa using numCh_ne_colon (h c hc))
  simp [scanTime, this]

/-! ### the literal kinds -/
abbrev isAscii := LexImage.isAscii

theorem alone_duration {cs v r : Str} (ha : cs.all isAscii = true) (h : scanDuration E cs = some (v, r)) :
    lexOne E (spellTok (.lit .duration v)) = some (.lit .duration v, []) :=
  LitLex.lexOne_duration (scanDuration_trim ha h)

theorem alone_str {cs v r : Str} (h : scanString cs = some (v, r)) :
    lexOne E (spellTok (.lit .str v)) = some (.lit .str v, []) :=
  LitLex.lexOne_string (scanDuration_head hf_quote.d) (scanString_trim h).2

theorem alone_geo {cs v r : Str} (h : scanGeography E cs = some (v, r)) :
    lexOne E (spellTok (.lit .geo v)) = some (.lit .geo v, []) := by
  have h3 := scanGeography_trim h
  have e : spellTok (.lit .geo v) = 'g' :: ("eography'".toList ++ v ++ ['\'']) := rfl
  have e' : "geography'".toList ++ v ++ ['\''] = 'g' :: ("eography'".toList ++ v ++ ['\'']) := rfl
  rw [e'] at h3
  rw [e]
  exact pick_geo (scanDuration_head (by decide +kernel)) (scanString_head (by decide)) h3

theorem alone_guid {cs v r : Str} (h : scanGuid E cs = some (v, r)) :
    lexOne E (spellTok (.lit .guid v)) = some (.lit .guid v, []) := by
  obtain ⟨-, hf, ⟨c, t, rfl, hc⟩, -⟩ := scanGuid_ps h
  have hq : LexImage.NoQ (c :: t) := LexImage.scanGuid_noq _ _ _ h
  have := hf []
  rw [List.append_nil] at this
  exact LitLex.lexOne_guid (scanDuration_noq hq) (scanString_head (ne_of_class hc LexImage.hex_q)) (scanGeography_noq hq) this

theorem alone_date {cs v r : Str} (h : scanDatePart E cs = some (v, r)) :
    lexOne E (spellTok (.lit .date v)) = some (.lit .date v, []) := by
  obtain ⟨-, hf, ⟨y1, y2, y3, y4, t, rfl, hy1⟩⟩ := scanDatePart_ps h
  have hd := hf []
  rw [List.append_nil] at hd
  obtain ⟨p1, p2, p3⟩ := (pre3_digit hy1).rules (y2 :: y3 :: y4 :: '-' :: t)
  refine LitLex.lexOne_date p1 p2 p3 (scanGuid_dash5 _ _ _ _ _) ?_ hd
  show scanDateTime E (y1 :: y2 :: y3 :: y4 :: '-' :: t) = none
  simp [scanDateTime, hd]

theorem alone_datetime {cs v r : Str} (h : scanDateTime E cs = some (v, r)) :
    lexOne E (spellTok (.lit .datetime v)) = some (.lit .datetime v, []) := by
  obtain ⟨a, -, rfl, hs, ⟨y1, y2, y3, y4, t, rfl, hy1⟩⟩ := scanDateTime_trim h
  obtain ⟨p1, p2, p3⟩ := (pre3_digit hy1).rules (y2 :: y3 :: y4 :: '-' :: t)
  have h0 := LitLex.lexOne_datetime p1 p2 p3 (scanGuid_dash5 _ _ _ _ _) hs
  have h1 := lexOne_lit_inv h0
  apply lexOne_of_lit
  have := firstSome_map (litRules E) (litRules_map caseMap_upper) (y1 :: y2 :: y3 :: y4 :: '-' :: t)
  rw [h1] at this
  exact this

theorem time_head {h1 : Char} (h : h1 = '0' ∨ h1 = '1' ∨ h1 = '2') : Pre3 h1 := by
  rcases h with rfl | rfl | rfl <;> exact ⟨by decide +kernel, by decide +kernel, by decide⟩

theorem alone_time {cs v r : Str} (h : scanTime E cs = some (v, r)) :
    lexOne E (spellTok (.lit .time v)) = some (.lit .time v, []) := by
  obtain ⟨-, hs, ⟨h1, h2, t, rfl, hh⟩⟩ := scanTime_trim h
  obtain ⟨p1, p2, p3⟩ := (time_head hh).rules (h2 :: ':' :: t)
  exact LitLex.lexOne_time p1 p2 p3 (scanGuid_colon3 _ _ _) (scanDateTime_of_date (scanDatePart_colon3 _ _ _))
    (scanDatePart_colon3 _ _ _) hs

theorem alone_float {cs v r : Str} (hl : lexOne E cs = some (.lit .float v, r)) (h : scanDecimal E cs = some (v, r)) :
    lexOne E (spellTok (.lit .float v)) = some (.lit .float v, []) := by
  obtain ⟨rfl, ⟨c, t, rfl, hc⟩, hch, hs⟩ := scanDecimal_trim h
  obtain ⟨p1, p2, p3⟩ := (pre3_num hc).rules t
  have hg := scanGuid_prefix (guid_none_of_kind hl (by simp))
  have hd := scanDatePart_prefix (date_none_of_kind hl (by simp))
  exact pick_float p1 p2 p3 hg (scanDateTime_of_date hd) hd (scanTime_num hch) hs

theorem alone_int {cs v r : Str} (hl : lexOne E cs = some (.lit .int v, r)) (h : scanInteger E cs = some (v, r)) :
    lexOne E (spellTok (.lit .int v)) = some (.lit .int v, []) := by
  obtain ⟨rfl, ⟨c, t, rfl, hc⟩, hch, hf⟩ := scanInteger_ps h
  obtain ⟨p1, p2, p3⟩ := (pre3_num hc).rules t
  have hg := scanGuid_prefix (guid_none_of_kind hl (by simp))
  have hd := scanDatePart_prefix (date_none_of_kind hl (by simp))
  have hi := hf [] (HN_nil _)
  rw [List.append_nil] at hi
  have hdec : scanDecimal E (c :: t) = none := by
    simp [scanDecimal, hi, scanExponent_nil]
  exact LitLex.lexOne_int p1 p2 p3 hg (scanDateTime_of_date hd) hd (scanTime_num hch) hdec hi

theorem alone_null : lexOne E (spellTok (.lit .null [])) = some (.lit .null [], []) := by decide +kernel

end OQ.AcceptedLex
