/-
  Lemmas/AcceptedLex.lean — scanner level of Props/C13Accepted.lean: what a scanner of the lexer matched on `cs` it matches
  again, completely, on the matched text alone ("trim" lemmas), for the numeric and the fixed-format rules.
-/
import ODataVerif.Props.C13Text
import ODataVerif.Props.C10Image
import ODataVerif.Props.C06Image
import ODataVerif.Lemmas.LitLex
import ODataVerif.Lemmas.CaseRules
namespace OQ.AcceptedLex
open OQ.LexRender OQ.Spec
set_option linter.unusedSimpArgs false
set_option linter.unusedVariables false

/-- `y` is empty or starts with a character outside the class `p` -/
def HN (p : Char → Bool) (y : Str) : Prop := ∀ c t, y = c :: t → p c = false

theorem HN_nil (p : Char → Bool) : HN p [] := by intro c t h; cases h
theorem HN_cons {p : Char → Bool} {c : Char} {t : Str} (h : p c = false) : HN p (c :: t) := by
  intro c' t' e; cases e; exact h

theorem ne_of_class {p : Char → Bool} {c x : Char} (hc : p c = true) (hx : p x = false) : c ≠ x := by
  rintro rfl; rw [hc] at hx; cases hx

/-! ### span1 -/
theorem span1_inv {p : Char → Bool} {cs a r : Str} (h : span1 p cs = some (a, r)) :
    cs = a ++ r ∧ a ≠ [] ∧ (∀ c ∈ a, p c = true) ∧ HN p r := by
  obtain ⟨h1, h2, h3, h4⟩ := LexImage.span1_spec p cs a r h
  refine ⟨h4, h1, by simpa using h2, ?_⟩
  intro c t e; subst e; simpa [LexImage.headNot] using h3

theorem span1_fwd {p : Char → Bool} {a : Str} (y : Str) (hne : a ≠ []) (ha : ∀ c ∈ a, p c = true) (hy : HN p y) :
    span1 p (a ++ y) = some (a, y) := LitLex.span1_all p a y hne ha hy

/-! ### digits -/
theorem digit_plus : E.isDigit '+' = false := by decide +kernel
theorem digit_minus : E.isDigit '-' = false := by decide +kernel
theorem digit_dot : E.isDigit '.' = false := by decide +kernel
theorem digit_colon : E.isDigit ':' = false := by decide +kernel
theorem digit_quote : E.isDigit '\'' = false := by decide +kernel

theorem e_cases {c : Char} (h : ciChar E 'e' c = true) : c = 'e' ∨ c = 'E' := by
  simp [ciChar, isAsciiLower, asciiUpper, pyCharEnv, CharTables.ciExtras] at h
  rcases h with rfl | rfl
  · exact Or.inl rfl
  · exact Or.inr (by decide)

theorem e_not_digit {c : Char} (h : ciChar E 'e' c = true) : E.isDigit c = false := by
  rcases e_cases h with rfl | rfl <;> decide +kernel

/-! ### integers -/
/-- the characters of a number text -/
def numCh (c : Char) : Prop := c = '+' ∨ c = '-' ∨ c = '.' ∨ ciChar E 'e' c = true ∨ E.isDigit c = true

theorem scanInteger_ps {cs v r : Str} (h : scanInteger E cs = some (v, r)) :
    cs = v ++ r ∧ (∃ c t, v = c :: t ∧ (c = '+' ∨ c = '-' ∨ E.isDigit c = true)) ∧ (∀ c ∈ v, numCh c) ∧
    ∀ y, HN E.isDigit y → scanInteger E (v ++ y) = some (v, y) := by
  unfold scanInteger at h
  split at h
  · rename_i t
    simp only [Option.map_eq_some_iff, Prod.mk.injEq, Prod.exists] at h
    obtain ⟨a, b, h1, rfl, rfl⟩ := h
    obtain ⟨rfl, hne, hd, hr⟩ := span1_inv h1
    refine ⟨rfl, ⟨_, _, rfl, Or.inl rfl⟩, ?_, ?_⟩
    · intro c hc
      rcases List.mem_cons.1 hc with rfl | hc
      · exact Or.inl rfl
      · exact Or.inr (Or.inr (Or.inr (Or.inr (hd c hc))))
    · intro y hy
      simp [scanInteger, span1_fwd y hne hd hy]
  · rename_i t
    simp only [Option.map_eq_some_iff, Prod.mk.injEq, Prod.exists] at h
    obtain ⟨a, b, h1, rfl, rfl⟩ := h
    obtain ⟨rfl, hne, hd, hr⟩ := span1_inv h1
    refine ⟨rfl, ⟨_, _, rfl, Or.inr (Or.inl rfl)⟩, ?_, ?_⟩
    · intro c hc
      rcases List.mem_cons.1 hc with rfl | hc
      · exact Or.inr (Or.inl rfl)
      · exact Or.inr (Or.inr (Or.inr (Or.inr (hd c hc))))
    · intro y hy
      simp [scanInteger, span1_fwd y hne hd hy]
  · obtain ⟨rfl, hne, hd, hr⟩ := span1_inv h
    cases v with
    | nil => exact absurd rfl hne
    | cons d ds =>
      have hdd := hd d List.mem_cons_self
      refine ⟨rfl, ⟨_, _, rfl, Or.inr (Or.inr hdd)⟩, fun c hc => Or.inr (Or.inr (Or.inr (Or.inr (hd c hc)))), ?_⟩
      intro y hy
      have h1 : d ≠ '+' := ne_of_class hdd digit_plus
      have h2 : d ≠ '-' := ne_of_class hdd digit_minus
      have := span1_fwd y hne hd hy
      simp only [List.cons_append] at this ⊢
      unfold scanInteger
      split
      · rename_i heq; simp at heq; exact absurd heq.1 h1
      · rename_i heq; simp at heq; exact absurd heq.1 h2
      · exact this

theorem scanExponent_ps {cs e r : Str} (h : scanExponent E cs = some (e, r)) :
    cs = e ++ r ∧ (∃ c t, e = c :: t ∧ ciChar E 'e' c = true) ∧ (∀ c ∈ e, numCh c) ∧
    ∀ y, HN E.isDigit y → scanExponent E (e ++ y) = some (e, y) := by
  unfold scanExponent at h
  split at h
  · rename_i c0 t
    split at h
    · rename_i hc
      split at h
      · rename_i t'
        simp only [Option.map_eq_some_iff, Prod.mk.injEq, Prod.exists] at h
        obtain ⟨a, b, h1, rfl, rfl⟩ := h
        obtain ⟨rfl, hne, hd, hr⟩ := span1_inv h1
        refine ⟨rfl, ⟨_, _, rfl, hc⟩, ?_, ?_⟩
        · intro c hc'
          simp only [List.mem_cons] at hc'
          rcases hc' with rfl | rfl | hc'
          · exact Or.inr (Or.inr (Or.inr (Or.inl hc)))
          · exact Or.inl rfl
          · exact Or.inr (Or.inr (Or.inr (Or.inr (hd c hc'))))
        · intro y hy
          simp [scanExponent, hc, span1_fwd y hne hd hy]
      · rename_i t'
        simp only [Option.map_eq_some_iff, Prod.mk.injEq, Prod.exists] at h
        obtain ⟨a, b, h1, rfl, rfl⟩ := h
        obtain ⟨rfl, hne, hd, hr⟩ := span1_inv h1
        refine ⟨rfl, ⟨_, _, rfl, hc⟩, ?_, ?_⟩
        · intro c hc'
          simp only [List.mem_cons] at hc'
          rcases hc' with rfl | rfl | hc'
          · exact Or.inr (Or.inr (Or.inr (Or.inl hc)))
          · exact Or.inr (Or.inl rfl)
          · exact Or.inr (Or.inr (Or.inr (Or.inr (hd c hc'))))
        · intro y hy
          simp [scanExponent, hc, span1_fwd y hne hd hy]
      · simp only [Option.map_eq_some_iff, Prod.mk.injEq, Prod.exists] at h
        obtain ⟨a, b, h1, rfl, rfl⟩ := h
        obtain ⟨rfl, hne, hd, hr⟩ := span1_inv h1
        refine ⟨rfl, ⟨_, _, rfl, hc⟩, ?_, ?_⟩
        · intro c hc'
          simp only [List.mem_cons] at hc'
          rcases hc' with rfl | hc'
          · exact Or.inr (Or.inr (Or.inr (Or.inl hc)))
          · exact Or.inr (Or.inr (Or.inr (Or.inr (hd c hc'))))
        · intro y hy
          cases a with
          | nil => exact absurd rfl hne
          | cons d ds =>
            have hdd := hd d List.mem_cons_self
            have h1 : d ≠ '+' := ne_of_class hdd digit_plus
            have h2 : d ≠ '-' := ne_of_class hdd digit_minus
            have := span1_fwd y hne hd hy
            simp only [List.cons_append] at this ⊢
            unfold scanExponent
            simp only [hc, if_true]
            split
            · rename_i heq; simp at heq; exact absurd heq.1 h1
            · rename_i heq; simp at heq; exact absurd heq.1 h2
            · simp [this]
    · simp at h
  · simp at h

theorem scanExponent_nil : scanExponent E [] = none := rfl

theorem numCh_dot : numCh '.' := Or.inr (Or.inr (Or.inl rfl))

theorem scanDecimal_trim {cs v r : Str} (h : scanDecimal E cs = some (v, r)) :
    cs = v ++ r ∧ (∃ c t, v = c :: t ∧ (c = '+' ∨ c = '-' ∨ E.isDigit c = true)) ∧ (∀ c ∈ v, numCh c) ∧
    scanDecimal E v = some (v, []) := by
  unfold scanDecimal at h
  simp only [Option.bind_eq_bind, Option.bind_eq_some_iff] at h
  obtain ⟨⟨i, r1⟩, hi, h⟩ := h
  obtain ⟨rfl, ⟨c0, t0, rfl, hc0⟩, hich, hfwd⟩ := scanInteger_ps hi
  dsimp only at h
  split at h
  · rename_i t
    split at h
    · rename_i f r' hf
      obtain ⟨rfl, hfne, hfd, hfr⟩ := span1_inv hf
      split at h
      · rename_i e r'' he
        obtain ⟨rfl, ⟨ce, te, rfl, hce⟩, hech, hefwd⟩ := scanExponent_ps he
        simp only [Option.some.injEq, Prod.mk.injEq] at h
        obtain ⟨rfl, rfl⟩ := h
        refine ⟨by simp, ⟨c0, _, rfl, hc0⟩, ?_, ?_⟩
        · intro c hc
          simp only [List.mem_append, List.mem_cons] at hc
          rcases hc with (hc | rfl | hc) | hc
          · exact hich c (by simpa using hc)
          · exact numCh_dot
          · exact Or.inr (Or.inr (Or.inr (Or.inr (hfd c hc))))
          · exact hech c (by simpa using hc)
        · have e1 : (c0 :: t0) ++ '.' :: f ++ ce :: te = (c0 :: t0) ++ ('.' :: (f ++ ce :: te)) := by simp
          have h1 := hfwd ('.' :: (f ++ ce :: te)) (HN_cons digit_dot)
          have h2 := span1_fwd (ce :: te) hfne hfd (HN_cons (e_not_digit hce))
          have h3 := hefwd [] (HN_nil _)
          rw [List.append_nil] at h3
          rw [e1]
          simp only [scanDecimal, Option.bind_eq_bind, h1, Option.bind_some, h2, h3]
          simp
      · rename_i he
        simp only [Option.some.injEq, Prod.mk.injEq] at h
        obtain ⟨rfl, rfl⟩ := h
        refine ⟨by simp, ⟨c0, _, rfl, hc0⟩, ?_, ?_⟩
        · intro c hc
          simp only [List.mem_append, List.mem_cons] at hc
          rcases hc with hc | rfl | hc
          · exact hich c (by simpa using hc)
          · exact numCh_dot
          · exact Or.inr (Or.inr (Or.inr (Or.inr (hfd c hc))))
        · have h1 := hfwd ('.' :: f) (HN_cons digit_dot)
          have h2 := span1_fwd [] hfne hfd (HN_nil _)
          rw [List.append_nil] at h2
          simp only [scanDecimal, Option.bind_eq_bind, h1, Option.bind_some, h2, scanExponent_nil]
    · simp at h
  · rename_i hnd
    split at h
    · rename_i e r' he
      obtain ⟨rfl, ⟨ce, te, rfl, hce⟩, hech, hefwd⟩ := scanExponent_ps he
      simp only [Option.some.injEq, Prod.mk.injEq] at h
      obtain ⟨rfl, rfl⟩ := h
      refine ⟨by simp, ⟨c0, _, rfl, hc0⟩, ?_, ?_⟩
      · intro c hc
        simp only [List.mem_append] at hc
        rcases hc with hc | hc
        · exact hich c hc
        · exact hech c hc
      · have h1 := hfwd (ce :: te) (HN_cons (e_not_digit hce))
        have h3 := hefwd [] (HN_nil _)
        rw [List.append_nil] at h3
        have hced : ce ≠ '.' := by rcases e_cases hce with rfl | rfl <;> decide
        simp only [scanDecimal, Option.bind_eq_bind, h1, Option.bind_some]
        split
        · rename_i heq; simp at heq; exact absurd heq.1 hced
        · simp [h3]
    · simp at h

end OQ.AcceptedLex
