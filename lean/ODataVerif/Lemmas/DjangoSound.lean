/- Lemmas/DjangoSound.lean — helper lemmas for Props/C02.lean: equations of the Django visitor model on the shapes
   the typed grammar produces, equations of `djSql`, evaluation of the SQL nodes only Django emits (parameters,
   COALESCE, the REPLACE chain, `<>`), and the soundness invariants of the three sorts. -/
import ODataVerif.Props.C01
import ODataVerif.Spec.OrmSql
import ODataVerif.Spec.OrmSemOk
namespace OQ.DjangoSound
open Spec SqliteSound SqliteLike

/-! ### `Outcome` -/
theorem bind_eq_ok {α β} {x : Outcome α} {f : α → Outcome β} {r : β} (h : x.bind f = .ok r) :
    ∃ a, x = .ok a ∧ f a = .ok r := by
  cases x with
  | ok a => exact ⟨a, rfl, h⟩
  | lib e => cases h
  | notImplemented => cases h
  | foreign c => cases h

/-! ### equations of `djVisit` -/
theorem visit_ident (c : Str) : djVisit (idE c) = .ok (.col [c], .field) := by rw [idE, djVisit]

theorem visit_litInt (v : Str) : djVisit (.lit .int v) = .ok (.param .int v, .value) := by
  rw [djVisit]
  · have : ∃ p, pyInt v = .ok p := by
      unfold pyInt
      split <;> (split <;> exact ⟨_, rfl⟩)
    obtain ⟨p, hp⟩ := this
    simp [litParam, pyVal, hp]
  · intro h; cases h
theorem visit_litStr (v : Str) : djVisit (.lit .str v) = .ok (.param .str v, .value) := by
  rw [djVisit]
  · rfl
  · intro h; cases h
theorem visit_litBool (v : Str) : djVisit (.lit .bool v) = .ok (.param .bool v, .value) := by
  rw [djVisit]
  · rfl
  · intro h; cases h

theorem visit_binop (op l r) : djVisit (.binop op l r) = (djVisit l).bind (fun p => (djVisit r).bind (fun q =>
    if p.2 == .list || q.2 == .list || p.2 == .cond || q.2 == .cond then .foreign "unmodelled"
    else .ok (on2 (OQ.arithName op) p.1 q.1, .expr))) := by
  rw [djVisit]; rfl

theorem visit_unary (op e) : djVisit (.unary op e) = (djVisit e).bind (fun p =>
    if p.2 == .field || p.2 == .value then .lib (.type_ "filter".toList)
    else if op == .neg then .lib (.type_ "USub".toList)
    else if p.2 != .cond then .foreign "unmodelled"
    else .ok (on1 "not" p.1, .cond)) := by
  rw [djVisit]; rfl

theorem visit_boolop (op l r) : djVisit (.boolop op l r) = (djVisit l).bind (fun p => (djVisit r).bind (fun q =>
    if p.2 == .field || p.2 == .value || q.2 == .field || q.2 == .value then
      .lib (.type_ (if op == .and_ then "And" else "Or").toList)
    else if p.2 != .cond || q.2 != .cond then .foreign "unmodelled"
    else .ok (on2 (if op == .and_ then "and" else "or") p.1 q.1, .cond))) := by
  rw [djVisit]; rfl

theorem visit_compare (op l r) (hl : isNullLit l = false) (hr : isNullLit r = false) :
    djVisit (.compare op l r) = (djVisit l).bind (fun p => (djVisit r).bind (fun q =>
      .ok (on2 (cmpLookup op) p.1 q.1, .cond))) := by
  rw [djVisit]
  simp only [hl, hr, Bool.false_and, Bool.false_eq_true, if_false]
  rfl

theorem visit_isNull (c : Str) (negated : Bool) :
    djVisit (.compare (if negated then .ne else .eq) (idE c) (.lit .null [])) =
      .ok (on1 (if negated then "notnull" else "isnull") (.col [c]), .cond) := by
  rw [djVisit, visit_ident]
  cases negated <;> rfl

theorem visit_list (xs) : djVisit (.list xs) = (djVisitList xs).bind (fun items =>
    .ok (.node "list" (OTrees.ofList items), .list)) := by
  rw [djVisit]; rfl
theorem visitList_nil : djVisitList .nil = .ok [] := by rw [djVisitList]
theorem visitList_cons (h t) : djVisitList (.cons h t) = (djVisit h).bind (fun p => (djVisitList t).bind (fun rest =>
    .ok (p.1 :: rest))) := by
  rw [djVisitList]; rfl

theorem key_length : String.ofList (pyLower (funcKey ⟨"length".toList, []⟩)) = "length" := by decide
theorem key_tolower : String.ofList (pyLower (funcKey ⟨"tolower".toList, []⟩)) = "tolower" := by decide
theorem key_toupper : String.ofList (pyLower (funcKey ⟨"toupper".toList, []⟩)) = "toupper" := by decide
theorem key_trim : String.ofList (pyLower (funcKey ⟨"trim".toList, []⟩)) = "trim" := by decide
theorem key_indexof : String.ofList (pyLower (funcKey ⟨"indexof".toList, []⟩)) = "indexof" := by decide
theorem key_concat : String.ofList (pyLower (funcKey ⟨"concat".toList, []⟩)) = "concat" := by decide
theorem key_substring : String.ofList (pyLower (funcKey ⟨"substring".toList, []⟩)) = "substring" := by decide
theorem key_contains : String.ofList (pyLower (funcKey ⟨"contains".toList, []⟩)) = "contains" := by decide
theorem key_startswith : String.ofList (pyLower (funcKey ⟨"startswith".toList, []⟩)) = "startswith" := by decide
theorem key_endswith : String.ofList (pyLower (funcKey ⟨"endswith".toList, []⟩)) = "endswith" := by decide

/-- the embedded terms are never named parameters (`f(x=1)`): the arguments of the calls the typed grammar builds
    bind positionally -/
theorem hasNamed_I (e : IntE) (t : Exprs) : hasNamedArg (.cons e.toExpr t) = hasNamedArg t := by
  cases e <;> rw [IntE.toExpr] <;> (try rw [idE]) <;> rw [hasNamedArg] <;> (intro _ _ h; cases h)
theorem hasNamed_S (e : StrE) (t : Exprs) : hasNamedArg (.cons e.toExpr t) = hasNamedArg t := by
  cases e <;> rw [StrE.toExpr] <;> (try rw [idE]) <;> rw [hasNamedArg] <;> (intro _ _ h; cases h)

theorem visit_length (a : StrE) : djVisit (.call ⟨"length".toList, []⟩ (.cons a.toExpr .nil)) =
    (djVisit a.toExpr).bind (fun p => .ok (on1 "Length" p.1, .expr)) := by
  rw [djVisit]; simp only [key_length, hasNamed_S, hasNamedArg]; rw [djFunc]; rfl
theorem visit_tolower (a : StrE) : djVisit (.call ⟨"tolower".toList, []⟩ (.cons a.toExpr .nil)) =
    (djVisit a.toExpr).bind (fun p => .ok (on1 "Lower" p.1, .expr)) := by
  rw [djVisit]; simp only [key_tolower, hasNamed_S, hasNamedArg]; rw [djFunc]; rfl
theorem visit_toupper (a : StrE) : djVisit (.call ⟨"toupper".toList, []⟩ (.cons a.toExpr .nil)) =
    (djVisit a.toExpr).bind (fun p => .ok (on1 "Upper" p.1, .expr)) := by
  rw [djVisit]; simp only [key_toupper, hasNamed_S, hasNamedArg]; rw [djFunc]; rfl
theorem visit_trim (a : StrE) : djVisit (.call ⟨"trim".toList, []⟩ (.cons a.toExpr .nil)) =
    (djVisit a.toExpr).bind (fun p => .ok (on1 "Trim" p.1, .expr)) := by
  rw [djVisit]; simp only [key_trim, hasNamed_S, hasNamedArg]; rw [djFunc]; rfl
theorem visit_indexof (a b : StrE) : djVisit (.call ⟨"indexof".toList, []⟩ (.cons a.toExpr (.cons b.toExpr .nil))) =
    (djVisit a.toExpr).bind (fun p => (djVisit b.toExpr).bind (fun q =>
      .ok (on2 "-" (on2 "StrIndex" p.1 q.1) (.pint 1), .expr))) := by
  rw [djVisit]; simp only [key_indexof, hasNamed_S, hasNamedArg]; rw [djFunc]; rfl
theorem visit_concat (a b : StrE) : djVisit (.call ⟨"concat".toList, []⟩ (.cons a.toExpr (.cons b.toExpr .nil))) =
    (djVisit a.toExpr).bind (fun p => (djVisit b.toExpr).bind (fun q => .ok (on2 "Concat" p.1 q.1, .expr))) := by
  rw [djVisit]; simp only [key_concat, hasNamed_S, hasNamedArg]; rw [djFunc]
  rw [djVisitList, djVisitList, djVisitList]
  cases djVisit a.toExpr with
  | ok p =>
    cases djVisit b.toExpr with
    | ok q => rfl
    | _ => rfl
  | _ => rfl
theorem visit_substring2 (a : StrE) (b : IntE) : djVisit (.call ⟨"substring".toList, []⟩ (.cons a.toExpr (.cons b.toExpr .nil))) =
    (djVisit a.toExpr).bind (fun p => (djVisit b.toExpr).bind (fun q =>
      .ok (on2 "Substr" p.1 (on2 "+" q.1 (.pint 1)), .expr))) := by
  rw [djVisit]; simp only [key_substring, hasNamed_S, hasNamed_I, hasNamedArg]; rw [djFunc]; rfl
theorem visit_substring3 (a : StrE) (b c : IntE) :
    djVisit (.call ⟨"substring".toList, []⟩ (.cons a.toExpr (.cons b.toExpr (.cons c.toExpr .nil)))) =
    (djVisit a.toExpr).bind (fun p => (djVisit b.toExpr).bind (fun q => (djVisit c.toExpr).bind (fun r =>
      .ok (on3 "Substr" p.1 (on2 "+" q.1 (.pint 1)) r.1, .expr)))) := by
  rw [djVisit]; simp only [key_substring, hasNamed_S, hasNamed_I, hasNamedArg]; rw [djFunc]; rfl
theorem visit_contains (a b : StrE) : djVisit (.call ⟨"contains".toList, []⟩ (.cons a.toExpr (.cons b.toExpr .nil))) =
    (substrTypecheck a.toExpr b.toExpr).bind (fun _ => (djVisit a.toExpr).bind (fun p => (djVisit b.toExpr).bind (fun q =>
      .ok (on2 "contains" p.1 q.1, .cond)))) := by
  rw [djVisit]; simp only [key_contains, hasNamed_S, hasNamedArg]; rw [djFunc]; rfl
theorem visit_startswith (a b : StrE) : djVisit (.call ⟨"startswith".toList, []⟩ (.cons a.toExpr (.cons b.toExpr .nil))) =
    (substrTypecheck a.toExpr b.toExpr).bind (fun _ => (djVisit a.toExpr).bind (fun p => (djVisit b.toExpr).bind (fun q =>
      .ok (on2 "startswith" p.1 q.1, .cond)))) := by
  rw [djVisit]; simp only [key_startswith, hasNamed_S, hasNamedArg]; rw [djFunc]; rfl
theorem visit_endswith (a b : StrE) : djVisit (.call ⟨"endswith".toList, []⟩ (.cons a.toExpr (.cons b.toExpr .nil))) =
    (substrTypecheck a.toExpr b.toExpr).bind (fun _ => (djVisit a.toExpr).bind (fun p => (djVisit b.toExpr).bind (fun q =>
      .ok (on2 "endswith" p.1 q.1, .cond)))) := by
  rw [djVisit]; simp only [key_endswith, hasNamed_S, hasNamedArg]; rw [djFunc]; rfl
theorem visit_like (k : LikeK) (a b : StrE) : djVisit (.call ⟨k.name.toList, []⟩ (.cons a.toExpr (.cons b.toExpr .nil))) =
    (substrTypecheck a.toExpr b.toExpr).bind (fun _ => (djVisit a.toExpr).bind (fun p => (djVisit b.toExpr).bind (fun q =>
      .ok (on2 k.name p.1 q.1, .cond)))) := by
  cases k
  · exact visit_contains a b
  · exact visit_startswith a b
  · exact visit_endswith a b

/-! ### equations of `djSql` -/
def bin2 (o : Str) : Option SqlTree → Option SqlTree → Option SqlTree
  | some x, some y => some (.bin o x y)
  | _, _ => none
def like2 (k : LikeK) : Option SqlTree → Option SqlTree → Option SqlTree
  | some x, some y => some (.like x (catPat (preOf k) (sufOf k) (djEscape y)) (some ['\\']))
  | _, _ => none

/-- the last two-argument case of `djSql` -/
def gen2 (op : String) : Option SqlTree → Option SqlTree → Option SqlTree
  | some x, some y =>
      (match likePre op with
       | some (pre, suf) => some (.like x (catPat pre suf (djEscape y)) (some ['\\']))
       | none => (binName op).map (fun o => .bin o x y))
  | _, _ => none

theorem gen2_bin (op : String) (o : Str) (h1 : likePre op = none) (h2 : binName op = some o) (x y) :
    gen2 op x y = bin2 o x y := by
  cases x <;> cases y <;> simp [gen2, bin2, h1, h2]
theorem gen2_like (op : String) (k : LikeK) (h1 : likePre op = some (preOf k, sufOf k)) (x y) :
    gen2 op x y = like2 k x y := by
  cases x <;> cases y <;> simp [gen2, like2, h1]

theorem sql_col (c : Str) : djSql (.col [c]) = some (.col none c) := rfl
theorem sql_param (k v) : djSql (.param k v) = paramTree k v := rfl
theorem sql_pint1 : djSql (.pint 1) = some (.num ['1']) := by decide
theorem sql_isnull (a) : djSql (on1 "isnull" a) = (djSql a).map (fun x => .bin (S "IS") x (.kw (S "NULL"))) := rfl
theorem sql_notnull (a) : djSql (on1 "notnull" a) = (djSql a).map (fun x => .bin (S "ISNOT") x (.kw (S "NULL"))) := rfl
theorem sql_not (a) : djSql (on1 "not" a) = (djSql a).map (fun x => .un (S "NOT") x) := rfl
theorem sql_length (a) : djSql (on1 "Length" a) = (djSql a).map (fun x => .call (S "LENGTH") (one x)) := rfl
theorem sql_lower (a) : djSql (on1 "Lower" a) = (djSql a).map (fun x => .call (S "LOWER") (one x)) := rfl
theorem sql_upper (a) : djSql (on1 "Upper" a) = (djSql a).map (fun x => .call (S "UPPER") (one x)) := rfl
theorem sql_trim (a) : djSql (on1 "Trim" a) = (djSql a).map (fun x => .call (S "TRIM") (one x)) := rfl
theorem sql_in (a items) : djSql (on2 "in" a (.node "list" items)) =
    (match djSql a, djSqlList items with
     | some x, some xs => some (.inl x xs)
     | _, _ => none) := rfl
theorem sql_concat (a b) : djSql (on2 "Concat" a b) =
    (match djSql a, djSql b with
     | some x, some y =>
         some (.bin (S "||") (.call (S "COALESCE") (two x (.str []))) (.call (S "COALESCE") (two y (.str []))))
     | _, _ => none) := rfl
theorem sql_strindex (a b) : djSql (on2 "StrIndex" a b) =
    (match djSql a, djSql b with
     | some x, some y => some (.call (S "INSTR") (two x y))
     | _, _ => none) := rfl
theorem sql_substr2 (a b) : djSql (on2 "Substr" a b) =
    (match djSql a, djSql b with
     | some x, some y => some (.call (S "SUBSTR") (two x y))
     | _, _ => none) := rfl
theorem sql_substr3 (a b c) : djSql (on3 "Substr" a b c) =
    (match djSql a, djSql b, djSql c with
     | some x, some y, some z => some (.call (S "SUBSTR") (three x y z))
     | _, _, _ => none) := rfl
theorem sqlList_nil : djSqlList .nil = some .nil := rfl
theorem sqlList_cons (h t) : djSqlList (.cons h t) =
    (match djSql h, djSqlList t with
     | some x, some xs => some (.cons x xs)
     | _, _ => none) := rfl

theorem sql_div (a b) : djSql (on2 "/" a b) = bin2 (S "/") (djSql a) (djSql b) := by
  have h : djSql (on2 "/" a b) = (match djSql a, djSql b with
     | some x, some y => some (.bin (S "/") x y)
     | _, _ => none) := rfl
  rw [h]; cases djSql a <;> cases djSql b <;> rfl
theorem sql_add (a b) : djSql (on2 "+" a b) = bin2 (S "+") (djSql a) (djSql b) := by
  have h : djSql (on2 "+" a b) = gen2 "+" (djSql a) (djSql b) := rfl
  rw [h]; exact gen2_bin "+" _ rfl rfl _ _
theorem sql_sub (a b) : djSql (on2 "-" a b) = bin2 (S "-") (djSql a) (djSql b) := by
  have h : djSql (on2 "-" a b) = gen2 "-" (djSql a) (djSql b) := rfl
  rw [h]; exact gen2_bin "-" _ rfl rfl _ _
theorem sql_mul (a b) : djSql (on2 "*" a b) = bin2 (S "*") (djSql a) (djSql b) := by
  have h : djSql (on2 "*" a b) = gen2 "*" (djSql a) (djSql b) := rfl
  rw [h]; exact gen2_bin "*" _ rfl rfl _ _
theorem sql_mod (a b) : djSql (on2 "%" a b) = bin2 (S "%") (djSql a) (djSql b) := by
  have h : djSql (on2 "%" a b) = gen2 "%" (djSql a) (djSql b) := rfl
  rw [h]; exact gen2_bin "%" _ rfl rfl _ _
theorem sql_arith (op : ArithOp) (a b) :
    djSql (on2 (OQ.arithName op) a b) = bin2 (Spec.arithName op) (djSql a) (djSql b) := by
  cases op
  · exact sql_add a b
  · exact sql_sub a b
  · exact sql_mul a b
  · exact sql_div a b
  · exact sql_mod a b

/-- the operator Django's lookups compile to -/
def djCmp : CmpK → Str
  | .eq => S "=" | .ne => S "<>" | .lt => S "<" | .le => S "<=" | .gt => S ">" | .ge => S ">="

theorem sql_exact (a b) : djSql (on2 "exact" a b) = bin2 (S "=") (djSql a) (djSql b) := by
  have h : djSql (on2 "exact" a b) = gen2 "exact" (djSql a) (djSql b) := rfl
  rw [h]; exact gen2_bin "exact" _ rfl rfl _ _
theorem sql_ne (a b) : djSql (on2 "ne" a b) = bin2 (S "<>") (djSql a) (djSql b) := by
  have h : djSql (on2 "ne" a b) = gen2 "ne" (djSql a) (djSql b) := rfl
  rw [h]; exact gen2_bin "ne" _ rfl rfl _ _
theorem sql_lt (a b) : djSql (on2 "lt" a b) = bin2 (S "<") (djSql a) (djSql b) := by
  have h : djSql (on2 "lt" a b) = gen2 "lt" (djSql a) (djSql b) := rfl
  rw [h]; exact gen2_bin "lt" _ rfl rfl _ _
theorem sql_lte (a b) : djSql (on2 "lte" a b) = bin2 (S "<=") (djSql a) (djSql b) := by
  have h : djSql (on2 "lte" a b) = gen2 "lte" (djSql a) (djSql b) := rfl
  rw [h]; exact gen2_bin "lte" _ rfl rfl _ _
theorem sql_gt (a b) : djSql (on2 "gt" a b) = bin2 (S ">") (djSql a) (djSql b) := by
  have h : djSql (on2 "gt" a b) = gen2 "gt" (djSql a) (djSql b) := rfl
  rw [h]; exact gen2_bin "gt" _ rfl rfl _ _
theorem sql_gte (a b) : djSql (on2 "gte" a b) = bin2 (S ">=") (djSql a) (djSql b) := by
  have h : djSql (on2 "gte" a b) = gen2 "gte" (djSql a) (djSql b) := rfl
  rw [h]; exact gen2_bin "gte" _ rfl rfl _ _
theorem sql_cmp (k : CmpK) (a b) :
    djSql (on2 (cmpLookup k.toOp) a b) = bin2 (djCmp k) (djSql a) (djSql b) := by
  cases k
  · exact sql_exact a b
  · exact sql_ne a b
  · exact sql_lt a b
  · exact sql_lte a b
  · exact sql_gt a b
  · exact sql_gte a b
theorem sql_and (a b) : djSql (on2 "and" a b) = bin2 (S "AND") (djSql a) (djSql b) := by
  have h : djSql (on2 "and" a b) = gen2 "and" (djSql a) (djSql b) := rfl
  rw [h]; exact gen2_bin "and" _ rfl rfl _ _
theorem sql_or (a b) : djSql (on2 "or" a b) = bin2 (S "OR") (djSql a) (djSql b) := by
  have h : djSql (on2 "or" a b) = gen2 "or" (djSql a) (djSql b) := rfl
  rw [h]; exact gen2_bin "or" _ rfl rfl _ _

theorem sql_contains (a b) : djSql (on2 "contains" a b) = like2 .contains (djSql a) (djSql b) := by
  have h : djSql (on2 "contains" a b) = gen2 "contains" (djSql a) (djSql b) := rfl
  rw [h]; exact gen2_like "contains" _ rfl _ _
theorem sql_startswith (a b) : djSql (on2 "startswith" a b) = like2 .startswith (djSql a) (djSql b) := by
  have h : djSql (on2 "startswith" a b) = gen2 "startswith" (djSql a) (djSql b) := rfl
  rw [h]; exact gen2_like "startswith" _ rfl _ _
theorem sql_endswith (a b) : djSql (on2 "endswith" a b) = like2 .endswith (djSql a) (djSql b) := by
  have h : djSql (on2 "endswith" a b) = gen2 "endswith" (djSql a) (djSql b) := rfl
  rw [h]; exact gen2_like "endswith" _ rfl _ _
theorem sql_like (k : LikeK) (a b) : djSql (on2 k.name a b) = like2 k (djSql a) (djSql b) := by
  cases k
  · exact sql_contains a b
  · exact sql_startswith a b
  · exact sql_endswith a b

/-! ### evaluation of the nodes only Django emits -/
section
variable (ρ : Row)

theorem paramTree_neg (ds : Str) (h : asciiDigits ds = true) :
    paramTree .int ('-' :: ds) = some (.un ['-'] (.num ds)) := by
  simp only [asciiDigits] at h
  simp [paramTree, h]
theorem paramTree_pos (ds : Str) (h : asciiDigits ds = true) : paramTree .int ds = some (.num ds) := by
  cases ds with
  | nil => simp [asciiDigits] at h
  | cons c t =>
    have hc : isDig c = true := by
      simp only [asciiDigits, Bool.and_eq_true, List.all_cons] at h
      exact h.2.1
    simp only [asciiDigits] at h
    simp only [paramTree]
    split
    · rename_i heq
      cases heq
      exact absurd hc (by decide)
    · simp only [h]; rfl

theorem eval_paramInt (neg : Bool) (ds : Str) (h : asciiDigits ds = true) :
    ∃ s, paramTree .int (if neg then '-' :: ds else ds) = some s ∧
      sqlEval ρ s = some (.int (if neg then -(Spec.natOfDigits ds : Int) else Spec.natOfDigits ds)) := by
  cases neg
  · refine ⟨.num ds, by simpa using paramTree_pos ds h, ?_⟩
    simp only [Bool.false_eq_true, if_false]
    exact eval_num ρ ds h
  · refine ⟨.un ['-'] (.num ds), by simpa using paramTree_neg ds h, ?_⟩
    simp only [if_true]
    rw [sqlEval, eval_num ρ ds h]
    simp [sx]

theorem eval_paramBool (b : Bool) :
    ∃ s, paramTree .bool (if b then "true".toList else "false".toList) = some s ∧
      sqlEval ρ s = some (v3ToVal (V3.ofBool b)) := by
  cases b
  · exact ⟨.num ['0'], by decide, eval_boolLit ρ false⟩
  · exact ⟨.num ['1'], by decide, eval_boolLit ρ true⟩

theorem eval_djcmp (k : CmpK) (l r : SqlTree) (a b : SqlVal) (hl : sqlEval ρ l = some a) (hr : sqlEval ρ r = some b) :
    sqlEval ρ (.bin (djCmp k) l r) = cmpVals (cmpName k.toOp) a b := by
  cases k
  case ne =>
    rw [sqlEval, hl, hr]
    have : cmpVals (djCmp .ne) a b = cmpVals (cmpName CmpK.ne.toOp) a b := rfl
    rw [← this]
    simp [djCmp, S, sx, isCmpOp, cmpOps]
  case eq => exact eval_cmp ρ .eq l r a b hl hr
  case lt => exact eval_cmp ρ .lt l r a b hl hr
  case le => exact eval_cmp ρ .le l r a b hl hr
  case gt => exact eval_cmp ρ .gt l r a b hl hr
  case ge => exact eval_cmp ρ .ge l r a b hl hr

theorem eval_coalesce (t : SqlTree) (x : Str) (h : sqlEval ρ t = some (.text x)) :
    sqlEval ρ (.call (S "COALESCE") (two t (.str []))) = some (.text x) := by
  rw [sqlEval, evalList_two ρ _ _ _ _ h (eval_str ρ _)]
  simp [S, sx]

theorem eval_concat_dj (t0 t1 : SqlTree) (x y : Str)
    (h0 : sqlEval ρ t0 = some (.text x)) (h1 : sqlEval ρ t1 = some (.text y)) :
    sqlEval ρ (.bin (S "||") (.call (S "COALESCE") (two t0 (.str []))) (.call (S "COALESCE") (two t1 (.str [])))) =
      some (.text (x ++ y)) :=
  eval_concat ρ _ _ (some x) (some y) (eval_coalesce ρ t0 x h0) (eval_coalesce ρ t1 y h1)

end

/-! ### the REPLACE chain and LIKE -/
def esc1 (c : Char) (r : Str) (s : Str) : Str := s.flatMap (fun x => if x == c then r else [x])

theorem esc1_append (c r a b) : esc1 c r (a ++ b) = esc1 c r a ++ esc1 c r b := by
  simp [esc1, List.flatMap_append]
theorem esc1_cons (c r x t) : esc1 c r (x :: t) = (if x == c then r else [x]) ++ esc1 c r t := by
  simp [esc1, List.flatMap_cons]

theorem replaceChain (y : Str) :
    esc1 '_' ['\\', '_'] (esc1 '%' ['\\', '%'] (esc1 '\\' ['\\', '\\'] y)) = likeLit y := by
  induction y with
  | nil => rfl
  | cons c t ih =>
    rw [esc1_cons, esc1_append, esc1_append, ih, likeLit]
    by_cases h1 : c = '\\'
    · subst h1; rfl
    · by_cases h2 : c = '%'
      · subst h2; rfl
      · by_cases h3 : c = '_'
        · subst h3; rfl
        · simp [esc1, h1, h2, h3]

section
variable (ρ : Row)
theorem eval_replace (t : SqlTree) (c : Char) (r : Str) (y : Option Str) (h : sqlEval ρ t = some (valS y)) :
    sqlEval ρ (.call (S "REPLACE") (three t (.str [c]) (.str r))) = some (valS (y.map (esc1 c r))) := by
  rw [sqlEval, evalList_three ρ _ _ _ _ _ _ h (eval_str ρ _) (eval_str ρ _)]
  cases y <;> simp [S, sx, esc1]

theorem eval_escape (t : SqlTree) (y : Option Str) (h : sqlEval ρ t = some (valS y)) :
    sqlEval ρ (djEscape t) = some (valS (y.map likeLit)) := by
  have h1 := eval_replace ρ t '\\' ['\\', '\\'] y h
  have h2 := eval_replace ρ _ '%' ['\\', '%'] _ h1
  have h3 := eval_replace ρ _ '_' ['\\', '_'] _ h2
  have : sqlEval ρ (djEscape t) = _ := h3
  rw [this]
  cases y with
  | none => rfl
  | some s => simp only [Option.map_some, replaceChain]

theorem eval_catPat (k : LikeK) (t : SqlTree) (z : Option Str) (h : sqlEval ρ t = some (valS z)) :
    sqlEval ρ (catPat (preOf k) (sufOf k) t) = some (valS (z.map (fun s => preOf k ++ s ++ sufOf k))) := by
  cases k
  · have h2 := eval_concat ρ (.str ['%']) t (some ['%']) z (eval_str ρ _) h
    have h3 := eval_concat ρ _ (.str ['%']) _ (some ['%']) h2 (eval_str ρ _)
    have : sqlEval ρ (catPat (preOf .contains) (sufOf .contains) t) = _ := h3
    rw [this]
    cases z <;> simp [lift2, preOf, sufOf]
  · have h3 := eval_concat ρ t (.str ['%']) z (some ['%']) h (eval_str ρ _)
    have : sqlEval ρ (catPat (preOf .startswith) (sufOf .startswith) t) = _ := h3
    rw [this]
    cases z <;> simp [lift2, preOf, sufOf]
  · have h2 := eval_concat ρ (.str ['%']) t (some ['%']) z (eval_str ρ _) h
    have : sqlEval ρ (catPat (preOf .endswith) (sufOf .endswith) t) = _ := h2
    rw [this]
    cases z <;> simp [lift2, preOf, sufOf]

theorem eval_like_dj (k : LikeK) (t0 t1 : SqlTree) (x y : Option Str)
    (h0 : sqlEval ρ t0 = some (valS x)) (h1 : sqlEval ρ t1 = some (valS y)) :
    sqlEval ρ (.like t0 (catPat (preOf k) (sufOf k) (djEscape t1)) (some ['\\'])) =
      some (v3ToVal (cmp2 (likeCI k) x y)) := by
  rw [sqlEval, h0, eval_catPat ρ k _ _ (eval_escape ρ t1 y h1)]
  cases x with
  | none => cases y <;> simp [cmp2, v3ToVal]
  | some h =>
    cases y with
    | none => simp [cmp2, v3ToVal]
    | some n =>
      simp only [valS_some, Option.map_some, cmp2, v3ToVal_ofBool]
      rw [sqliteLike_lit_esc k h n]
end

end OQ.DjangoSound
