import ODataVerif.Props.C14
set_option linter.unusedSimpArgs false
set_option linter.unusedVariables false
namespace OQ.AliasBij
open OQ OQ.Spec OQ.C14

/-! ### shapes of field lists -/

/-- the shape of a field list as far as the rewriter's `match`es look at it:
    1 = `[_, str]`, 2 = `[_, list]`, 3 = any other pair, 0 = everything else -/
def shp : TreeList → Nat
  | .cons _ (.cons (.str _) .nil) => 1
  | .cons _ (.cons (.list _) .nil) => 2
  | .cons _ (.cons _ .nil) => 3
  | _ => 0

def isNode : Tree → Bool
  | .node _ _ => true
  | _ => false

/-! ### equation lemmas for `subst` -/

theorem subst_ident (m : List (Tree × Tree)) (b : List Tree) (fs : TreeList) :
    subst m b (.node "Identifier" fs) =
      if Tree.node "Identifier" fs ∈ b then .node "Identifier" fs
      else (lookupRepl m (.node "Identifier" fs)).getD (.node "Identifier" fs) := by
  conv => lhs; unfold subst
  by_cases hc : Tree.node "Identifier" fs ∈ b
  · simp [hc]
  · cases hl : lookupRepl m (.node "Identifier" fs) <;> simp [hc, hl]

theorem subst_attr (m : List (Tree × Tree)) (b : List Tree) (o : Tree) (a : Str) :
    subst m b (.node "Attribute" (.cons o (.cons (.str a) .nil))) =
      if rootOf o ∈ b then .node "Attribute" (.cons o (.cons (.str a) .nil))
      else (lookupRepl m (.node "Attribute" (.cons o (.cons (.str a) .nil)))).getD (mkAttr (subst m b o) a) := by
  conv => lhs; unfold subst
  by_cases hc : rootOf o ∈ b
  · simp [hc]
  · cases hl : lookupRepl m (.node "Attribute" (.cons o (.cons (.str a) .nil))) <;> simp [hc, hl]

theorem subst_attr_gen (m : List (Tree × Tree)) (b : List Tree) (fs : TreeList) (h : shp fs ≠ 1) :
    subst m b (.node "Attribute" fs) = .node "Attribute" (substFields m b fs) := by
  conv => lhs; unfold subst
  simp only [reduceCtorEq, String.reduceEq, if_false, if_true]
  split
  · simp [shp] at h
  · rfl

theorem subst_call (m : List (Tree × Tree)) (b : List Tree) (f : Tree) (args : TreeList) :
    subst m b (.node "Call" (.cons f (.cons (.list args) .nil))) =
      .node "Call" (.cons f (.cons (.list (substItems m b args)) .nil)) := by
  conv => lhs; unfold subst
  simp

theorem subst_call_gen (m : List (Tree × Tree)) (b : List Tree) (fs : TreeList) (h : shp fs ≠ 2) :
    subst m b (.node "Call" fs) = .node "Call" (substFields m b fs) := by
  conv => lhs; unfold subst
  simp only [reduceCtorEq, String.reduceEq, if_false, if_true]
  split
  · simp [shp] at h
  · rfl

theorem subst_named (m : List (Tree × Tree)) (b : List Tree) (n p : Tree) :
    subst m b (.node "NamedParam" (.cons n (.cons p .nil))) =
      .node "NamedParam" (.cons n (.cons (subst m b p) .nil)) := by
  conv => lhs; unfold subst
  simp

theorem shp_pair (x y : Tree) : shp (.cons x (.cons y .nil)) ≠ 0 := by
  cases y <;> simp [shp]

theorem subst_named_gen (m : List (Tree × Tree)) (b : List Tree) (fs : TreeList) (h : shp fs = 0) :
    subst m b (.node "NamedParam" fs) = .node "NamedParam" (substFields m b fs) := by
  conv => lhs; unfold subst
  simp only [reduceCtorEq, String.reduceEq, if_false, if_true]
  split
  · exact absurd h (shp_pair _ _)
  · rfl

theorem subst_lambda (m : List (Tree × Tree)) (b : List Tree) (i body : Tree) :
    subst m b (.node "Lambda" (.cons i (.cons body .nil))) =
      .node "Lambda" (.cons i (.cons (subst m (i :: b) body) .nil)) := by
  conv => lhs; unfold subst
  simp

theorem subst_lambda_gen (m : List (Tree × Tree)) (b : List Tree) (fs : TreeList) (h : shp fs = 0) :
    subst m b (.node "Lambda" fs) = .node "Lambda" (substFields m b fs) := by
  conv => lhs; unfold subst
  simp only [reduceCtorEq, String.reduceEq, if_false, if_true]
  split
  · exact absurd h (shp_pair _ _)
  · rfl

theorem subst_other (m : List (Tree × Tree)) (b : List Tree) (k : String) (fs : TreeList)
    (h1 : ¬ k = "Identifier") (h2 : ¬ k = "Attribute") (h3 : ¬ k = "Call") (h4 : ¬ k = "NamedParam")
    (h5 : ¬ k = "Lambda") :
    subst m b (.node k fs) = .node k (substFields m b fs) := by
  conv => lhs; unfold subst
  simp [h1, h2, h3, h4, h5]


theorem subst_nonnode (m : List (Tree × Tree)) (b : List Tree) (t : Tree) (h : isNode t = false) :
    subst m b t = t := by
  cases t <;> simp [subst, isNode] at h ⊢

/-! ### shape inversion -/

theorem shp_eq_one {fs : TreeList} (h : shp fs = 1) : ∃ o a, fs = .cons o (.cons (.str a) .nil) := by
  unfold shp at h
  split at h <;> simp at h
  exact ⟨_, _, rfl⟩

theorem shp_eq_two {fs : TreeList} (h : shp fs = 2) : ∃ f args, fs = .cons f (.cons (.list args) .nil) := by
  unfold shp at h
  split at h <;> simp at h
  exact ⟨_, _, rfl⟩

theorem shp_ne_zero {fs : TreeList} (h : shp fs ≠ 0) : ∃ x y, fs = .cons x (.cons y .nil) := by
  unfold shp at h
  split at h <;> simp at h
  all_goals exact ⟨_, _, rfl⟩

/-! ### tables of identifiers -/

/-- every key and every value of the table is an un-namespaced identifier -/
def IdentTable (m : List (Tree × Tree)) : Prop := ∀ kv ∈ m, ∃ s s', kv = (mkIdent s, mkIdent s')

theorem lookup_some_mem (m : List (Tree × Tree)) (n r : Tree) (h : lookupRepl m n = some r) : (n, r) ∈ m := by
  induction m with
  | nil => simp [lookupRepl] at h
  | cons kv rest ih =>
      obtain ⟨k, v⟩ := kv
      simp only [lookupRepl] at h
      cases hl : lookupRepl rest n with
      | some v' =>
          rw [hl] at h
          simp only [Option.some.injEq] at h
          subst h
          exact List.mem_cons_of_mem _ (ih hl)
      | none =>
          rw [hl] at h
          by_cases hk : k = n
          · simp [hk] at h
            subst hk; subst h
            exact List.mem_cons_self ..
          · simp [hk] at h

theorem lookup_ident {m : List (Tree × Tree)} (hm : IdentTable m) {n r : Tree} (h : lookupRepl m n = some r) :
    ∃ s s', n = mkIdent s ∧ r = mkIdent s' := by
  obtain ⟨s, s', e⟩ := hm _ (lookup_some_mem m n r h)
  simp only [Prod.mk.injEq] at e
  exact ⟨s, s', e.1, e.2⟩

theorem lookup_attr_none {m : List (Tree × Tree)} (hm : IdentTable m) (fs : TreeList) :
    lookupRepl m (.node "Attribute" fs) = none := by
  cases hl : lookupRepl m (.node "Attribute" fs) with
  | none => rfl
  | some r =>
      obtain ⟨s, s', e, _⟩ := lookup_ident hm hl
      simp [mkIdent] at e

theorem subst_isNode {m : List (Tree × Tree)} (hm : IdentTable m) (b : List Tree) (k : String) (fs : TreeList) :
    isNode (subst m b (.node k fs)) = true := by
  by_cases h1 : k = "Identifier"
  · subst h1
    rw [subst_ident]
    split
    · rfl
    · cases hl : lookupRepl m (.node "Identifier" fs) with
      | none => rfl
      | some r =>
          obtain ⟨s, s', _, e⟩ := lookup_ident hm hl
          simp [e, mkIdent, isNode]
  by_cases h2 : k = "Attribute"
  · subst h2
    by_cases hs : shp fs = 1
    · obtain ⟨o, a, rfl⟩ := shp_eq_one hs
      rw [subst_attr, lookup_attr_none hm]
      split <;> simp [isNode, mkAttr]
    · rw [subst_attr_gen _ _ _ hs]; rfl
  by_cases h3 : k = "Call"
  · subst h3
    by_cases hs : shp fs = 2
    · obtain ⟨f, args, rfl⟩ := shp_eq_two hs
      rw [subst_call]; rfl
    · rw [subst_call_gen _ _ _ hs]; rfl
  by_cases h4 : k = "NamedParam"
  · subst h4
    by_cases hs : shp fs = 0
    · rw [subst_named_gen _ _ _ hs]; rfl
    · obtain ⟨x, y, rfl⟩ := shp_ne_zero hs
      rw [subst_named]; rfl
  by_cases h5 : k = "Lambda"
  · subst h5
    by_cases hs : shp fs = 0
    · rw [subst_lambda_gen _ _ _ hs]; rfl
    · obtain ⟨x, y, rfl⟩ := shp_ne_zero hs
      rw [subst_lambda]; rfl
  rw [subst_other _ _ _ _ h1 h2 h3 h4 h5]; rfl

theorem isNode_shape {t : Tree} (h : isNode t = true) : ∃ k fs, t = .node k fs := by
  cases t <;> simp [isNode] at h
  exact ⟨_, _, rfl⟩

/-! ### `substFields` element by element -/

def substElem (m : List (Tree × Tree)) (b : List Tree) : Tree → Tree
  | .list items => .list (substItems m b items)
  | .node k fs => subst m b (.node k fs)
  | y => y

theorem substFields_cons (m : List (Tree × Tree)) (b : List Tree) (x : Tree) (r : TreeList) :
    substFields m b (.cons x r) = .cons (substElem m b x) (substFields m b r) := by
  cases x <;> simp [substFields, substElem]

theorem shp_substFields {m : List (Tree × Tree)} (hm : IdentTable m) (b : List Tree) :
    (fs : TreeList) → shp (substFields m b fs) = shp fs
  | .nil => by simp [substFields]
  | .cons x .nil => by simp [substFields_cons, substFields, shp]
  | .cons x (.cons y (.cons z r)) => by simp [substFields_cons, shp]
  | .cons x (.cons (.list l) .nil) => by simp [substFields_cons, substFields, substElem, shp]
  | .cons x (.cons (.tuple l) .nil) => by simp [substFields_cons, substFields, substElem, shp]
  | .cons x (.cons (.str l) .nil) => by simp [substFields_cons, substFields, substElem, shp]
  | .cons x (.cons .none .nil) => by simp [substFields_cons, substFields, substElem, shp]
  | .cons x (.cons (.node k fs) .nil) => by
      obtain ⟨k', fs', e⟩ := isNode_shape (subst_isNode hm b k fs)
      simp [substFields_cons, substFields, substElem, shp, e]


/-! ### `scopeOk` equations -/

theorem scopeOk_attr (o : Tree) (a : Str) :
    scopeOk (.node "Attribute" (.cons o (.cons (.str a) .nil))) =
      ((isIdentNode o || isAttr o) && scopeOk o) := by
  conv => lhs; unfold scopeOk
  simp [scopeOkList, scopeOk]

theorem scopeOk_attr_gen (fs : TreeList) (h : shp fs ≠ 1) :
    scopeOk (.node "Attribute" fs) = scopeOkList fs := by
  conv => lhs; unfold scopeOk
  simp only [if_true]
  split
  · simp [shp] at h
  · simp

theorem scopeOk_lambda (i body : Tree) :
    scopeOk (.node "Lambda" (.cons i (.cons body .nil))) = (isIdentNode i && (scopeOk i && scopeOk body)) := by
  conv => lhs; unfold scopeOk
  simp [scopeOkList]

theorem scopeOk_lambda_gen (fs : TreeList) (h : shp fs = 0) :
    scopeOk (.node "Lambda" fs) = scopeOkList fs := by
  conv => lhs; unfold scopeOk
  simp only [String.reduceEq, if_false, if_true]
  split
  · exact absurd h (shp_pair _ _)
  · simp

theorem scopeOk_other (k : String) (fs : TreeList) (h2 : ¬ k = "Attribute") (h5 : ¬ k = "Lambda") :
    scopeOk (.node k fs) = scopeOkList fs := by
  conv => lhs; unfold scopeOk
  simp [h2, h5]

theorem occurs_ne {k t : Tree} (h : occurs k t = false) (hn : isNode t = true) : ¬ k = t := by
  obtain ⟨kind, fs, rfl⟩ := isNode_shape hn
  intro e
  subst e
  simp [occurs] at h

theorem isIdentNode_isNode {t : Tree} (h : isIdentNode t = true) : isNode t = true := by
  obtain ⟨fs, rfl⟩ := isIdentNode_kind h
  rfl

/-! ### paths stay paths, free roots stay free -/

theorem path_subst {m : List (Tree × Tree)} (hm : IdentTable m) (b : List Tree)
    (hv : ∀ n r, lookupRepl m n = some r → r ∉ b) :
    (t : Tree) → scopeOk t = true → (isIdentNode t = true ∨ isAttr t = true) → rootOf t ∉ b →
      (isIdentNode (subst m b t) = true ∨ isAttr (subst m b t) = true) ∧ rootOf (subst m b t) ∉ b
  | .node k fs, hs, hshape, hr => by
      rcases hshape with hi | ha
      · obtain ⟨fs', e⟩ := isIdentNode_kind hi
        cases e
        rw [rootOf_nonAttrKind _ _ (by decide)] at hr
        rw [subst_ident, if_neg hr]
        cases hl : lookupRepl m (.node "Identifier" fs) with
        | none =>
            simp only [Option.getD_none]
            rw [rootOf_nonAttrKind _ _ (by decide)]
            exact ⟨Or.inl hi, hr⟩
        | some r =>
            obtain ⟨s, s', _, e⟩ := lookup_ident hm hl
            have := hv _ _ hl
            subst e
            simp only [Option.getD_some]
            refine ⟨Or.inl (by simp [mkIdent, isIdentNode]), ?_⟩
            have e2 : rootOf (mkIdent s') = mkIdent s' := rootOf_nonAttrKind _ _ (by decide)
            rw [e2]; exact this
      · obtain ⟨o, a, e⟩ := isAttr_shape ha
        cases e
        rw [rootOf_attr] at hr
        rw [scopeOk_attr] at hs
        simp only [Bool.and_eq_true, Bool.or_eq_true] at hs
        have ih := path_subst hm b hv o hs.2 hs.1 hr
        rw [subst_attr, if_neg hr, lookup_attr_none hm, Option.getD_none]
        refine ⟨Or.inr (by simp [mkAttr, isAttr]), ?_⟩
        unfold mkAttr
        rw [rootOf_attr]
        exact ih.2
  | .list _, _, hshape, _ => by simp [isIdentNode, isAttr] at hshape
  | .tuple _, _, hshape, _ => by simp [isIdentNode, isAttr] at hshape
  | .str _, _, hshape, _ => by simp [isIdentNode, isAttr] at hshape
  | .none, _, hshape, _ => by simp [isIdentNode, isAttr] at hshape


/-! ### the round trip on `subst`, under the binders `b` -/

/-- `m'` undoes `m`: both are tables of identifiers and whatever `m` answers, `m'` sends back -/
structure Inverse (m m' : List (Tree × Tree)) : Prop where
  hm : IdentTable m
  hm' : IdentTable m'
  back : ∀ n r, lookupRepl m n = some r → lookupRepl m' r = some n

theorem Inverse.val_fresh {m m' : List (Tree × Tree)} (H : Inverse m m') {b : List Tree}
    (hfb : ∀ kv ∈ m', kv.1 ∉ b) : ∀ n r, lookupRepl m n = some r → r ∉ b := fun n r h =>
  hfb _ (lookup_some_mem _ _ _ (H.back n r h))

mutual
theorem rt {m m' : List (Tree × Tree)} (H : Inverse m m') :
    (t : Tree) → (b : List Tree) → scopeOk t = true → (∀ kv ∈ m', occurs kv.1 t = false) →
      (∀ kv ∈ m', kv.1 ∉ b) → scopeOk (subst m b t) = true ∧ subst m' b (subst m b t) = t
  | .node k fs, b, hs, hocc, hfb => by
      have hsf := scopeOk_fields hs
      have hof : ∀ kv ∈ m', occursList kv.1 fs = false := fun kv hkv => by
        have := hocc kv hkv; simp [occurs] at this; exact this.2
      by_cases h1 : k = "Identifier"
      · subst h1
        rw [subst_ident]
        by_cases hc : Tree.node "Identifier" fs ∈ b
        · rw [if_pos hc, subst_ident, if_pos hc]; exact ⟨hs, rfl⟩
        · rw [if_neg hc]
          cases hl : lookupRepl m (.node "Identifier" fs) with
          | none =>
              simp only [Option.getD_none]
              refine ⟨hs, ?_⟩
              rw [subst_ident, if_neg hc]
              have : lookupRepl m' (.node "Identifier" fs) = none :=
                lookup_none_of_absent m' _ (fun kv hkv => occurs_ne (hocc kv hkv) rfl)
              rw [this]; rfl
          | some r =>
              obtain ⟨s, s', _, e⟩ := lookup_ident H.hm hl
              have hback := H.back _ _ hl
              have hrb := H.val_fresh hfb _ _ hl
              subst e
              simp only [Option.getD_some]
              refine ⟨by simp [mkIdent, scopeOk, scopeOkList], ?_⟩
              unfold mkIdent at hback hrb ⊢
              rw [subst_ident, if_neg hrb, hback]; rfl
      by_cases h2 : k = "Attribute"
      · subst h2
        by_cases hsh : shp fs = 1
        · obtain ⟨o, a, rfl⟩ := shp_eq_one hsh
          rw [subst_attr]
          by_cases hc : rootOf o ∈ b
          · rw [if_pos hc, subst_attr, if_pos hc]; exact ⟨hs, rfl⟩
          · rw [if_neg hc, lookup_attr_none H.hm, Option.getD_none]
            rw [scopeOk_attr] at hs
            simp only [Bool.and_eq_true, Bool.or_eq_true] at hs
            have ho : ∀ kv ∈ m', occurs kv.1 o = false := fun kv hkv => by
              have := hof kv hkv; simp [occursList] at this; exact this.1
            have ih := rt H o b hs.2 ho hfb
            have hp := path_subst H.hm b (H.val_fresh hfb) o hs.2 hs.1 hc
            unfold mkAttr
            refine ⟨?_, ?_⟩
            · rw [scopeOk_attr]
              simp only [Bool.and_eq_true, Bool.or_eq_true]
              exact ⟨hp.1, ih.1⟩
            · rw [subst_attr, if_neg hp.2, lookup_attr_none H.hm', Option.getD_none, ih.2]; rfl
        · have ihf := rtFields H fs b hsf hof hfb
          have hsh' : shp (substFields m b fs) ≠ 1 := by rw [shp_substFields H.hm]; exact hsh
          rw [subst_attr_gen _ _ _ hsh, subst_attr_gen _ _ _ hsh', ihf.2, scopeOk_attr_gen _ hsh']
          exact ⟨ihf.1, rfl⟩
      by_cases h3 : k = "Call"
      · subst h3
        by_cases hsh : shp fs = 2
        · obtain ⟨f, args, rfl⟩ := shp_eq_two hsh
          have hsa : scopeOk f = true ∧ scopeOkList args = true := by
            simp [scopeOkList, scopeOk] at hsf; exact hsf
          have ha : ∀ kv ∈ m', occursList kv.1 args = false := fun kv hkv => by
            have := hof kv hkv; simp [occursList, occurs] at this; exact this.2
          have ih := rtItems H args b hsa.2 ha hfb
          rw [subst_call, subst_call, ih.2]
          refine ⟨?_, rfl⟩
          rw [scopeOk_other _ _ (by decide) (by decide)]
          simp [scopeOkList, scopeOk, hsa.1, ih.1]
        · have ihf := rtFields H fs b hsf hof hfb
          have hsh' : shp (substFields m b fs) ≠ 2 := by rw [shp_substFields H.hm]; exact hsh
          rw [subst_call_gen _ _ _ hsh, subst_call_gen _ _ _ hsh', ihf.2,
            scopeOk_other _ _ (by decide) (by decide)]
          exact ⟨ihf.1, rfl⟩
      by_cases h4 : k = "NamedParam"
      · subst h4
        by_cases hsh : shp fs = 0
        · have ihf := rtFields H fs b hsf hof hfb
          have hsh' : shp (substFields m b fs) = 0 := by rw [shp_substFields H.hm]; exact hsh
          rw [subst_named_gen _ _ _ hsh, subst_named_gen _ _ _ hsh', ihf.2,
            scopeOk_other _ _ (by decide) (by decide)]
          exact ⟨ihf.1, rfl⟩
        · obtain ⟨n, p, rfl⟩ := shp_ne_zero hsh
          have hsa : scopeOk n = true ∧ scopeOk p = true := by
            simp [scopeOkList] at hsf; exact hsf
          have hp : ∀ kv ∈ m', occurs kv.1 p = false := fun kv hkv => by
            have := hof kv hkv; simp [occursList] at this; exact this.2
          have ih := rt H p b hsa.2 hp hfb
          rw [subst_named, subst_named, ih.2]
          refine ⟨?_, rfl⟩
          rw [scopeOk_other _ _ (by decide) (by decide)]
          simp [scopeOkList, hsa.1, ih.1]
      by_cases h5 : k = "Lambda"
      · subst h5
        by_cases hsh : shp fs = 0
        · have ihf := rtFields H fs b hsf hof hfb
          have hsh' : shp (substFields m b fs) = 0 := by rw [shp_substFields H.hm]; exact hsh
          rw [subst_lambda_gen _ _ _ hsh, subst_lambda_gen _ _ _ hsh', ihf.2, scopeOk_lambda_gen _ hsh']
          exact ⟨ihf.1, rfl⟩
        · obtain ⟨i, body, rfl⟩ := shp_ne_zero hsh
          rw [scopeOk_lambda] at hs
          simp only [Bool.and_eq_true] at hs
          have hoi : ∀ kv ∈ m', occurs kv.1 i = false ∧ occurs kv.1 body = false := fun kv hkv => by
            have := hof kv hkv; simp [occursList] at this; exact this
          have hfb' : ∀ kv ∈ m', kv.1 ∉ i :: b := fun kv hkv hmem => by
            rcases List.mem_cons.mp hmem with e | h
            · exact occurs_ne (hoi kv hkv).1 (isIdentNode_isNode hs.1) e
            · exact hfb kv hkv h
          have ih := rt H body (i :: b) hs.2.2 (fun kv hkv => (hoi kv hkv).2) hfb'
          rw [subst_lambda, subst_lambda, ih.2, scopeOk_lambda]
          simp [hs.1, hs.2.1, ih.1]
      have ihf := rtFields H fs b hsf hof hfb
      rw [subst_other _ _ _ _ h1 h2 h3 h4 h5, subst_other _ _ _ _ h1 h2 h3 h4 h5, ihf.2,
        scopeOk_other _ _ h2 h5]
      exact ⟨ihf.1, rfl⟩
  | .list _, _, hs, _, _ => by simp [subst]; exact hs
  | .tuple _, _, hs, _, _ => by simp [subst]; exact hs
  | .str _, _, hs, _, _ => by simp [subst]; exact hs
  | .none, _, hs, _, _ => by simp [subst]; exact hs
theorem rtFields {m m' : List (Tree × Tree)} (H : Inverse m m') :
    (fs : TreeList) → (b : List Tree) → scopeOkList fs = true → (∀ kv ∈ m', occursList kv.1 fs = false) →
      (∀ kv ∈ m', kv.1 ∉ b) →
      scopeOkList (substFields m b fs) = true ∧ substFields m' b (substFields m b fs) = fs
  | .nil, _, _, _, _ => by simp [substFields, scopeOkList]
  | .cons (.list items) rest, b, hs, hocc, hfb => by
      simp [scopeOkList, scopeOk] at hs
      have h1 : ∀ kv ∈ m', occursList kv.1 items = false := fun kv hkv => by
        have := hocc kv hkv; simp [occursList, occurs] at this; exact this.1
      have h2 : ∀ kv ∈ m', occursList kv.1 rest = false := fun kv hkv => by
        have := hocc kv hkv; simp [occursList, occurs] at this; exact this.2
      have i1 := rtItems H items b hs.1 h1 hfb
      have i2 := rtFields H rest b hs.2 h2 hfb
      simp [substFields, scopeOkList, scopeOk, i1.1, i1.2, i2.1, i2.2]
  | .cons (.node k fs) rest, b, hs, hocc, hfb => by
      simp only [scopeOkList, Bool.and_eq_true] at hs
      have h1 : ∀ kv ∈ m', occurs kv.1 (.node k fs) = false := fun kv hkv => by
        have := hocc kv hkv; simp only [occursList, Bool.or_eq_false_iff] at this; exact this.1
      have h2 : ∀ kv ∈ m', occursList kv.1 rest = false := fun kv hkv => by
        have := hocc kv hkv; simp only [occursList, Bool.or_eq_false_iff] at this; exact this.2
      have i1 := rt H (.node k fs) b hs.1 h1 hfb
      have i2 := rtFields H rest b hs.2 h2 hfb
      obtain ⟨k', fs', e⟩ := isNode_shape (subst_isNode H.hm b k fs)
      rw [e] at i1
      simp only [substFields, e, scopeOkList, Bool.and_eq_true]
      exact ⟨⟨i1.1, i2.1⟩, by rw [i1.2, i2.2]⟩
  | .cons (.tuple _) rest, b, hs, hocc, hfb => by
      simp [scopeOkList, scopeOk] at hs
      have h2 : ∀ kv ∈ m', occursList kv.1 rest = false := fun kv hkv => by
        have := hocc kv hkv; simp [occursList, occurs] at this; exact this
      have i2 := rtFields H rest b hs h2 hfb
      simp [substFields, scopeOkList, scopeOk, i2.1, i2.2]
  | .cons (.str _) rest, b, hs, hocc, hfb => by
      simp [scopeOkList, scopeOk] at hs
      have h2 : ∀ kv ∈ m', occursList kv.1 rest = false := fun kv hkv => by
        have := hocc kv hkv; simp [occursList, occurs] at this; exact this
      have i2 := rtFields H rest b hs h2 hfb
      simp [substFields, scopeOkList, scopeOk, i2.1, i2.2]
  | .cons .none rest, b, hs, hocc, hfb => by
      simp [scopeOkList, scopeOk] at hs
      have h2 : ∀ kv ∈ m', occursList kv.1 rest = false := fun kv hkv => by
        have := hocc kv hkv; simp [occursList, occurs] at this; exact this
      have i2 := rtFields H rest b hs h2 hfb
      simp [substFields, scopeOkList, scopeOk, i2.1, i2.2]
theorem rtItems {m m' : List (Tree × Tree)} (H : Inverse m m') :
    (xs : TreeList) → (b : List Tree) → scopeOkList xs = true → (∀ kv ∈ m', occursList kv.1 xs = false) →
      (∀ kv ∈ m', kv.1 ∉ b) →
      scopeOkList (substItems m b xs) = true ∧ substItems m' b (substItems m b xs) = xs
  | .nil, _, _, _, _ => by simp [substItems, scopeOkList]
  | .cons (.node k fs) rest, b, hs, hocc, hfb => by
      simp only [scopeOkList, Bool.and_eq_true] at hs
      have h1 : ∀ kv ∈ m', occurs kv.1 (.node k fs) = false := fun kv hkv => by
        have := hocc kv hkv; simp only [occursList, Bool.or_eq_false_iff] at this; exact this.1
      have h2 : ∀ kv ∈ m', occursList kv.1 rest = false := fun kv hkv => by
        have := hocc kv hkv; simp only [occursList, Bool.or_eq_false_iff] at this; exact this.2
      have i1 := rt H (.node k fs) b hs.1 h1 hfb
      have i2 := rtItems H rest b hs.2 h2 hfb
      obtain ⟨k', fs', e⟩ := isNode_shape (subst_isNode H.hm b k fs)
      rw [e] at i1
      simp only [substItems, e, scopeOkList, Bool.and_eq_true]
      exact ⟨⟨i1.1, i2.1⟩, by rw [i1.2, i2.2]⟩
  | .cons (.list l) rest, b, hs, hocc, hfb => by
      simp only [scopeOkList, Bool.and_eq_true] at hs
      have h2 : ∀ kv ∈ m', occursList kv.1 rest = false := fun kv hkv => by
        have := hocc kv hkv; simp only [occursList, Bool.or_eq_false_iff] at this; exact this.2
      have i2 := rtItems H rest b hs.2 h2 hfb
      simp [substItems, scopeOkList, hs.1, i2.1, i2.2]
  | .cons (.tuple l) rest, b, hs, hocc, hfb => by
      simp only [scopeOkList, Bool.and_eq_true] at hs
      have h2 : ∀ kv ∈ m', occursList kv.1 rest = false := fun kv hkv => by
        have := hocc kv hkv; simp only [occursList, Bool.or_eq_false_iff] at this; exact this.2
      have i2 := rtItems H rest b hs.2 h2 hfb
      simp [substItems, scopeOkList, hs.1, i2.1, i2.2]
  | .cons (.str l) rest, b, hs, hocc, hfb => by
      simp only [scopeOkList, Bool.and_eq_true] at hs
      have h2 : ∀ kv ∈ m', occursList kv.1 rest = false := fun kv hkv => by
        have := hocc kv hkv; simp only [occursList, Bool.or_eq_false_iff] at this; exact this.2
      have i2 := rtItems H rest b hs.2 h2 hfb
      simp [substItems, scopeOkList, hs.1, i2.1, i2.2]
  | .cons .none rest, b, hs, hocc, hfb => by
      simp only [scopeOkList, Bool.and_eq_true] at hs
      have h2 : ∀ kv ∈ m', occursList kv.1 rest = false := fun kv hkv => by
        have := hocc kv hkv; simp only [occursList, Bool.or_eq_false_iff] at this; exact this.2
      have i2 := rtItems H rest b hs.2 h2 hfb
      simp [substItems, scopeOkList, hs.1, i2.1, i2.2]
end

/-- the round trip on the rewriter: `alias m'` undoes `alias m` on every tree of the parser's shape in which no key
    of `m'` occurs -/
theorem alias_roundtrip {m m' : List (Tree × Tree)} (H : Inverse m m') (t : Tree) (hs : scopeOk t = true)
    (hocc : ∀ kv ∈ m', occurs kv.1 t = false) : alias m' (alias m t) = t := by
  have h := rt H t [] hs hocc (by simp)
  rw [rewrite_eq_subst m t hs, rewrite_eq_subst m' _ h.1, h.2]


/-! ### the tables of a list of (old, new) names -/

theorem mkIdent_inj {s s' : Str} (h : mkIdent s = mkIdent s') : s = s' := by
  simpa [mkIdent] using h

theorem lookup_inv_table (ps : List (Str × Str)) (hnd : (ps.map Prod.snd).Nodup) (p : Str × Str) (hp : p ∈ ps) :
    lookupRepl (ps.map (fun p => (mkIdent p.2, mkIdent p.1))) (mkIdent p.2) = some (mkIdent p.1) := by
  induction ps with
  | nil => cases hp
  | cons q rest ih =>
      simp only [List.map_cons, List.nodup_cons] at hnd
      simp only [List.map_cons, lookupRepl]
      rcases List.mem_cons.mp hp with e | hmem
      · subst e
        have hn : lookupRepl (rest.map (fun p => (mkIdent p.2, mkIdent p.1))) (mkIdent p.2) = none := by
          apply lookup_none_of_absent
          intro kv hkv e
          obtain ⟨r, hr, rfl⟩ := List.mem_map.mp hkv
          exact hnd.1 (List.mem_map.mpr ⟨r, hr, mkIdent_inj e⟩)
        rw [hn]; simp
      · rw [ih hnd.2 hmem]

theorem inverse_tables (ps : List (Str × Str)) (hnd : (ps.map Prod.snd).Nodup) :
    Inverse (ps.map (fun p => (mkIdent p.1, mkIdent p.2))) (ps.map (fun p => (mkIdent p.2, mkIdent p.1))) where
  hm := fun kv hkv => by
    obtain ⟨p, _, rfl⟩ := List.mem_map.mp hkv
    exact ⟨_, _, rfl⟩
  hm' := fun kv hkv => by
    obtain ⟨p, _, rfl⟩ := List.mem_map.mp hkv
    exact ⟨_, _, rfl⟩
  back := fun n r h => by
    obtain ⟨p, hp, e⟩ := List.mem_map.mp (lookup_some_mem _ _ _ h)
    simp only [Prod.mk.injEq] at e
    rw [← e.1, ← e.2]
    exact lookup_inv_table ps hnd p hp

end OQ.AliasBij
