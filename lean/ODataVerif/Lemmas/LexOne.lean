/- Lemmas/LexOne.lean — `lexOne` as "first rule that matches" over an explicit rule list, and transfer of a complete
   match of `s` to `s ++ d :: rest` for a delimiter `d` (for Props/C13Text.lean). -/
import ODataVerif.Lemmas.LexChars
namespace OQ.LexRender
open Spec
set_option linter.unusedSimpArgs false
set_option linter.unusedVariables false

abbrev Rule := List Char → Option (Tok × List Char)

def firstSome : List Rule → Rule
  | [], _ => none
  | f :: fs, cs => match f cs with
    | some x => some x
    | none => firstSome fs cs

def rLit (k : LitKind) (sc : List Char → Option (Str × List Char)) : Rule :=
  fun cs => (sc cs).map fun p => (.lit k p.1, p.2)
/-- the two BOOLEAN rules: a match that is not `true` / `false` in an ASCII letter case is an identifier (`boolOrIdent`) -/
def rBool (env : CharEnv) (w : List Char) : Rule := fun cs => (scanWord env w cs).map fun p => (boolOrIdent p.1, p.2)
def rNull (env : CharEnv) : Rule := fun cs => (scanWord env "null".toList cs).map fun p => (.lit .null [], p.2)
def rOp (t : Tok) (sc : List Char → Option (List Char)) : Rule := fun cs => (sc cs).map fun r => (t, r)
def rMinus : Rule := fun cs => match cs with | '-' :: r => some (.uminus, r) | _ => none
def rKw (t : Tok) (sc : List Char → Option (Str × List Char)) : Rule := fun cs => (sc cs).map fun p => (t, p.2)
def rIdent (env : CharEnv) : Rule := fun cs => (scanIdent env cs).map fun p => (.ident p.1, p.2)
def rWs (env : CharEnv) : Rule := fun cs => (span1 env.isSpace cs).map fun p => (.ws, p.2)
def rSingle : Rule := fun cs => match cs with
    | '(' :: r => some (.lp, r)
    | ')' :: r => some (.rp, r)
    | ',' :: r => some (.comma, r)
    | '/' :: r => some (.slash, r)
    | ':' :: r => some (.colon, r)
    | '=' :: r => some (.eqs, r)
    | _ => none

def litRules (env : CharEnv) : List Rule :=
  [rLit .duration (scanDuration env), rLit .str scanString, rLit .geo (scanGeography env), rLit .guid (scanGuid env),
   rLit .datetime (scanDateTime env), rLit .date (scanDatePart env), rLit .time (scanTime env),
   rLit .float (scanDecimal env), rLit .int (scanInteger env),
   rBool env "true".toList, rBool env "false".toList, rNull env]

def restRules (env : CharEnv) : List Rule :=
  [rOp (.arith .add) (scanOp env "add".toList), rOp (.arith .sub) (scanOp env "sub".toList),
   rOp (.arith .mul) (scanOp env "mul".toList), rOp (.arith .div) (scanOp env "div".toList),
   rOp (.arith .mod) (scanOp env "mod".toList), rMinus,
   rOp (.bool .and_) (scanOp env "and".toList), rOp (.bool .or_) (scanOp env "or".toList),
   rOp .not_ (scanNot env),
   rOp (.cmp .eq) (scanOp env "eq".toList), rOp (.cmp .ne) (scanOp env "ne".toList),
   rOp (.cmp .lt) (scanOp env "lt".toList), rOp (.cmp .le) (scanOp env "le".toList),
   rOp (.cmp .gt) (scanOp env "gt".toList), rOp (.cmp .ge) (scanOp env "ge".toList),
   rOp (.cmp .in_) (scanOp env "in".toList),
   rKw .any (scanWord env "any".toList), rKw .all (scanWord env "all".toList),
   rIdent env, rWs env, rSingle]

def rules (env : CharEnv) : List Rule := litRules env ++ restRules env


macro "step" X:term : tactic =>
  `(tactic| (generalize $X = o; cases o; (case some p => (first | rfl | (obtain ⟨v, r⟩ := p; rfl))); dsimp only [Option.map_none]))

theorem lexOne_eq (env : CharEnv) (cs : List Char) : lexOne env cs = firstSome (rules env) cs := by
  unfold lexOne
  simp only [rules, litRules, restRules, List.cons_append, List.nil_append, firstSome, rLit, rBool, rNull, rOp, rKw, rIdent, rWs]
  step (scanDuration env cs)
  step (scanString cs)
  step (scanGeography env cs)
  step (scanGuid env cs)
  step (scanDateTime env cs)
  step (scanDatePart env cs)
  step (scanTime env cs)
  step (scanDecimal env cs)
  step (scanInteger env cs)
  step (scanWord env "true".toList cs)
  step (scanWord env "false".toList cs)
  step (scanWord env "null".toList cs)
  step (scanOp env "add".toList cs)
  step (scanOp env "sub".toList cs)
  step (scanOp env "mul".toList cs)
  step (scanOp env "div".toList cs)
  step (scanOp env "mod".toList cs)
  split
  · simp [rMinus]
  rename_i hne
  have hmn : rMinus cs = none := by
    unfold rMinus; split
    · rename_i r; exact absurd rfl (hne r)
    · rfl
  simp only [hmn]
  step (scanOp env "and".toList cs)
  step (scanOp env "or".toList cs)
  step (scanNot env cs)
  step (scanOp env "eq".toList cs)
  step (scanOp env "ne".toList cs)
  step (scanOp env "lt".toList cs)
  step (scanOp env "le".toList cs)
  step (scanOp env "gt".toList cs)
  step (scanOp env "ge".toList cs)
  step (scanOp env "in".toList cs)
  step (scanWord env "any".toList cs)
  step (scanWord env "all".toList cs)
  step (scanIdent env cs)
  step (span1 env.isSpace cs)
  generalize h : rSingle cs = o
  cases o <;> exact h


theorem firstSome_append (a b : List Rule) (cs : List Char) :
    firstSome (a ++ b) cs = match firstSome a cs with | some x => some x | none => firstSome b cs := by
  induction a with
  | nil => simp [firstSome]
  | cons f fs ih =>
    simp only [List.cons_append, firstSome]
    cases f cs with
    | none => simpa using ih
    | some x => rfl

theorem firstSome_mem : ∀ (fs : List Rule) (cs : List Char) (x), firstSome fs cs = some x → ∃ f ∈ fs, f cs = some x
  | [], _, _, h => by simp [firstSome] at h
  | f :: fs, cs, x, h => by
      simp only [firstSome] at h
      cases hf : f cs with
      | some y => rw [hf] at h; exact ⟨f, List.mem_cons_self, by rw [hf]; exact h⟩
      | none =>
        rw [hf] at h
        obtain ⟨g, hg, hx⟩ := firstSome_mem fs cs x h
        exact ⟨g, List.mem_cons_of_mem _ hg, hx⟩

theorem firstSome_none : ∀ (fs : List Rule) (cs : List Char), firstSome fs cs = none → ∀ f ∈ fs, f cs = none
  | [], _, _, f, hf => by simp at hf
  | g :: fs, cs, h, f, hf => by
      simp only [firstSome] at h
      cases hg : g cs with
      | some y => rw [hg] at h; simp at h
      | none =>
        rw [hg] at h
        rcases List.mem_cons.1 hf with rfl | hf
        · exact hg
        · exact firstSome_none fs cs h f hf

/-- rule `f` treats `s'` like `s`, as far as a complete match of `s` giving `t` is concerned -/
def Good (s s' tl : List Char) (t : Tok) (f : Rule) : Prop :=
  (f s = none → f s' = none) ∧ (f s = some (t, []) → f s' = some (t, tl))

theorem firstSome_transfer (s s' tl : List Char) (t : Tok) : ∀ (fs : List Rule), (∀ f ∈ fs, Good s s' tl t f) →
    firstSome fs s = some (t, []) → firstSome fs s' = some (t, tl)
  | [], _, h => by simp [firstSome] at h
  | f :: fs, hg, h => by
      simp only [firstSome] at h ⊢
      have hf := hg f List.mem_cons_self
      cases hfs : f s with
      | none =>
        rw [hfs] at h
        rw [hf.1 hfs]
        exact firstSome_transfer s s' tl t fs (fun g hg' => hg g (List.mem_cons_of_mem _ hg')) h
      | some y =>
        rw [hfs] at h
        simp only [Option.some.injEq] at h
        subst h
        rw [hf.2 hfs]

theorem good_none {s s' tl : List Char} {t : Tok} {f : Rule} (h1 : f s = none) (h2 : f s' = none) : Good s s' tl t f :=
  ⟨fun _ => h2, fun h => by rw [h1] at h; cases h⟩

theorem good_ext {s s' tl : List Char} {t : Tok} {f : Rule}
    (h : f s' = (f s).map fun p => (p.1, p.2 ++ tl)) : Good s s' tl t f :=
  ⟨fun h1 => by rw [h, h1]; rfl, fun h1 => by rw [h, h1]; rfl⟩

theorem good_rLit {s s' tl : List Char} {t : Tok} (k : LitKind) (sc : List Char → Option (Str × List Char))
    (h : sc s' = ext (sc s) tl) : Good s s' tl t (rLit k sc) := by
  apply good_ext; simp only [rLit, h]; cases sc s <;> rfl

theorem good_rBool {env : CharEnv} {s s' tl : List Char} {t : Tok} (w : List Char)
    (h : scanWord env w s' = ext (scanWord env w s) tl) : Good s s' tl t (rBool env w) := by
  apply good_ext; simp only [rBool, h]; cases scanWord env w s <;> rfl

theorem good_rNull {env : CharEnv} {s s' tl : List Char} {t : Tok}
    (h : scanWord env "null".toList s' = ext (scanWord env "null".toList s) tl) : Good s s' tl t (rNull env) := by
  apply good_ext; simp only [rNull, h]; cases scanWord env "null".toList s <;> rfl

theorem good_rKw {s s' tl : List Char} {t : Tok} (t' : Tok) (sc : List Char → Option (Str × List Char))
    (h : sc s' = ext (sc s) tl) : Good s s' tl t (rKw t' sc) := by
  apply good_ext; simp only [rKw, h]; cases sc s <;> rfl

theorem good_rOp_none {s s' tl : List Char} {t : Tok} (t' : Tok) (sc : List Char → Option (List Char))
    (h1 : sc s = none) (h2 : sc s' = none) : Good s s' tl t (rOp t' sc) :=
  good_none (by simp [rOp, h1]) (by simp [rOp, h2])

section heads
variable {env : CharEnv} {c : Char} {tl : List Char}

theorem kw_head {p : Char} {ps : List Char} (h : ciChar env p c = false) : kw env (p :: ps) (c :: tl) = none := by
  simp [kw, h]
theorem scanDuration_head (h : ciChar env 'd' c = false) : scanDuration env (c :: tl) = none := by
  simp [scanDuration, kw, h]
theorem scanString_head (h : c ≠ '\'') : scanString (c :: tl) = none := by
  simp [scanString, h]
theorem scanGeography_head (h : ciChar env 'g' c = false) : scanGeography env (c :: tl) = none := by
  simp [scanGeography, kw, h]
theorem scanGuid_head (h : isHex env c = false) : scanGuid env (c :: tl) = none := by
  simp [scanGuid, takeN, h]
theorem scanDatePart_head (h : env.isDigit c = false) : scanDatePart env (c :: tl) = none := by
  unfold scanDatePart
  split
  · rename_i heq; simp at heq; simp [← heq.1, h]
  · rfl
theorem scanDateTime_head (h : env.isDigit c = false) : scanDateTime env (c :: tl) = none := by
  simp [scanDateTime, scanDatePart_head h]
theorem scanHourMinute_head (h1 : inCharRange '0' '1' c = false) (h2 : c ≠ '2') : scanHourMinute env (c :: tl) = none := by
  unfold scanHourMinute
  split
  · rename_i heq; simp at heq; simp [← heq.1, h1, h2]
  · rfl
theorem scanTime_head (h1 : inCharRange '0' '1' c = false) (h2 : c ≠ '2') : scanTime env (c :: tl) = none := by
  simp [scanTime, scanHourMinute_head h1 h2]
theorem span1_head {p : Char → Bool} (h : p c = false) : span1 p (c :: tl) = none := by
  simp [span1, span, h]
theorem scanInteger_head (h1 : c ≠ '+') (h2 : c ≠ '-') (h3 : env.isDigit c = false) : scanInteger env (c :: tl) = none := by
  simp [scanInteger, h1, h2, span1_head h3]
theorem scanDecimal_head (h1 : c ≠ '+') (h2 : c ≠ '-') (h3 : env.isDigit c = false) : scanDecimal env (c :: tl) = none := by
  simp [scanDecimal, scanInteger_head h1 h2 h3]
theorem scanWord_head {p : Char} {ps : List Char} (h : ciChar env p c = false) : scanWord env (p :: ps) (c :: tl) = none := by
  simp [scanWord, kw, h]
theorem scanOp_head {w : List Char} (h : env.isSpace c = false) : scanOp env w (c :: tl) = none := by
  simp [scanOp, span1_head h]
theorem scanNot_head (h : ciChar env 'n' c = false) : scanNot env (c :: tl) = none := by
  simp [scanNot, kw, h]
theorem scanIdent_head (h : isIdentStart env c = false) : scanIdent env (c :: tl) = none := by
  simp [scanIdent, h]
end heads


section transfer
variable {env : CharEnv}

theorem litRules_ext (hdot : env.isWord '.' = false) {c d : Char} {s0 rest : List Char} {t : Tok}
    (hd : Delim env d)
    (hcolon : d ≠ ':' ∨ (env.isDigit c = false ∧ inCharRange '0' '1' c = false ∧ c ≠ '2'))
    (hq : c ≠ '\'') (hg : kw env "geography'".toList (c :: s0) = none) :
    ∀ f ∈ litRules env, Good (c :: s0) ((c :: s0) ++ d :: rest) (d :: rest) t f := by
  intro f hf
  simp only [litRules, List.mem_cons, List.not_mem_nil, or_false] at hf
  rcases hf with rfl | rfl | rfl | rfl | rfl | rfl | rfl | rfl | rfl | rfl | rfl | rfl
  · exact good_rLit _ _ (scanDuration_ext hd _ _)
  · exact good_none (by simp [rLit, scanString_head hq]) (by simp [rLit, scanString_head hq])
  · have h2 : kw env "geography'".toList ((c :: s0) ++ d :: rest) = none := by
      rw [kw_ext env d rest _ _ (hd.kwl _), hg]; rfl
    exact good_none (by simp only [rLit, scanGeography, hg]; rfl) (by simp only [rLit, scanGeography, h2]; rfl)
  · exact good_rLit _ _ (scanGuid_ext hd _ _)
  · rcases hcolon with hcolon | ⟨h1, h2, h3⟩
    · exact good_rLit _ _ (scanDateTime_ext hd hcolon _ _)
    · exact good_none (by simp [rLit, scanDateTime_head h1]) (by simp [rLit, scanDateTime_head h1])
  · exact good_rLit _ _ (scanDatePart_ext hd _ _)
  · rcases hcolon with hcolon | ⟨h1, h2, h3⟩
    · exact good_rLit _ _ (scanTime_ext hd hcolon _ _)
    · exact good_none (by simp [rLit, scanTime_head h2 h3]) (by simp [rLit, scanTime_head h2 h3])
  · exact good_rLit _ _ (scanDecimal_ext hd _ _)
  · exact good_rLit _ _ (scanInteger_ext hd _ _)
  · exact good_rBool _ (scanWord_ext hd hdot _ (by decide) _ _)
  · exact good_rBool _ (scanWord_ext hd hdot _ (by decide) _ _)
  · exact good_rNull (scanWord_ext hd hdot _ (by decide) _ _)


theorem rMinus_cons (c : Char) (x : List Char) : rMinus (c :: x) = if c = '-' then some (.uminus, x) else none := by
  unfold rMinus
  split
  · rename_i heq; simp at heq; simp [heq.1, heq.2]
  · rename_i hne; split
    · rename_i hc; subst hc; exact absurd rfl (hne _)
    · rfl

theorem rSingle_cons (c : Char) (x : List Char) : rSingle (c :: x) =
    if c = '(' then some (.lp, x) else if c = ')' then some (.rp, x) else if c = ',' then some (.comma, x)
    else if c = '/' then some (.slash, x) else if c = ':' then some (.colon, x) else if c = '=' then some (.eqs, x)
    else none := by
  by_cases h1 : c = '('
  · subst h1; simp [rSingle]
  by_cases h2 : c = ')'
  · subst h2; simp [rSingle]
  by_cases h3 : c = ','
  · subst h3; simp [rSingle]
  by_cases h4 : c = '/'
  · subst h4; simp [rSingle]
  by_cases h5 : c = ':'
  · subst h5; simp [rSingle]
  by_cases h6 : c = '='
  · subst h6; simp [rSingle]
  simp only [h1, h2, h3, h4, h5, h6, if_false]
  unfold rSingle
  split <;> simp_all

theorem scanNot_ext {d : Char} (hd : Delim env d) (hs : env.isSpace d = false) (rest s : List Char) :
    scanNot env (s ++ d :: rest) = (scanNot env s).map (· ++ d :: rest) := by
  unfold scanNot
  simp only [Option.bind_eq_bind]
  rw [kw_ext env d rest _ s (hd.kwl _)]
  cases kw env "not".toList s with
  | none => simp
  | some x =>
    simp only [ext_some, Option.bind_some]
    rw [span1_ext _ _ _ hs]
    cases span1 env.isSpace x.2 <;> simp

theorem restRules_ext (hdot : env.isWord '.' = false) {c d : Char} {s0 rest : List Char} {t : Tok}
    (hd : Delim env d) (hi : isIdentStart env d = false)
    (hsp : env.isSpace c = false)
    (hnot : scanNot env (c :: s0) = none → scanNot env ((c :: s0) ++ d :: rest) = none) (htn : t ≠ .not_)
    :
    ∀ f ∈ restRules env, Good (c :: s0) ((c :: s0) ++ d :: rest) (d :: rest) t f := by
  intro f hf
  have hop : ∀ (t' : Tok) (w : List Char), Good (c :: s0) ((c :: s0) ++ d :: rest) (d :: rest) t (rOp t' (scanOp env w)) :=
    fun t' w => good_rOp_none _ _ (scanOp_head hsp) (scanOp_head hsp)
  simp only [restRules, List.mem_cons, List.not_mem_nil, or_false] at hf
  rcases hf with rfl | rfl | rfl | rfl | rfl | rfl | rfl | rfl | rfl | rfl | rfl | rfl | rfl | rfl | rfl | rfl | rfl | rfl | rfl | rfl | rfl
  · exact hop _ _
  · exact hop _ _
  · exact hop _ _
  · exact hop _ _
  · exact hop _ _
  · apply good_ext
    simp only [List.cons_append, rMinus_cons]
    split <;> simp
  · exact hop _ _
  · exact hop _ _
  · refine ⟨fun h1 => ?_, fun h1 => ?_⟩
    · simp only [rOp, Option.map_eq_none_iff] at h1 ⊢
      exact hnot h1
    · simp only [rOp, Option.map_eq_some_iff] at h1
      obtain ⟨r, -, hr⟩ := h1
      simp at hr
      exact absurd hr.1.symm htn
  · exact hop _ _
  · exact hop _ _
  · exact hop _ _
  · exact hop _ _
  · exact hop _ _
  · exact hop _ _
  · exact hop _ _
  · exact good_rKw _ _ (scanWord_ext hd hdot _ (by decide) _ _)
  · exact good_rKw _ _ (scanWord_ext hd hdot _ (by decide) _ _)
  · apply good_ext
    simp only [rIdent, scanIdent_ext hd hdot hi]
    cases scanIdent env (c :: s0) <;> rfl
  · exact good_none (by simp [rWs, span1_head hsp]) (by simp [rWs, span1_head hsp])
  · apply good_ext
    simp only [List.cons_append, rSingle_cons]
    repeat' split
    all_goals simp


theorem firstSome_transfer_none (s s' tl : List Char) (t : Tok) (fs : List Rule) (hg : ∀ f ∈ fs, Good s s' tl t f)
    (h : firstSome fs s = none) : firstSome fs s' = none := by
  induction fs with
  | nil => rfl
  | cons f fs ih =>
    simp only [firstSome] at h ⊢
    cases hf : f s with
    | some y => rw [hf] at h; cases h
    | none =>
      rw [hf] at h
      rw [(hg f List.mem_cons_self).1 hf]
      exact ih (fun g hg' => hg g (List.mem_cons_of_mem _ hg')) h

/-- regime "other": the text does not start with a quote or a `g` -/
theorem lexOne_ext_other (hdot : env.isWord '.' = false) {c d : Char} {s0 rest : List Char} {t : Tok}
    (hd : Delim env d) (hi : isIdentStart env d = false)
    (hcolon : d ≠ ':' ∨ (env.isDigit c = false ∧ inCharRange '0' '1' c = false ∧ c ≠ '2'))
    (hq : c ≠ '\'') (hg : kw env "geography'".toList (c :: s0) = none) (hsp : env.isSpace c = false)
    (hnot : scanNot env (c :: s0) = none → scanNot env ((c :: s0) ++ d :: rest) = none) (htn : t ≠ .not_)
    (h : lexOne env (c :: s0) = some (t, [])) :
    lexOne env ((c :: s0) ++ d :: rest) = some (t, d :: rest) := by
  rw [lexOne_eq] at h ⊢
  refine firstSome_transfer _ _ _ _ _ ?_ h
  intro f hf
  rcases List.mem_append.1 hf with hf | hf
  · exact litRules_ext hdot hd hcolon hq hg f hf
  · exact restRules_ext hdot hd hi hsp hnot htn f hf


/-- which scanner produced a literal / identifier / `any` / `all` token -/
def Src (env : CharEnv) (cs : List Char) (r : List Char) : Tok → Prop
  | .lit .duration v => scanDuration env cs = some (v, r)
  | .lit .str v => scanString cs = some (v, r)
  | .lit .geo v => scanGeography env cs = some (v, r)
  | .lit .guid v => scanGuid env cs = some (v, r)
  | .lit .datetime v => scanDateTime env cs = some (v, r)
  | .lit .date v => scanDatePart env cs = some (v, r)
  | .lit .time v => scanTime env cs = some (v, r)
  | .lit .float v => scanDecimal env cs = some (v, r)
  | .lit .int v => scanInteger env cs = some (v, r)
  | .lit .bool v => scanWord env "true".toList cs = some (v, r) ∨ scanWord env "false".toList cs = some (v, r)
  | .lit .null v => v = [] ∧ ∃ m, scanWord env "null".toList cs = some (m, r)
  | .ident i => scanIdent env cs = some (i, r) ∨
      (boolOrIdent i.name = .ident i ∧
        (scanWord env "true".toList cs = some (i.name, r) ∨ scanWord env "false".toList cs = some (i.name, r)))
  | .any => ∃ m, scanWord env "any".toList cs = some (m, r)
  | .all => ∃ m, scanWord env "all".toList cs = some (m, r)
  | _ => True

theorem rules_src {cs r : List Char} {t : Tok} {f : Rule} (hf : f ∈ rules env) (h : f cs = some (t, r)) :
    Src env cs r t := by
  simp only [rules, litRules, restRules, List.cons_append, List.nil_append, List.mem_cons, List.not_mem_nil, or_false] at hf
  rcases hf with rfl | rfl | rfl | rfl | rfl | rfl | rfl | rfl | rfl | rfl | rfl | rfl | rfl | rfl | rfl | rfl | rfl | rfl | rfl | rfl | rfl | rfl | rfl | rfl | rfl | rfl | rfl | rfl | rfl | rfl | rfl | rfl | rfl
  all_goals
    first
    | (simp only [rLit, rNull, rOp, rKw, rIdent, rWs, Option.map_eq_some_iff, Prod.mk.injEq] at h
       obtain ⟨a, ha, rfl, rfl⟩ := h
       first | exact ha | exact Or.inl ha | exact Or.inr ha | exact ⟨rfl, _, ha⟩ | exact ⟨_, ha⟩ | trivial)
    | (simp only [rBool, Option.map_eq_some_iff, Prod.mk.injEq] at h
       obtain ⟨a, ha, hb, rfl⟩ := h
       by_cases hc : (a.1.map asciiLower == "true".toList || a.1.map asciiLower == "false".toList) = true
       · have hb' : t = .lit .bool a.1 := by rw [← hb]; unfold boolOrIdent; rw [if_pos hc]
         subst hb'
         first | exact Or.inl ha | exact Or.inr ha
       · have hb0 : boolOrIdent a.1 = .ident ⟨a.1, []⟩ := by unfold boolOrIdent; rw [if_neg hc]
         have hb' : t = .ident ⟨a.1, []⟩ := by rw [← hb, hb0]
         subst hb'
         first | exact Or.inr ⟨hb0, Or.inl ha⟩ | exact Or.inr ⟨hb0, Or.inr ha⟩)
    | (cases cs with
       | nil => simp [rMinus, rSingle] at h
       | cons c x =>
         simp only [rMinus_cons, rSingle_cons] at h
         repeat' split at h
         all_goals first | (simp at h; obtain ⟨rfl, rfl⟩ := h; trivial) | simp at h)


theorem lexOne_src {cs r : List Char} {t : Tok} (h : lexOne env cs = some (t, r)) : Src env cs r t := by
  rw [lexOne_eq] at h
  obtain ⟨f, hf, hx⟩ := firstSome_mem _ _ _ h
  exact rules_src hf hx

end transfer

/-! ### heads: what `lexOne` can produce given the first character -/

/-- everything the rules ask about a first character -/
structure HeadFacts (env : CharEnv) (c : Char) : Prop where
  d : ciChar env 'd' c = false
  g : ciChar env 'g' c = false
  t : ciChar env 't' c = false
  f : ciChar env 'f' c = false
  n : ciChar env 'n' c = false
  a : ciChar env 'a' c = false
  hex : isHex env c = false
  r01 : inCharRange '0' '1' c = false
  ne2 : c ≠ '2'
  digit : env.isDigit c = false
  ident : isIdentStart env c = false

theorem litRules_head {env : CharEnv} {c : Char} (x : List Char) (hf : HeadFacts env c)
    (hq : c ≠ '\'') (hp : c ≠ '+') (hm : c ≠ '-') : firstSome (litRules env) (c :: x) = none := by
  simp [litRules, firstSome, rLit, rBool, rNull, scanDuration_head hf.d, scanString_head hq, scanGeography_head hf.g,
    scanGuid_head hf.hex, scanDateTime_head hf.digit, scanDatePart_head hf.digit, scanTime_head hf.r01 hf.ne2,
    scanDecimal_head hp hm hf.digit, scanInteger_head hp hm hf.digit, scanWord_head hf.t, scanWord_head hf.f,
    scanWord_head hf.n]


end OQ.LexRender
