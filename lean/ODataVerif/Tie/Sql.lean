/- Tie: the handler matrix (method -> defining class, MRO-resolved) of the three raw SQL visitors, their
   precedence constants and the function-precedence table, as re-extracted from /repo on this run, equal
   the tables the SQL model was written against; and the model's own lookup tables agree with them. -/
import ODataVerif.Model.Sql
import ODataVerif.Model.SqlTables
import ODataVerif.Generated.Sql
namespace OQ.Tie
open OQ
theorem sql_stdFuncs_tie : Generated.Sql.stdFuncs = SqlTables.stdFuncs := by decide +kernel
theorem sql_sqliteFuncs_tie : Generated.Sql.sqliteFuncs = SqlTables.sqliteFuncs := by decide +kernel
theorem sql_athenaFuncs_tie : Generated.Sql.athenaFuncs = SqlTables.athenaFuncs := by decide +kernel
theorem sql_stdVisits_tie : Generated.Sql.stdVisits = SqlTables.stdVisits := by decide +kernel
theorem sql_sqliteVisits_tie : Generated.Sql.sqliteVisits = SqlTables.sqliteVisits := by decide +kernel
theorem sql_athenaVisits_tie : Generated.Sql.athenaVisits = SqlTables.athenaVisits := by decide +kernel
theorem sql_precConsts_tie : Generated.Sql.precConsts = SqlTables.precConsts := by decide +kernel
theorem sql_funcPrec_tie : Generated.Sql.funcPrec = SqlTables.funcPrec := by decide +kernel

/-- the model's handler set is the `sqlfunc_*` set of every class -/
theorem sql_model_handlers :
    SqlTables.stdFuncs.map (fun p => p.1) = sqlHandlers.map (fun n => "sqlfunc_" ++ n)
    ∧ SqlTables.sqliteFuncs.map (fun p => p.1) = sqlHandlers.map (fun n => "sqlfunc_" ++ n)
    ∧ SqlTables.athenaFuncs.map (fun p => p.1) = sqlHandlers.map (fun n => "sqlfunc_" ++ n) := by decide +kernel

/-- the model's function-precedence table is `_FUNCTION_PRECEDENCE` (as a finite map) -/
theorem sql_model_funcPrec :
    ∀ n ∈ sqlHandlers, funcPrec n.toList = ((SqlTables.funcPrec.find? (fun e => e.1 == n)).map (·.2)).getD 8 := by decide +kernel

/-- the levels used by `sqlPrec` are the `_PREC_*` constants -/
theorem sql_model_precConsts :
    SqlTables.precConsts = [("_PREC_ADDITIVE", 5), ("_PREC_AND", 2), ("_PREC_ATOM", 8), ("_PREC_COMPARISON", 4),
                            ("_PREC_MULTIPLICATIVE", 6), ("_PREC_NOT", 3), ("_PREC_OR", 1), ("_PREC_UNARY", 7)] := by decide +kernel
end OQ.Tie
