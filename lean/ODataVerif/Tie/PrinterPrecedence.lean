/- Tie: roundtrip.PRECEDENCE as re-extracted from /repo on this run equals the table of the printer model. -/
import ODataVerif.Model.Printer
import ODataVerif.Generated.PrinterPrecedence
namespace OQ.Tie
theorem printerPrecedence_tie : Generated.printerPrecedence = OQ.printerPrecedence := by decide
end OQ.Tie
