/- Tie: handler names of the three ORM visitors, the expression each literal handler returns (what makes a
   filter value a bound parameter: `Value(node.py_val)` / `literal(node.py_val)`) and the return expressions of the
   two `_substr_function`s, as re-extracted from /repo on this run, equal the tables the ORM model was written
   against; and the model's own handler lists agree with them. -/
import ODataVerif.Model.Orm
import ODataVerif.Model.OrmTables
import ODataVerif.Generated.Orm
namespace OQ.Tie
open OQ
theorem orm_djangoHandlers_tie : Generated.Orm.djangoHandlers = OrmTables.djangoHandlers := by decide +kernel
theorem orm_saOrmHandlers_tie : Generated.Orm.saOrmHandlers = OrmTables.saOrmHandlers := by decide +kernel
theorem orm_saCoreHandlers_tie : Generated.Orm.saCoreHandlers = OrmTables.saCoreHandlers := by decide +kernel
theorem orm_djangoLiterals_tie : Generated.Orm.djangoLiterals = OrmTables.djangoLiterals := by decide +kernel
theorem orm_saLiterals_tie : Generated.Orm.saLiterals = OrmTables.saLiterals := by decide +kernel
theorem orm_djangoSubstr_tie : Generated.Orm.djangoSubstr = OrmTables.djangoSubstr := by decide +kernel
theorem orm_saSubstr_tie : Generated.Orm.saSubstr = OrmTables.saSubstr := by decide +kernel

/-- the model's handler lists are the extracted ones -/
theorem orm_model_handlers :
    OrmTables.saOrmHandlers = ormHandlers ∧ OrmTables.saCoreHandlers = ormHandlers
    ∧ OrmTables.djangoHandlers.filter (fun h => !djangoGeoHandlers.contains h) = ormHandlers
    ∧ OrmTables.djangoHandlers.filter (fun h => djangoGeoHandlers.contains h) = djangoGeoHandlers := by decide +kernel

/-- the positional-argument counts the model's `djArityOk` accepts are those of the handlers' signatures (re-extracted with `inspect.signature`), and
    `visit_Call` binds the arguments against the signature before calling the handler (fix cf3d3cd) -/
theorem orm_django_arities_tie :
    (Generated.Orm.djangoHandlerArities.filter (fun r => !djangoGeoHandlers.contains r.1)).all
      (fun r => (List.range 8).all (fun n => djArityOk r.1 n == (decide (r.2.1 ≤ n) && decide (n ≤ r.2.2)))) = true
    ∧ Generated.Orm.djangoCallBindsFirst = true := by decide +kernel

/-- every literal handler of both backends wraps the value in a bound parameter (`Value(…)` / `literal(…)`), except
    the inline constants of SQLAlchemy (null / true / false) and lists (element-wise) -/
theorem orm_literals_are_parameters :
    (OrmTables.djangoLiterals.filter (fun p => p.1 != "List" && p.1 != "Geography")).all (fun p => p.2.startsWith "return Value(") = true
    ∧ (OrmTables.saLiterals.filter (fun p => p.1 != "List" && p.1 != "Geography" && p.1 != "Null" && p.1 != "Boolean")).all
        (fun p => p.2.startsWith "return literal(") = true := by decide +kernel
end OQ.Tie
