/- Tie: the rows obtained by probing the real `typing.infer_return_type` on this run (every function
   name of the table plus near-misses, with sentinel arguments of different kinds) equal what the
   model's `inferReturnRule` says for the same names. -/
import ODataVerif.Model.Typing
import ODataVerif.Generated.ReturnTypes
namespace OQ.Tie
def ruleCode : RetRule → String
  | .fixed t => t.className
  | .arg0or1 => "arg0|arg1"
  | .arg0 => "arg0"
  | .unknown => "None"
theorem returnTypes_tie :
    Generated.returnTypeRows = Generated.returnTypeRows.map (fun r => (r.1, ruleCode (inferReturnRule r.1))) := by
  decide
end OQ.Tie
