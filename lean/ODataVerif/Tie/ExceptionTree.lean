/- Tie: the exception class hierarchy re-extracted from /repo on this run equals the pinned one. -/
import ODataVerif.Model.ExceptionTree
import ODataVerif.Generated.ExceptionTree
namespace OQ.Tie
theorem exceptionTree_tie : Generated.exceptionTree = ExceptionTree.exceptionTree := by decide
end OQ.Tie
