/- Tie: the lexer rules, literals, flags, precedence declaration, productions and LR-table facts
   re-extracted from /repo on this run equal the ones the lexer and parser models were written against. -/
import ODataVerif.Model.ParserTables
import ODataVerif.Generated.ParserTables
namespace OQ.Tie
open OQ
theorem lexerRules_tie : Generated.ParserTables.lexerRules = ParserTables.lexerRules := by decide +kernel
theorem lexerLiterals_tie : Generated.ParserTables.lexerLiterals = ParserTables.lexerLiterals := by decide +kernel
theorem lexerFlags_tie : Generated.ParserTables.lexerReflags = ParserTables.lexerReflags
    ∧ Generated.ParserTables.lexerIgnore = ParserTables.lexerIgnore := by decide +kernel
theorem parserPrecedence_tie : Generated.ParserTables.parserPrecedence = ParserTables.parserPrecedence := by decide +kernel
theorem productions_tie : Generated.ParserTables.productions = ParserTables.productions := by decide +kernel
theorem lrTables_tie : Generated.ParserTables.lrStates = ParserTables.lrStates
    ∧ Generated.ParserTables.lrDefaultedStates = ParserTables.lrDefaultedStates := by decide +kernel
end OQ.Tie
