/- Tie: the table re-extracted from /repo (grammar.ODATA_FUNCTIONS) on this run equals the table the
   model and the proofs are stated over. -/
import ODataVerif.Model.Parser
import ODataVerif.Generated.OdataFunctions
namespace OQ.Tie
theorem odataFunctions_tie : Generated.odataFunctions = OQ.odataFunctions := by decide
end OQ.Tie
