/- Tie: the SQL function classes of odata_query/sqlalchemy/functions_ext.py — each class's OWN `package` attribute, the
   package of SQLAlchemy's registry it is actually found in after import, and its type — as re-extracted from /repo (and
   from the live registry) on this run, equal the table the registry model was written against; and no class of the
   library sits in the `_default` package. -/
import ODataVerif.Model.Shorthand
import ODataVerif.Generated.SaFunctions
namespace OQ.Tie
theorem saFunctions_tie : Generated.SaFunctions.functionsExt = OQ.functionsExt := by decide +kernel
theorem saFunctions_not_in_default : Generated.SaFunctions.odataClassesInDefaultPackage = [] := by decide +kernel
end OQ.Tie
