/- Tie: the f-string skeleton of every `sqlfunc_*` handler, re-extracted from the source of the three dialect classes on
   this run, equals the table the template model was written against; and EVERY template `selectTpl` can return — for every
   dialect, handler key and combination of inferred argument types — renders to one of the `return` f-strings of the class
   that defines the handler for that dialect. -/
import ODataVerif.Model.Sql
import ODataVerif.Model.SqlTemplateTable
import ODataVerif.Generated.SqlTemplates
namespace OQ.Tie
open OQ

theorem sqlTemplates_tie : Generated.SqlTemplates.templates = SqlTemplateTable.templates := by decide +kernel

def itemSkel : TItem → String
  | .p x => String.ofList x.spell
  | .arg i => "{" ++ toString i ++ "}"
  | .argW i _ _ => "{" ++ toString i ++ "}"
  | .pat _ _ _ => "{pattern}"

def tplSkeleton (tpl : List TItem) : String := String.join (tpl.map itemSkel)

def dialectTag : Dialect → String
  | .std => "std" | .sqlite => "sqlite" | .athena => "athena"

/-- the `return` f-strings of the method the dialect's class resolves `sqlfunc_<key>` to (its own, else the base class's) -/
def templatesFor (d : Dialect) (key : String) : List String :=
  match SqlTemplateTable.templates.find? (fun r => r.1 == dialectTag d && r.2.1 == key) with
  | some r => r.2.2
  | none =>
      match SqlTemplateTable.templates.find? (fun r => r.1 == "std" && r.2.1 == key) with
      | some r => r.2.2
      | none => []

theorem likeTpl_in_source (d : Dialect) (name : String) (pre suf : Str) (tys tpl)
    (hn : name = "contains" ∨ name = "startswith" ∨ name = "endswith")
    (h : likeTpl name pre suf tys = .ok tpl) : (templatesFor d name).contains (tplSkeleton tpl) = true := by
  unfold likeTpl at h
  split at h
  · injection h with h; subst h
    have hs : tplSkeleton [TItem.arg 0, tsp, tw "LIKE", tsp, TItem.pat 1 pre suf] = "{0} LIKE {pattern}" := by
      simp only [tplSkeleton, List.map, itemSkel]
      decide +kernel
    rw [hs]
    rcases hn with rfl | rfl | rfl <;> cases d <;> decide +kernel
  · cases h
  · cases h

/-- every template of the model (for a call that passes the signature check) is an f-string of the source -/
theorem selectTpl_in_source (d : Dialect) (key : String) (tys : List (Option Ty)) (tpl : List TItem)
    (hp : preCheck d key tys.length = none)
    (h : selectTpl d key tys = .ok tpl) : (templatesFor d key).contains (tplSkeleton tpl) = true := by
  unfold selectTpl at h
  cases d <;> (dsimp only at h; split at h) <;>
    (try simp only [reduceCtorEq, ↓reduceIte] at h) <;>
    first
    | exact likeTpl_in_source _ _ _ _ _ _ (by simp) h
    | (injection h with h; subst h; decide +kernel)
    | (exfalso; simp [preCheck, sqlSigs] at hp; done)
    | (repeat' split at h) <;> first | (injection h with h; subst h; decide +kernel) | cases h
end OQ.Tie
