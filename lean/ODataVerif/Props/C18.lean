/-
  Props/C18.lean — "Type inference never reports a wrong type".
-/
import ODataVerif.Model.Typing
import ODataVerif.Spec.Types
import ODataVerif.Tie.ReturnTypes
namespace OQ.C18
open Spec

/-- the class `infer_type` would have to report for an OData type -/
def tyOf : OTy → Ty
  | .prim k => .lit k
  | .coll => .list

/-- what the model's return-type rule must satisfy on one row of the signature table -/
def RowOk (r : String × List OTy × OTy) : Bool :=
  match inferReturnRule r.1 with
  | .fixed t => t == tyOf r.2.2
  | .arg0or1 => r.2.1 == [r.2.2, r.2.2]
  | .arg0 => r.2.1.head? == some r.2.2
  | .unknown => true

/-- every row of the OData signature table is respected (finite table, checked by the kernel) -/
theorem all_rows_ok : sigTable.all RowOk = true := by decide

/-- the return-type table agrees with the OData signatures, for *every* name and argument types -/
theorem rule_sound (fn : String) (tys : List OTy) (τ : OTy) (h : sigResult fn tys = some τ) :
    (∀ t, inferReturnRule fn = .fixed t → t = tyOf τ) ∧
    (inferReturnRule fn = .arg0or1 → tys = [τ, τ]) ∧
    (inferReturnRule fn = .arg0 → ∃ rest, tys = τ :: rest) := by
  unfold sigResult at h
  split at h
  · rename_i r hr
    cases h
    have hmem := List.mem_of_find?_eq_some hr
    have hp := List.find?_some hr
    simp only [Bool.and_eq_true, beq_iff_eq] at hp
    obtain ⟨h1, h2⟩ := hp
    have hok := (List.all_eq_true.mp all_rows_ok) r hmem
    unfold RowOk at hok
    subst h1; subst h2
    refine ⟨?_, ?_, ?_⟩
    · intro t ht; rw [ht] at hok; simpa using hok
    · intro ht; rw [ht] at hok; simpa using hok
    · intro ht; rw [ht] at hok
      cases hl : r.2.1 with
      | nil => simp [hl] at hok
      | cons a as => simp [hl] at hok; exact ⟨as, by rw [hok]⟩
  · cases h

theorem typesOf_cons {Γ a as tys} (h : typesOf Γ (.cons a as) = some tys) :
    ∃ τ rest, tys = τ :: rest ∧ typeOf Γ a = some τ ∧ typesOf Γ as = some rest := by
  unfold typesOf at h
  split at h
  · rename_i x y hx hy; cases h; exact ⟨_, _, rfl, hx, hy⟩
  · cases h

/-- **Soundness**: whenever `infer_type` answers, it answers the expression's actual OData type. -/
theorem sound (Γ : Expr → Option OTy) : (e : Expr) → (τ : OTy) → typeOf Γ e = some τ →
    (k : Ty) → inferType e = some k → k = tyOf τ
  | .ident _, _, _, _, hk => by simp [inferType] at hk
  | .attr _ _, _, _, _, hk => by simp [inferType] at hk
  | .lit k' _, τ, ht, k, hk => by
      simp [typeOf] at ht; simp [inferType] at hk; subst ht; subst hk; rfl
  | .list _, τ, ht, k, hk => by
      simp [inferType] at hk; subst hk
      unfold typeOf at ht
      simp at ht
      obtain ⟨_, rfl⟩ := ht; rfl
  | .compare o l r, τ, ht, k, hk => by
      simp [inferType] at hk; subst hk
      cases o <;> (unfold typeOf at ht; split at ht <;> first | (cases ht; rfl) | cases ht)
  | .boolop _ l r, τ, ht, k, hk => by
      simp [inferType] at hk; subst hk
      unfold typeOf at ht; split at ht <;> first | (cases ht; rfl) | cases ht
  | .unary _ _, _, _, _, hk => by simp [inferType] at hk
  | .binop _ _ _, _, _, _, hk => by simp [inferType] at hk
  | .named _ _, _, _, _, hk => by simp [inferType] at hk
  | .coll _ _ _, _, _, _, hk => by simp [inferType] at hk
  | .call f args, τ, ht, k, hk => by
      unfold typeOf at ht
      cases hty : typesOf Γ args with
      | none => simp [hty] at ht
      | some tys =>
        simp [hty] at ht
        obtain ⟨hfix, h01, h0⟩ := rule_sound _ _ _ ht
        unfold inferType at hk
        cases hr : inferReturnRule (String.ofList f.fullName) with
        | fixed t => simp [hr] at hk; subst hk; exact hfix _ hr
        | unknown => simp [hr] at hk
        | arg0 =>
            simp [hr] at hk
            obtain ⟨rest, hrest⟩ := h0 hr
            match args, hty, hk with
            | .nil, hty, hk => simp [inferFirst] at hk
            | .cons a as, hty, hk =>
                obtain ⟨τ', rest', e1, ha, _⟩ := typesOf_cons hty
                rw [hrest] at e1; cases e1
                exact sound Γ a _ ha k (by simpa [inferFirst] using hk)
        | arg0or1 =>
            simp [hr] at hk
            have h2 := h01 hr
            match args, hty, hk with
            | .nil, hty, hk => simp [inferFirst2] at hk
            | .cons a .nil, hty, hk =>
                obtain ⟨τ', rest', e1, ha, hrest⟩ := typesOf_cons hty
                rw [h2] at e1; cases e1
                exact sound Γ a _ ha k (by simpa [inferFirst2] using hk)
            | .cons a (.cons b bs), hty, hk =>
                obtain ⟨τ', rest', e1, ha, hrest⟩ := typesOf_cons hty
                obtain ⟨τ'', rest'', e2, hb, _⟩ := typesOf_cons hrest
                rw [h2] at e1; cases e1; cases e2
                unfold inferFirst2 at hk
                cases hia : inferType a with
                | some t => simp [hia] at hk; subst hk; exact sound Γ a _ ha t hia
                | none => simp [hia] at hk; exact sound Γ b _ hb k hk

/-- a type check never rejects a well-typed argument whose type is among the allowed ones -/
theorem typecheck_accepts_welltyped (Γ : Expr → Option OTy) (e : Expr) (τ : OTy)
    (allowed : List Ty) (field : Str) (ht : typeOf Γ e = some τ) (ha : tyOf τ ∈ allowed) :
    typecheck e allowed field = .ok () := by
  unfold typecheck
  cases hk : inferType e with
  | none => rfl
  | some k =>
      have := sound Γ e τ ht k hk
      subst this
      simp [ha]

/-- … and rejects an argument that is a literal of a kind outside the allowed set -/
theorem typecheck_rejects_bad_literal (k : LitKind) (v : Str) (allowed : List Ty) (field : Str)
    (h : Ty.lit k ∉ allowed) :
    typecheck (.lit k v) allowed field = .lib (.argumentType field) := by
  simp [typecheck, inferType, h]

/-- literals, comparisons and logical operators are always inferred, and correctly -/
theorem infer_literal (k : LitKind) (v : Str) : inferType (.lit k v) = some (.lit k) := rfl
theorem infer_compare (o : CmpOp) (l r : Expr) : inferType (.compare o l r) = some (.lit .bool) := rfl
theorem infer_boolop (o : BoolOp) (l r : Expr) : inferType (.boolop o l r) = some (.lit .bool) := rfl

/-! non-vacuity -/
def Γ₀ : Expr → Option OTy
  | .ident ⟨['s'], []⟩ => some (.prim .str)
  | .ident ⟨['n'], []⟩ => some (.prim .int)
  | _ => none
example : typeOf Γ₀ (.call ⟨"concat".toList, []⟩ (.cons (.ident ⟨['s'], []⟩) (.cons (.lit .str ['x']) .nil)))
    = some (.prim .str) := by decide
example : inferType (.call ⟨"concat".toList, []⟩ (.cons (.ident ⟨['s'], []⟩) (.cons (.lit .str ['x']) .nil)))
    = some (.lit .str) := by decide
example : typeOf Γ₀ (.call ⟨"substring".toList, []⟩ (.cons (.lit .str ['x']) (.cons (.ident ⟨['n'], []⟩) .nil)))
    = some (.prim .str) := by decide

end OQ.C18
