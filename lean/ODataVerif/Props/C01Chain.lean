/-
  Props/C01Chain.lean — C01 end to end and the witnesses of its known findings.

  * `where_text_tokens`   for every filter b of the typed grammar the SQLite dialect's model emits a text, and that
                          text is read back by the independent SQL tokeniser as exactly the emitted tokens
                          (`translates` + `typed_litOk` + C07 `lex_pieces`)
  * `where_selects`       (when Props/C09Parse.lean is present, in Props/C01Full.lean) the parsed text selects
                          exactly the rows OData's semantics selects
  * `kf_like_case`, `kf_like_computed`   Lean witnesses of the two LIKE findings `semOkB` excludes
-/
import ODataVerif.Props.C01
import ODataVerif.Props.C07Lex
namespace OQ.C01
open Spec

theorem where_text_tokens (isD : Char → Bool) (b : BoolE) (hw : wfB b = true) :
    ∃ ps, sqlVisit isD .sqlite none b.toExpr = .ok ps ∧ sqlLex (renderPieces ps) = some (pieceToks ps) := by
  obtain ⟨ps, hps⟩ := translates isD none b
  exact ⟨ps, hps, C07.lex_pieces isD .sqlite none b.toExpr ps (typed_litOk isD .sqlite b hw) rfl hps⟩

/-- KNOWN FINDING (witness): SQLite's LIKE folds ASCII case — the pattern the dialect emits for
    `contains(s1, 'abc')` matches the cell 'ABC', OData's ordinal `contains` does not -/
theorem kf_like_case :
    sqliteLike ("%".toList ++ likeLit "abc".toList ++ "%".toList) "ABC".toList none = true
    ∧ likeSem .contains "ABC".toList "abc".toList = false := by
  constructor
  · simp [sqliteLike, likeLit, patItems, likeItems, foldA]
  · decide

/-- KNOWN FINDING (witness): the VALUE of a computed substring is read as a LIKE pattern — for
    `contains(s1, s2)` with s2 = '100%' the emitted `'%' || s2 || '%'` matches the cell '100 apples' -/
theorem kf_like_computed :
    sqliteLike ("%".toList ++ "100%".toList ++ "%".toList) "100 apples".toList none = true
    ∧ likeSem .contains "100 apples".toList "100%".toList = false := by
  constructor
  · simp [sqliteLike, patItems, likeItems, foldA]
  · decide

/-- non-vacuity of `sound`: a filter with right-nested arithmetic, a null test and a string comparison, on a row
    inside `semOkB` -/
example :
    let b : BoolE := .and (.cmpI .gt (.arith .sub (.col "i1".toList) (.arith .sub (.col "i2".toList) (.lit false "1".toList))) (.lit true "2".toList))
                          (.or (.cmpS .eq (.col "s1".toList) (.lit "100%".toList)) (.isNull .str "s2".toList false))
    let ρ : Row := [("i1".toList, .int 5), ("i2".toList, .int 3), ("s1".toList, .str "100%".toList), ("s2".toList, .null)]
    wfB b = true ∧ semOkB ρ b = true ∧ selects ρ b = true := by
  decide

end OQ.C01
