/-
  Props/C12Accepted.lean — C12 on the ORM backends from accepted TEXT: for every accepted ASCII filter that is well-typed (Spec/TypesStrict, any field typing),
  the models of the Django visitor and of the SQLAlchemy visitors return a translation or one of the library's exceptions.  Props/C12Orm.lean proves this for trees
  that are `printable` (discharged by C10.parse_image) and whose literals have a Python value (`pyLitOk`); here the second hypothesis is reduced to the kinds whose
  missing value would leak (duration, GUID, integer: the date / time kinds report the library's ValueException) and discharged for every tree the parser returns:
  a duration / GUID / integer token the lexer emits always has a value.
-/
import ODataVerif.Props.C12Orm
import ODataVerif.Props.C13Accepted
import ODataVerif.Lemmas.OrmTotal3
import ODataVerif.Lemmas.AcceptedPyVal
namespace OQ.C12Orm
open OQ.Spec OQ.C06 OQ.AcceptedProv

mutual
/-- every duration / GUID / integer literal of the tree has a Python value -/
def pyLitOk' : Expr → Bool
  | .ident _ => true
  | .attr o _ => pyLitOk' o
  | .lit k v => (if k == .duration || k == .guid || k == .int then (match pyVal k v with | .foreign _ => false | _ => true) else true)
  | .list xs => pyLitOks' xs
  | .binop _ l r | .compare _ l r | .boolop _ l r => pyLitOk' l && pyLitOk' r
  | .unary _ e => pyLitOk' e
  | .named _ e => pyLitOk' e
  | .call _ args => pyLitOks' args
  | .coll o _ l => pyLitOk' o && pyLitOkLam' l
def pyLitOks' : Exprs → Bool
  | .nil => true
  | .cons h t => pyLitOk' h && pyLitOks' t
def pyLitOkLam' : OptLam → Bool
  | .none => true
  | .some _ b => pyLitOk' b
end

/-- `pyLitOk'` unfolds over the tree with `OrmTotal3.litOkW` at the literals -/
theorem pyLitOk'_inv : OrmTotal3.LitInv pyLitOk' pyLitOks' where
  lit := fun k v => by rw [pyLitOk']; rfl
  list := fun xs => by rw [pyLitOk']
  binop := fun o l r => by rw [pyLitOk']
  compare := fun o l r => by rw [pyLitOk']
  boolop := fun o l r => by rw [pyLitOk']
  unary := fun o e => by rw [pyLitOk']
  call := fun f args => by rw [pyLitOk']
  cons := fun h t => by rw [pyLitOks']

/-- the ORM theorems need a value only for the kinds whose `py_val` failure is not reported as the library's exception -/
theorem dj_never_leaks_welltyped' (Γ : Expr → Option OTy) (e : Expr) (hp : printable e = true) (h : wellTypedFilter Γ e = true) (hl : pyLitOk' e = true) :
    leaks (djBuild e) = false :=
  OrmTotal3.dj_never_leaks_W pyLitOk'_inv Γ e hp h hl

theorem sa_never_leaks_welltyped' (fields : List Str) (core : Bool) (Γ : Expr → Option OTy) (e : Expr)
    (hp : printable e = true) (h : wellTypedFilter Γ e = true) (hl : pyLitOk' e = true) :
    leaks (saBuild fields core e) = false :=
  OrmTotal3.sa_never_leaks_W pyLitOk'_inv fields core Γ e hp h hl

open AcceptedLex (Emitted) in
mutual
/-- a tree whose literals are emitted tokens: every duration / GUID / integer literal has a value -/
theorem prov_pyLitOk' : (e : Expr) → Prov Emitted e → pyLitOk' e = true
  | .ident _, _ => by rw [pyLitOk']
  | .attr o _, hp => by
      simp only [Prov] at hp
      rw [pyLitOk']; exact prov_pyLitOk' o hp.1
  | .lit k v, hp => by
      simp only [Prov] at hp
      rw [pyLitOk']
      split
      · rename_i hk
        have hk' : k = .duration ∨ k = .guid ∨ k = .int := by simpa [or_assoc] using hk
        split
        · rename_i c hc; exact absurd hc (AcceptedPyVal.emitted_pyVal hp hk' c)
        · rfl
      · rfl
  | .list xs, hp => by
      simp only [Prov] at hp
      rw [pyLitOk']; exact provL_pyLitOk' xs hp
  | .binop _ l r, hp => by
      simp only [Prov] at hp
      rw [pyLitOk', prov_pyLitOk' l hp.1, prov_pyLitOk' r hp.2]; rfl
  | .compare _ l r, hp => by
      simp only [Prov] at hp
      rw [pyLitOk', prov_pyLitOk' l hp.1, prov_pyLitOk' r hp.2]; rfl
  | .boolop _ l r, hp => by
      simp only [Prov] at hp
      rw [pyLitOk', prov_pyLitOk' l hp.1, prov_pyLitOk' r hp.2]; rfl
  | .unary _ e, hp => by
      simp only [Prov] at hp
      rw [pyLitOk']; exact prov_pyLitOk' e hp
  | .named _ e, hp => by
      simp only [Prov] at hp
      rw [pyLitOk']; exact prov_pyLitOk' e hp.2
  | .call _ args, hp => by
      simp only [Prov] at hp
      rw [pyLitOk']; exact provL_pyLitOk' args hp.2
  | .coll o _ l, hp => by
      simp only [Prov] at hp
      rw [pyLitOk', prov_pyLitOk' o hp.1, provLam_pyLitOk' l hp.2]; rfl
theorem provL_pyLitOk' : (xs : Exprs) → ProvL Emitted xs → pyLitOks' xs = true
  | .nil, _ => by rw [pyLitOks']
  | .cons h t, hp => by
      simp only [ProvL] at hp
      rw [pyLitOks', prov_pyLitOk' h hp.1, provL_pyLitOk' t hp.2]; rfl
theorem provLam_pyLitOk' : (l : OptLam) → ProvLam Emitted l → pyLitOkLam' l = true
  | .none, _ => by rw [pyLitOkLam']
  | .some _ b, hp => by
      simp only [ProvLam] at hp
      rw [pyLitOkLam']; exact prov_pyLitOk' b hp.2
end

/-- every duration / GUID / integer literal of a tree the parser returns on an ASCII text has a value -/
theorem accepted_pyLitOk' (s : Str) (e : Expr) (ha : s.all isAsciiChar = true) (h : parseText pyCharEnv s = .ok e) : pyLitOk' e = true :=
  prov_pyLitOk' e (AcceptedParse.parseToks_prov AcceptedLex.Emitted _ _ e (AcceptedLex.lexAll_emitted s ha) h)

/-- C12 on Django for every accepted, well-typed ASCII filter text -/
theorem dj_never_leaks_accepted (Γ : Expr → Option OTy) (s : Str) (e : Expr) (ha : s.all isAsciiChar = true) (h : parseText pyCharEnv s = .ok e)
    (ht : wellTypedFilter Γ e = true) : leaks (djBuild e) = false :=
  dj_never_leaks_welltyped' Γ e (C10.parse_image pyCharEnv s e h) ht (accepted_pyLitOk' s e ha h)

/-- C12 on SQLAlchemy (ORM and Core) for every accepted, well-typed ASCII filter text -/
theorem sa_never_leaks_accepted (fields : List Str) (core : Bool) (Γ : Expr → Option OTy) (s : Str) (e : Expr) (ha : s.all isAsciiChar = true)
    (h : parseText pyCharEnv s = .ok e) (ht : wellTypedFilter Γ e = true) : leaks (saBuild fields core e) = false :=
  sa_never_leaks_welltyped' fields core Γ e (C10.parse_image pyCharEnv s e h) ht (accepted_pyLitOk' s e ha h)

end OQ.C12Orm
