/-
  Props/C12Sql.lean — the hypotheses of `C12.sql_never_leaks` hold for every accepted ASCII filter text: `callsOk` follows from `printable` (the parser's
  image, C10.parse_image) and `durOk` from the lexer's image (C06.accepted_litOk).  So: for every accepted ASCII text, every dialect and alias, the raw SQL
  visitor model returns SQL or a library exception.
-/
import ODataVerif.Props.C12
import ODataVerif.Props.C10Image
import ODataVerif.Props.C06Image
namespace OQ.C12
open Spec SqlAlias SqlTotal

/-- path owners are identifier chains: they contain no call -/
theorem callsOk_of_path : (e : Expr) → pathOk e = true → callsOk e = true
  | .ident _, _ => by simp [callsOk]
  | .attr (.ident _) _, _ => by simp [callsOk]
  | .attr (.attr o n) m, h => by
      simp only [pathOk, Bool.and_eq_true] at h
      have ih := callsOk_of_path (.attr o n) h.2
      rw [callsOk]; exact ih
  | .attr (.lit _ _) _, h => by simp [pathOk] at h
  | .attr (.list _) _, h => by simp [pathOk] at h
  | .attr (.binop _ _ _) _, h => by simp [pathOk] at h
  | .attr (.compare _ _ _) _, h => by simp [pathOk] at h
  | .attr (.boolop _ _ _) _, h => by simp [pathOk] at h
  | .attr (.unary _ _) _, h => by simp [pathOk] at h
  | .attr (.named _ _) _, h => by simp [pathOk] at h
  | .attr (.call _ _) _, h => by simp [pathOk] at h
  | .attr (.coll _ _ _) _, h => by simp [pathOk] at h
  | .lit _ _, h => by simp [pathOk] at h
  | .list _, h => by simp [pathOk] at h
  | .binop _ _ _, h => by simp [pathOk] at h
  | .compare _ _ _, h => by simp [pathOk] at h
  | .boolop _ _ _, h => by simp [pathOk] at h
  | .unary _ _, h => by simp [pathOk] at h
  | .named _ _, h => by simp [pathOk] at h
  | .call _ _, h => by simp [pathOk] at h
  | .coll _ _ _, h => by simp [pathOk] at h

mutual
theorem callsOk_of_printable_aux : (e : Expr) → printable e = true → callsOk e = true
  | .ident _, _ => by simp [callsOk]
  | .lit _ _, _ => by simp [callsOk]
  | .attr o n, h => by
      rw [printable] at h
      exact callsOk_of_path _ h
  | .list xs, h => by
      rw [printable] at h
      simp only [Bool.and_eq_true] at h
      rw [callsOk]; exact callsOkList_of_args xs h.2
  | .binop _ l r, h => by
      rw [printable] at h
      simp only [Bool.and_eq_true] at h
      rw [callsOk, callsOk_of_printable_aux l h.1, callsOk_of_printable_aux r h.2]; rfl
  | .compare .in_ l (.list xs), h => by
      rw [printable] at h
      simp only [Bool.and_eq_true] at h
      rw [callsOk, callsOk, callsOk_of_printable_aux l h.1, callsOkList_of_args xs h.2.2]; rfl
  | .compare .in_ l (.ident _), h => by simp [printable] at h
  | .compare .in_ l (.attr _ _), h => by simp [printable] at h
  | .compare .in_ l (.lit _ _), h => by simp [printable] at h
  | .compare .in_ l (.binop _ _ _), h => by simp [printable] at h
  | .compare .in_ l (.compare _ _ _), h => by simp [printable] at h
  | .compare .in_ l (.boolop _ _ _), h => by simp [printable] at h
  | .compare .in_ l (.unary _ _), h => by simp [printable] at h
  | .compare .in_ l (.named _ _), h => by simp [printable] at h
  | .compare .in_ l (.call _ _), h => by simp [printable] at h
  | .compare .in_ l (.coll _ _ _), h => by simp [printable] at h
  | .compare .eq l r, h => by
      simp only [printable, Bool.and_eq_true] at h
      rw [callsOk, callsOk_of_printable_aux l h.1, callsOk_of_printable_aux r h.2]; rfl
  | .compare .ne l r, h => by
      simp only [printable, Bool.and_eq_true] at h
      rw [callsOk, callsOk_of_printable_aux l h.1, callsOk_of_printable_aux r h.2]; rfl
  | .compare .lt l r, h => by
      simp only [printable, Bool.and_eq_true] at h
      rw [callsOk, callsOk_of_printable_aux l h.1, callsOk_of_printable_aux r h.2]; rfl
  | .compare .le l r, h => by
      simp only [printable, Bool.and_eq_true] at h
      rw [callsOk, callsOk_of_printable_aux l h.1, callsOk_of_printable_aux r h.2]; rfl
  | .compare .gt l r, h => by
      simp only [printable, Bool.and_eq_true] at h
      rw [callsOk, callsOk_of_printable_aux l h.1, callsOk_of_printable_aux r h.2]; rfl
  | .compare .ge l r, h => by
      simp only [printable, Bool.and_eq_true] at h
      rw [callsOk, callsOk_of_printable_aux l h.1, callsOk_of_printable_aux r h.2]; rfl
  | .boolop _ l r, h => by
      rw [printable] at h
      simp only [Bool.and_eq_true] at h
      rw [callsOk, callsOk_of_printable_aux l h.1, callsOk_of_printable_aux r h.2]; rfl
  | .unary _ e, h => by
      rw [printable] at h
      rw [callsOk]; exact callsOk_of_printable_aux e h
  | .named _ _, h => by simp [printable] at h
  | .call f args, h => by
      rw [printable] at h
      simp only [Bool.and_eq_true, Bool.or_eq_true] at h
      rw [callsOk, h.1]
      rcases h.2 with h2 | h2
      · rw [callsOkList_of_args args h2]; rfl
      · rw [callsOkList_of_named args h2]; rfl
  | .coll ow op .none, h => by
      rw [printable] at h
      simp only [Bool.and_eq_true] at h
      rw [callsOk, callsOk_of_path ow h.1, callsOkLam]; rfl
  | .coll ow op (.some v b), h => by
      rw [printable] at h
      simp only [Bool.and_eq_true] at h
      rw [callsOk, callsOk_of_path ow h.1, callsOkLam, callsOk_of_printable_aux b h.2]; rfl
theorem callsOkList_of_args : (xs : Exprs) → printableArgs xs = true → callsOkList xs = true
  | .nil, _ => by rw [callsOkList]
  | .cons a rest, h => by
      rw [printableArgs] at h
      simp only [Bool.and_eq_true] at h
      rw [callsOkList, callsOk_of_printable_aux a h.1, callsOkList_of_args rest h.2]; rfl
theorem callsOkList_of_named : (xs : Exprs) → printableNamed xs = true → callsOkList xs = true
  | .nil, h => by simp [printableNamed] at h
  | .cons (.named _ e) .nil, h => by
      rw [printableNamed] at h
      rw [callsOkList, callsOk, callsOk_of_printable_aux e h, callsOkList]; rfl
  | .cons (.named _ e) (.cons b rest), h => by
      rw [printableNamed] at h
      · simp only [Bool.and_eq_true] at h
        rw [callsOkList, callsOk, callsOk_of_printable_aux e h.1, callsOkList_of_named (.cons b rest) h.2]; rfl
      · intro hh; cases hh
  | .cons (.ident _) _, h => by simp [printableNamed] at h
  | .cons (.attr _ _) _, h => by simp [printableNamed] at h
  | .cons (.lit _ _) _, h => by simp [printableNamed] at h
  | .cons (.list _) _, h => by simp [printableNamed] at h
  | .cons (.binop _ _ _) _, h => by simp [printableNamed] at h
  | .cons (.compare _ _ _) _, h => by simp [printableNamed] at h
  | .cons (.boolop _ _ _) _, h => by simp [printableNamed] at h
  | .cons (.unary _ _) _, h => by simp [printableNamed] at h
  | .cons (.call _ _) _, h => by simp [printableNamed] at h
  | .cons (.coll _ _ _) _, h => by simp [printableNamed] at h
end

/-- every built-in call of a tree in the parser's image has an admissible argument count (printable checks `callOk` at every call; named parameters, lambda
    bodies, path owners and list elements are covered) -/
theorem callsOk_of_printable (e : Expr) (h : printable e = true) : callsOk e = true :=
  callsOk_of_printable_aux e h

/-- C12 on the raw SQL dialects for every accepted ASCII filter text -/
theorem sql_never_leaks_accepted (s : Str) (e : Expr) (d : Dialect) (al : Option Str) (ha : s.all C06.isAsciiChar = true)
    (h : parseText pyCharEnv s = .ok e) : clean (sqlVisit pyCharEnv.isDigit d al e) = true :=
  sql_never_leaks pyCharEnv.isDigit d al e (callsOk_of_printable e (C10.parse_image pyCharEnv s e h)) (C06.accepted_litOk s e d ha h).2

end OQ.C12
