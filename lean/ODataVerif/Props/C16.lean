/-
  Props/C16.lean — "Visitor and transformer base classes traverse completely and never mutate".
  (Non-mutation of the *Python objects* and `==` are runtime facts: checked by the correspondence
  run of checks/c16.py, not expressible in a pure model — DESIGN §6 C16.)
-/
import ODataVerif.Model.Visitor
import ODataVerif.Model.Ast
import ODataVerif.Spec.Traversal
namespace OQ.C16
open Spec

/-! ### the default visitor reaches every node exactly once, depth-first in field order -/

mutual
theorem trace_node : (t : Tree) → wf t = true → visitTrace t = nodesOf t
  | .node k fs, h => by
      unfold visitTrace nodesOf
      rw [trace_fields fs (by simpa [wf] using h)]
  | .list _, h => by simp [wf] at h
  | .tuple _, _ => by simp [visitTrace, nodesOf]
  | .str _, _ => by simp [visitTrace, nodesOf]
  | .none, _ => by simp [visitTrace, nodesOf]
theorem trace_fields : (fs : TreeList) → wfFields fs = true → fieldsTrace fs = nodesOfList fs
  | .nil, _ => by simp [fieldsTrace, nodesOfList]
  | .cons (.list items) rest, h => by
      simp [wfFields] at h
      simp [fieldsTrace, nodesOfList, nodesOf, trace_items items h.1, trace_fields rest h.2]
  | .cons (.node k fs) rest, h => by
      simp [wfFields] at h
      simp [fieldsTrace, nodesOfList, trace_node (.node k fs) h.1, trace_fields rest h.2]
  | .cons (.tuple _) rest, h => by
      simp [wfFields] at h
      simp [fieldsTrace, nodesOfList, nodesOf, trace_fields rest h]
  | .cons (.str _) rest, h => by
      simp [wfFields] at h
      simp [fieldsTrace, nodesOfList, nodesOf, trace_fields rest h]
  | .cons .none rest, h => by
      simp [wfFields] at h
      simp [fieldsTrace, nodesOfList, nodesOf, trace_fields rest h]
theorem trace_items : (xs : TreeList) → wfItems xs = true → itemsTrace xs = nodesOfList xs
  | .nil, _ => by simp [itemsTrace, nodesOfList]
  | .cons (.node k fs) rest, h => by
      simp [wfItems] at h
      simp [itemsTrace, nodesOfList, trace_node (.node k fs) h.1, trace_items rest h.2]
  | .cons (.list _) _, h => by simp [wfItems] at h
  | .cons (.tuple _) _, h => by simp [wfItems] at h
  | .cons (.str _) _, h => by simp [wfItems] at h
  | .cons .none _, h => by simp [wfItems] at h
end

/-- **preorder**: the trace of `visit` calls is the document-order list of all nodes -/
theorem preorder (t : Tree) (h : wf t = true) : visitTrace t = nodesOf t := trace_node t h

mutual
theorem length_nodesOf : (t : Tree) → (nodesOf t).length = nodeCount t
  | .node k fs => by simp [nodesOf, nodeCount, length_nodesOfList fs]; omega
  | .list items => by simp [nodesOf, nodeCount, length_nodesOfList items]
  | .tuple _ => by simp [nodesOf, nodeCount]
  | .str _ => by simp [nodesOf, nodeCount]
  | .none => by simp [nodesOf, nodeCount]
theorem length_nodesOfList : (ts : TreeList) → (nodesOfList ts).length = nodeCountList ts
  | .nil => by simp [nodesOfList, nodeCountList]
  | .cons h t => by simp [nodesOfList, nodeCountList, length_nodesOf h, length_nodesOfList t]
end

/-- **each once**: as many `visit` calls as there are nodes -/
theorem each_once (t : Tree) (h : wf t = true) : (visitTrace t).length = nodeCount t := by
  rw [preorder t h, length_nodesOf]

/-- **dispatch**: the i-th call goes to the handler named after the i-th node's class -/
theorem dispatch (t : Tree) (h : wf t = true) :
    (visitTrace t).map handlerName = (nodesOf t).map handlerName := by rw [preorder t h]

theorem handlerName_node (k : String) (fs : TreeList) : handlerName (.node k fs) = "visit_" ++ k := rfl

/-! ### the transformer -/

mutual
theorem tvisit_none : (t : Tree) → tvisit none t = t
  | .node k fs => by simp [tvisit, tfields_none fs]
  | .list _ => by simp [tvisit]
  | .tuple _ => by simp [tvisit]
  | .str _ => by simp [tvisit]
  | .none => by simp [tvisit]
theorem tfields_none : (fs : TreeList) → tfields none fs = fs
  | .nil => by simp [tfields]
  | .cons (.list items) rest => by simp [tfields, titems_none items, tfields_none rest]
  | .cons (.node k fs) rest => by simp [tfields, tvisit_none (.node k fs), tfields_none rest]
  | .cons (.tuple _) rest => by simp [tfields, tfields_none rest]
  | .cons (.str _) rest => by simp [tfields, tfields_none rest]
  | .cons .none rest => by simp [tfields, tfields_none rest]
theorem titems_none : (xs : TreeList) → titems none xs = xs
  | .nil => by simp [titems]
  | .cons (.node k fs) rest => by simp [titems, tvisit_none (.node k fs), titems_none rest]
  | .cons (.list _) rest => by simp [titems, titems_none rest]
  | .cons (.tuple _) rest => by simp [titems, titems_none rest]
  | .cons (.str _) rest => by simp [titems, titems_none rest]
  | .cons .none rest => by simp [titems, titems_none rest]
end

/-- **transform_id**: a transformer without overrides returns a tree equal to its input -/
theorem transform_id (t : Tree) : tvisit none t = t := tvisit_none t

mutual
theorem tvisit_rec (k : String) (g : Tree → Tree) :
    (t : Tree) → wf t = true → tvisit (some ⟨k, g, true⟩) t = mapKind k g t
  | .node k' fs, h => by
      have hf := tfields_rec k g fs (by simpa [wf] using h)
      unfold mapKind at hf ⊢
      by_cases hk : k = k'
      · subst hk; simp [tvisit, mapBU, isKind, hf]
      · have : ¬ k' = k := fun e => hk e.symm
        simp [tvisit, mapBU, isKind, hf, hk, this]
  | .list _, h => by simp [wf] at h
  | .tuple _, _ => by simp [tvisit, mapKind, mapBU]
  | .str _, _ => by simp [tvisit, mapKind, mapBU]
  | .none, _ => by simp [tvisit, mapKind, mapBU]
theorem tfields_rec (k : String) (g : Tree → Tree) :
    (fs : TreeList) → wfFields fs = true →
      tfields (some ⟨k, g, true⟩) fs = mapBUList (fun n => if isKind k n then g n else n) fs
  | .nil, _ => by simp [tfields, mapBUList]
  | .cons (.list items) rest, h => by
      simp [wfFields] at h
      simp [tfields, mapBUList, mapBU, titems_rec k g items h.1, tfields_rec k g rest h.2]
  | .cons (.node k' fs) rest, h => by
      simp [wfFields] at h
      have := tvisit_rec k g (.node k' fs) h.1
      unfold mapKind at this
      simp [tfields, mapBUList, this, tfields_rec k g rest h.2]
  | .cons (.tuple _) rest, h => by
      simp [wfFields] at h
      simp [tfields, mapBUList, mapBU, tfields_rec k g rest h]
  | .cons (.str _) rest, h => by
      simp [wfFields] at h
      simp [tfields, mapBUList, mapBU, tfields_rec k g rest h]
  | .cons .none rest, h => by
      simp [wfFields] at h
      simp [tfields, mapBUList, mapBU, tfields_rec k g rest h]
theorem titems_rec (k : String) (g : Tree → Tree) :
    (xs : TreeList) → wfItems xs = true →
      titems (some ⟨k, g, true⟩) xs = mapBUList (fun n => if isKind k n then g n else n) xs
  | .nil, _ => by simp [titems, mapBUList]
  | .cons (.node k' fs) rest, h => by
      simp [wfItems] at h
      have := tvisit_rec k g (.node k' fs) h.1
      unfold mapKind at this
      simp [titems, mapBUList, this, titems_rec k g rest h.2]
  | .cons (.list _) _, h => by simp [wfItems] at h
  | .cons (.tuple _) _, h => by simp [wfItems] at h
  | .cons (.str _) _, h => by simp [wfItems] at h
  | .cons .none _, h => by simp [wfItems] at h
end

/-- **transform_override** (recursing handler): exactly the nodes of kind `k` are post-processed by `g` -/
theorem transform_override (k : String) (g : Tree → Tree) (t : Tree) (h : wf t = true) :
    tvisit (some ⟨k, g, true⟩) t = mapKind k g t := tvisit_rec k g t h

mutual
theorem tvisit_td (k : String) (g : Tree → Tree) :
    (t : Tree) → wf t = true → tvisit (some ⟨k, g, false⟩) t = replaceTD k g t
  | .node k' fs, h => by
      have hf := tfields_td k g fs (by simpa [wf] using h)
      by_cases hk : k = k'
      · subst hk; simp [tvisit, replaceTD]
      · have : ¬ k' = k := fun e => hk e.symm
        simp [tvisit, replaceTD, hf, hk, this]
  | .list _, h => by simp [wf] at h
  | .tuple _, _ => by simp [tvisit, replaceTD]
  | .str _, _ => by simp [tvisit, replaceTD]
  | .none, _ => by simp [tvisit, replaceTD]
theorem tfields_td (k : String) (g : Tree → Tree) :
    (fs : TreeList) → wfFields fs = true → tfields (some ⟨k, g, false⟩) fs = replaceTDList k g fs
  | .nil, _ => by simp [tfields, replaceTDList]
  | .cons (.list items) rest, h => by
      simp [wfFields] at h
      simp [tfields, replaceTDList, replaceTD, titems_td k g items h.1, tfields_td k g rest h.2]
  | .cons (.node k' fs) rest, h => by
      simp [wfFields] at h
      simp [tfields, replaceTDList, tvisit_td k g (.node k' fs) h.1, tfields_td k g rest h.2]
  | .cons (.tuple _) rest, h => by
      simp [wfFields] at h
      simp [tfields, replaceTDList, replaceTD, tfields_td k g rest h]
  | .cons (.str _) rest, h => by
      simp [wfFields] at h
      simp [tfields, replaceTDList, replaceTD, tfields_td k g rest h]
  | .cons .none rest, h => by
      simp [wfFields] at h
      simp [tfields, replaceTDList, replaceTD, tfields_td k g rest h]
theorem titems_td (k : String) (g : Tree → Tree) :
    (xs : TreeList) → wfItems xs = true → titems (some ⟨k, g, false⟩) xs = replaceTDList k g xs
  | .nil, _ => by simp [titems, replaceTDList]
  | .cons (.node k' fs) rest, h => by
      simp [wfItems] at h
      simp [titems, replaceTDList, tvisit_td k g (.node k' fs) h.1, titems_td k g rest h.2]
  | .cons (.list _) _, h => by simp [wfItems] at h
  | .cons (.tuple _) _, h => by simp [wfItems] at h
  | .cons (.str _) _, h => by simp [wfItems] at h
  | .cons .none _, h => by simp [wfItems] at h
end

/-- **transform_override** (non-recursing handler) -/
theorem transform_override_topdown (k : String) (g : Tree → Tree) (t : Tree) (h : wf t = true) :
    tvisit (some ⟨k, g, false⟩) t = replaceTD k g t := tvisit_td k g t h

mutual
theorem mapBU_absent (k : String) (g : Tree → Tree) :
    (t : Tree) → hasKind k t = false → mapBU (fun n => if isKind k n then g n else n) t = t
  | .node k' fs, h => by
      simp [hasKind] at h
      rw [mapBU, mapBUList_absent k g fs h.2]
      simp [isKind, h.1]
  | .list items, h => by
      simp [hasKind] at h
      simp [mapBU, mapBUList_absent k g items h]
  | .tuple _, _ => by simp [mapBU]
  | .str _, _ => by simp [mapBU]
  | .none, _ => by simp [mapBU]
theorem mapBUList_absent (k : String) (g : Tree → Tree) :
    (ts : TreeList) → hasKindList k ts = false →
      mapBUList (fun n => if isKind k n then g n else n) ts = ts
  | .nil, _ => by simp [mapBUList]
  | .cons h t, hh => by
      simp [hasKindList] at hh
      simp [mapBUList, mapBU_absent k g h hh.1, mapBUList_absent k g t hh.2]
end

/-- an override for a kind that does not occur changes nothing -/
theorem override_absent_kind (k : String) (g : Tree → Tree) (t : Tree) (h : wf t = true)
    (ha : hasKind k t = false) : tvisit (some ⟨k, g, true⟩) t = t := by
  rw [transform_override k g t h]; exact mapBU_absent k g t ha

/-! ### every tree the typed AST embeds to has the shape the theorems assume -/
theorem toTree_isNode (e : Expr) : ∃ k fs, e.toTree = .node k fs := by
  cases e with
  | lit k v => cases k <;> exact ⟨_, _, rfl⟩
  | _ => exact ⟨_, _, rfl⟩

mutual
theorem wf_toTree : (e : Expr) → wf e.toTree = true
  | .ident i => by simp [Expr.toTree, Ident.toTree, wf, wfFields]
  | .attr o n => by
      have := wf_toTree o
      cases ho : o.toTree <;> simp_all [Expr.toTree, wf, wfFields]
  | .lit k v => by cases k <;> simp [Expr.toTree, Tree.leaf, wf, wfFields]
  | .list xs => by simp [Expr.toTree, wf, wfFields, wfItems_toTrees xs]
  | .binop o l r => by
      have h1 := wf_toTree l; have h2 := wf_toTree r
      cases hl : l.toTree <;> cases hr : r.toTree <;> simp_all [Expr.toTree, Tree.leaf, wf, wfFields]
  | .compare o l r => by
      have h1 := wf_toTree l; have h2 := wf_toTree r
      cases hl : l.toTree <;> cases hr : r.toTree <;> simp_all [Expr.toTree, Tree.leaf, wf, wfFields]
  | .boolop o l r => by
      have h1 := wf_toTree l; have h2 := wf_toTree r
      cases hl : l.toTree <;> cases hr : r.toTree <;> simp_all [Expr.toTree, Tree.leaf, wf, wfFields]
  | .unary o e => by
      have h1 := wf_toTree e
      cases he : e.toTree <;> simp_all [Expr.toTree, Tree.leaf, wf, wfFields]
  | .named n e => by
      have h1 := wf_toTree e
      cases he : e.toTree <;> simp_all [Expr.toTree, Ident.toTree, wf, wfFields]
  | .call f a => by simp [Expr.toTree, Ident.toTree, wf, wfFields, wfItems_toTrees a]
  | .coll ow o l => by
      have h1 := wf_toTree ow; have h2 := wf_optLam l
      cases how : ow.toTree <;> cases hl : l.toTree <;> simp_all [Expr.toTree, Tree.leaf, wf, wfFields]
theorem wfItems_toTrees : (xs : Exprs) → wfItems xs.toTrees = true
  | .nil => by simp [Exprs.toTrees, wfItems]
  | .cons h t => by
      have h1 := wf_toTree h; have h2 := wfItems_toTrees t
      obtain ⟨k, fs, hk⟩ := toTree_isNode h
      rw [hk] at h1
      simp [Exprs.toTrees, wfItems, hk, h1, h2]
theorem wf_optLam : (l : OptLam) → wf l.toTree = true
  | .none => by simp [OptLam.toTree, wf]
  | .some v b => by
      have h1 := wf_toTree b
      cases hb : b.toTree <;> simp_all [OptLam.toTree, Ident.toTree, wf, wfFields]
end

/-! non-vacuity: a tree with a list, a nested list node, an optional lambda and a named parameter -/
def sample : Tree :=
  (Expr.boolop .and_
    (.compare .in_ (.ident ⟨['a'], []⟩) (.list (.cons (.lit .int ['1']) (.cons (.list (.cons (.lit .str ['x']) .nil)) .nil))))
    (.coll (.attr (.ident ⟨['k'], []⟩) ['c']) .any .none)).toTree
example : wf sample = true := by decide
example : (visitTrace sample).length = 13 := by decide
example : hasKind "Integer" sample = true ∧ hasKind "Float" sample = false := by decide

end OQ.C16
