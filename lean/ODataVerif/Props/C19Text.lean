/-
  Props/C19Text.lean — C19 at the CHARACTER level: "replacing any run of whitespace by any other non-empty run of
  whitespace characters, and changing the ASCII letter case of the operator and literal keywords, yields an AST with the
  same structure and the same literal values".

  `Spec.Respell env ts s` (Spec/Respell.lean): `s` is an admissible re-spelling of the token list `ts`.
  For every printable tree whose literals / identifiers are lexable (`C13.lexableE'`, as in Props/C13Text.lean — no
  further condition on the re-spelled Boolean / Float texts is needed), every style, mode and re-spelling `s` of the
  printed tokens:
    `lex_respell`   : the lexer reads `s` without error as the printed tokens, up to `normTok` and modulo WS tokens
                      (`lex_respell_ins` : precisely, with a WS token inserted where a blank was written after a unary minus);
    `parse_respell` : `∃ e', parseText pyCharEnv s = .ok e' ∧ normE e' = normE e`.
  Helper lemmas: Lemmas/CaseMap.lean, CaseRules.lean (scanners commute with a letter-case change), RespellBlank.lean
  (whitespace), RespellTok.lean, RespellKw.lean (per token), RespellChain.lean, RespellPieces.lean (token lists),
  ParseNorm.lean, ParseSepG.lean (parser).
-/
import ODataVerif.Props.C13Text
import ODataVerif.Lemmas.RespellPieces
import ODataVerif.Lemmas.ParseNorm
import ODataVerif.Lemmas.ParseSepG
namespace OQ.C19
open Spec LexRender Respelling
set_option linter.unusedSimpArgs false
set_option linter.unusedVariables false

/-- drop the WS tokens (the parser skips them wherever the grammar allows optional whitespace) -/
def dropWs (ts : List Tok) : List Tok := ts.filter (· != .ws)

theorem insWs_dropWs {ts L : List Tok} (h : InsWs ts L) : (dropWs L).map normTok = (dropWs ts).map normTok := by
  induction h with
  | nil => rfl
  | @cons t t' ts L hn _ ih =>
    have hw : (t' != Tok.ws) = (t != Tok.ws) := by
      rw [Bool.eq_iff_iff]; simp [(class_norm hn).2.2.2.1]
    simp only [dropWs, List.filter_cons, hw] at ih ⊢
    split <;> simp [hn, ih]
  | ins _ _ ih => simpa [dropWs, List.filter_cons] using ih

theorem insWs_length {ts L : List Tok} (h : InsWs ts L) : ts.length ≤ L.length := by
  induction h with
  | nil => exact Nat.le_refl _
  | cons _ _ ih => simp; omega
  | ins _ _ ih => simp; omega

/-- TOKEN LEVEL: every admissible re-spelling of the printed tokens lexes, without error, to the printed tokens up to
    `normTok`, with WS tokens where a blank was written after a unary minus -/
theorem lex_respell_ins (sty : Style) (mode : Mode) (e : Expr) (hp : printable e = true)
    (hl : C13.lexableE' pyCharEnv e = true) (s : Str) (hs : Respell pyCharEnv (printToks sty mode e) s) :
    ∃ L, lexAll pyCharEnv s = ⟨L, none⟩ ∧ InsWs (printToks sty mode e) L := by
  have hc := C13.chain_printToks sty mode e hp hl
  have hc' : chainOk false (printToks sty mode e) := by
    cases hb : sty.afterMinus with
    | false => rw [hb] at hc; exact hc
    | true => rw [hb] at hc; exact chainOk_mono _ hc
  obtain ⟨ps, hfl, hpc, hins⟩ := respell_pieces hs hc'
  exact ⟨ps.map (·.tok), by rw [← hfl]; exact lexAll_pieces ps hpc, hins⟩

/-- TOKEN LEVEL, modulo the WS tokens (chosen form: equality after removing WS tokens) -/
theorem lex_respell (sty : Style) (mode : Mode) (e : Expr) (hp : printable e = true)
    (hl : C13.lexableE' pyCharEnv e = true) (s : Str) (hs : Respell pyCharEnv (printToks sty mode e) s) :
    (dropWs (lexAll pyCharEnv s).toks).map normTok = (dropWs (printToks sty mode e)).map normTok
      ∧ (lexAll pyCharEnv s).err = none := by
  obtain ⟨L, hL, hins⟩ := lex_respell_ins sty mode e hp hl s hs
  rw [hL]; exact ⟨insWs_dropWs hins, rfl⟩


open ParseNorm ParseSepG in
theorem sepG_irrel (n : Nat) (S : List Nat) : ∀ x : List Tok, x.length ≤ n → sepG (n :: S) x = sepG S x
  | [], _ => rfl
  | t :: r, h => by
      have hr : r.length ≤ n := by simp at h; omega
      have ih := sepG_irrel n S r hr
      by_cases ht : t = .uminus
      · subst ht
        have hne : (r.length == n) = false := by simp at h ⊢; omega
        simp only [sepG, List.contains_cons, hne, Bool.false_or, ih]
      · rw [ParseSepG.sep_cons_ne ht, ParseSepG.sep_cons_ne ht, ih]

open ParseNorm ParseSepG in
theorem wsHead_G (ts : List Tok) (h : ∀ r, ts ≠ .ws :: r) : wsHead (G ts) = false := by
  cases ts with
  | nil => rfl
  | cons t r =>
    cases t with
    | ws => exact absurd rfl (h r)
    | lit k v => simp [G, normTok_lit, wsHead]
    | _ => rfl

open ParseNorm ParseSepG in
/-- the lexed tokens are, up to `normTok`, the printed tokens with WS tokens inserted after some unary minus -/
theorem insWs_sepG {ts L : List Tok} (h : InsWs ts L) :
    ∃ S : List Nat, (∀ n ∈ S, n < ts.length) ∧ G L = sepG S (G ts) := by
  induction h with
  | nil => exact ⟨[], by simp, rfl⟩
  | @cons t t' ts L hn _ ih =>
    obtain ⟨S, hS, hG⟩ := ih
    refine ⟨S, fun n hn' => by have := hS n hn'; simp; omega, ?_⟩
    by_cases ht : t = .uminus
    · subst ht
      have ht' : normTok t' = .uminus := hn
      have hnc : S.contains (G ts).length = false := by
        cases hc : S.contains (G ts).length with
        | false => rfl
        | true =>
          have := hS _ (by simpa using hc)
          simp [G] at this
      have ht'' : t' = .uminus := normTok_eq_nonlit (by simp) ht'
      subst ht''
      simp only [G, List.map_cons, normTok, sepG]
      rw [show List.map normTok ts = G ts from rfl, hnc]
      simp only [Bool.false_and, Bool.false_eq_true, if_false]
      rw [← hG]
    · have hnu : normTok t ≠ .uminus := by
        intro e; exact ht (normTok_eq_nonlit (by simp) e)
      simp only [G, List.map_cons]
      rw [ParseSepG.sep_cons_ne hnu, hn]
      rw [show List.map normTok L = G L from rfl, hG]
  | @ins ts L hws _ ih =>
    obtain ⟨S, hS, hG⟩ := ih
    refine ⟨ts.length :: S, ?_, ?_⟩
    · intro n hn
      rcases List.mem_cons.1 hn with rfl | hn
      · simp
      · have := hS n hn; simp; omega
    · have hc : (ts.length :: S).contains (G ts).length = true := by simp [G]
      simp only [G, List.map_cons, normTok, sepG]
      rw [show List.map normTok ts = G ts from rfl, hc, wsHead_G ts hws]
      simp only [Bool.not_false, Bool.and_true, if_true]
      rw [sepG_irrel _ _ _ (by simp [G]), ← hG]

open ParseNorm ParseSepG in
/-- MAIN THEOREM (C19 at the character level): every admissible re-spelling of any rendering of a printable, lexable
    tree parses to a tree that is the same up to the letter case of Boolean and Float literal texts -/
theorem parse_respell (sty : Style) (mode : Mode) (e : Expr) (hp : printable e = true)
    (hl : C13.lexableE' pyCharEnv e = true) (s : Str) (hs : Respell pyCharEnv (printToks sty mode e) s) :
    ∃ e', parseText pyCharEnv s = .ok e' ∧ normE e' = normE e := by
  obtain ⟨L, hL, hins⟩ := lex_respell_ins sty mode e hp hl s hs
  obtain ⟨S, -, hG⟩ := insWs_sepG hins
  have hlen := insWs_length hins
  have hc := Pratt.core sty mode e hp 0 [] (e, []) 1 (Nat.le_refl 1) (fun _ => Nat.zero_le _) rfl rfl
    (fun f hf => by
      obtain ⟨f', rfl⟩ : ∃ f', f = f' + 1 := ⟨f - 1, by omega⟩
      exact Pratt.loop_stop _ _ _ _ rfl)
    (parseFuel L) (by simp only [parseFuel]; omega)
  rw [List.append_nil] at hc
  have h1 := (ninv (parseFuel L)).expr 0 (printToks sty mode e)
  rw [hc] at h1
  have h2 := (ParseSepG.sepInv S (parseFuel L)).expr _ _ _ _ h1
  rw [← hG, (ninv (parseFuel L)).expr 0 L] at h2
  cases hpl : parseExpr false (parseFuel L) 0 L with
  | error err => rw [hpl] at h2; simp at h2
  | ok q =>
    obtain ⟨e', r'⟩ := q
    rw [hpl] at h2
    simp only [mapR_ok, Except.ok.injEq, Prod.mk.injEq] at h2
    have hr : r' = [] := by
      have := h2.2; simp [G] at this; exact this
    subst hr
    refine ⟨e', ?_, h2.1⟩
    simp [parseText, hL, parseToks, hpl]


/-! ### non-vacuity: concrete re-spellings -/

/-- token by token -/
inductive Spells : List Tok → List Str → Prop
  | nil : Spells [] []
  | cons {t : Tok} {s : Str} {ts : List Tok} {ss : List Str} : SpellTok pyCharEnv t s → Spells ts ss →
      Spells (t :: ts) (s :: ss)

theorem respell_concat {ts : List Tok} {ss : List Str} (h : Spells ts ss) :
    (∀ t ∈ ts, t ≠ .uminus) → Respell pyCharEnv ts ss.flatten := by
  induction h with
  | nil => intro _; exact Respell.nil
  | @cons t s ts ss h1 _ ih =>
    intro hm
    simp only [List.flatten_cons]
    exact Respell.cons t ts s _ (hm t List.mem_cons_self) h1 (ih (fun u hu => hm u (List.mem_cons_of_mem _ hu)))

theorem blank (w : String) (h1 : w.toList ≠ [] := by decide)
    (h2 : w.toList.all pyCharEnv.isSpace = true := by decide +kernel) : isBlankRun pyCharEnv w.toList := ⟨h1, h2⟩

theorem ci (k s : String) (h : s.toList.map asciiLower = k.toList := by decide) : ciSpell k.toList s.toList := h

def ida (s : String) : Ident := ⟨s.toList, []⟩
def exA : Expr := .boolop .and_ (.compare .eq (.ident (ida "a")) (.lit .int ['1'])) (.unary .not_ (.ident (ida "b")))
def exB : Expr := .compare .in_ (.ident (ida "x")) (.list (.cons (.lit .int ['1']) (.cons (.lit .int ['2']) .nil)))
def exC : Expr := .compare .eq (.lit .duration "P1DT2H".toList) (.ident (ida "d"))
def exD : Expr := .compare .ge (.ident (ida "dt")) (.lit .datetime "2020-01-01T10:00:00Z".toList)
def exE : Expr := .compare .lt (.ident (ida "f")) (.lit .float "1e3".toList)
def exF : Expr := .compare .eq (.ident (ida "b")) (.lit .bool "true".toList)
def exG : Expr := .binop .add (.unary .neg (.lit .int ['1'])) (.unary .neg (.ident (ida "x")))

theorem exA_toks : printToks {} .minimal exA =
    [.ident (ida "a"), .cmp .eq, .lit .int ['1'], .bool .and_, .not_, .ident (ida "b")] := by
  simp [printToks, exA, operand, needsParen, level]
theorem exB_toks : printToks { beforeComma := true, afterComma := true } .minimal exB =
    [.ident (ida "x"), .cmp .in_, .lp, .lit .int ['1'], .ws, .comma, .ws, .lit .int ['2'], .rp] := by
  simp [printToks, printList, printArgs, exB, operand, needsParen, level, paren, commaToks, ws?]
theorem exC_toks : printToks {} .minimal exC = [.lit .duration "P1DT2H".toList, .cmp .eq, .ident (ida "d")] := by
  simp [printToks, exC, operand, needsParen, level]
theorem exD_toks : printToks {} .minimal exD =
    [.ident (ida "dt"), .cmp .ge, .lit .datetime "2020-01-01T10:00:00Z".toList] := by
  simp [printToks, exD, operand, needsParen, level]
theorem exE_toks : printToks {} .minimal exE = [.ident (ida "f"), .cmp .lt, .lit .float "1e3".toList] := by
  simp [printToks, exE, operand, needsParen, level]
theorem exF_toks : printToks {} .minimal exF = [.ident (ida "b"), .cmp .eq, .lit .bool "true".toList] := by
  simp [printToks, exF, operand, needsParen, level]
theorem exG_toks : printToks {} .minimal exG =
    [.uminus, .lit .int ['1'], .arith .add, .uminus, .ident (ida "x")] := by
  simp [printToks, exG, operand, needsParen, level, ws?]

/-- tabs, a newline, CR LF, mixed-case `EQ`, `AnD`, `NOT` -/
theorem exA_respell : Respell pyCharEnv (printToks {} .minimal exA) "a\t\tEQ\n1  AnD\r\nNOT  b".toList := by
  rw [exA_toks]
  have hsp : Spells [.ident (ida "a"), .cmp .eq, .lit .int ['1'], .bool .and_, .not_, .ident (ida "b")]
      ["a".toList, "\t\tEQ\n".toList, "1".toList, "  AnD\r\n".toList, "NOT  ".toList, "b".toList] :=
    .cons (.exact _ rfl) (.cons (.cmp .eq "\t\t".toList "EQ".toList "\n".toList (blank _) (blank _) (ci "eq" "EQ"))
      (.cons (.exact _ rfl) (.cons (.bool .and_ "  ".toList "AnD".toList "\r\n".toList (blank _) (blank _) (ci "and" "AnD"))
        (.cons (.not_ "NOT".toList "  ".toList (ci "not" "NOT") (blank _)) (.cons (.exact _ rfl) .nil)))))
  exact respell_concat hsp (by decide)


/-- a newline after the comma of a list -/
theorem exB_respell : Respell pyCharEnv (printToks { beforeComma := true, afterComma := true } .minimal exB)
    "x in (1 ,\n2)".toList := by
  rw [exB_toks]
  have hsp : Spells [.ident (ida "x"), .cmp .in_, .lp, .lit .int ['1'], .ws, .comma, .ws, .lit .int ['2'], .rp]
      ["x".toList, " in ".toList, "(".toList, "1".toList, " ".toList, ",".toList, "\n".toList, "2".toList, ")".toList] :=
    .cons (.exact _ rfl) (.cons (.cmp .in_ " ".toList "in".toList " ".toList (blank _) (blank _) (ci "in" "in"))
      (.cons (.exact _ rfl) (.cons (.exact _ rfl) (.cons (.ws _ (blank " ")) (.cons (.exact _ rfl)
        (.cons (.ws _ (blank "\n")) (.cons (.exact _ rfl) (.cons (.exact _ rfl) .nil))))))))
  exact respell_concat hsp (by decide)

/-- the duration prefix and body in the other letter case -/
theorem exC_respell : Respell pyCharEnv (printToks {} .minimal exC) "DURATION'p1dt2h' eq d".toList := by
  rw [exC_toks]
  have hsp : Spells [.lit .duration "P1DT2H".toList, .cmp .eq, .ident (ida "d")]
      ["DURATION".toList ++ '\'' :: "p1dt2h".toList ++ ['\''], " eq ".toList, "d".toList] :=
    .cons (.duration _ "DURATION".toList "p1dt2h".toList (ci "duration" "DURATION") (by decide))
      (.cons (.cmp .eq " ".toList "eq".toList " ".toList (blank _) (blank _) (ci "eq" "eq")) (.cons (.exact _ rfl) .nil))
  exact respell_concat hsp (by decide)

/-- lower-case `t` and `z` in a datetime, upper-case `GE` -/
theorem exD_respell : Respell pyCharEnv (printToks {} .minimal exD) "dt GE 2020-01-01t10:00:00z".toList := by
  rw [exD_toks]
  have hsp : Spells [.ident (ida "dt"), .cmp .ge, .lit .datetime "2020-01-01T10:00:00Z".toList]
      ["dt".toList, " GE ".toList, "2020-01-01t10:00:00z".toList] :=
    .cons (.exact _ rfl) (.cons (.cmp .ge " ".toList "GE".toList " ".toList (blank _) (blank _) (ci "ge" "GE"))
      (.cons (.datetime _ _ (by decide)) .nil))
  exact respell_concat hsp (by decide)

/-- upper-case exponent marker -/
theorem exE_respell : Respell pyCharEnv (printToks {} .minimal exE) "f lt 1E3".toList := by
  rw [exE_toks]
  have hsp : Spells [.ident (ida "f"), .cmp .lt, .lit .float "1e3".toList] ["f".toList, " lt ".toList, "1E3".toList] :=
    .cons (.exact _ rfl) (.cons (.cmp .lt " ".toList "lt".toList " ".toList (blank _) (blank _) (ci "lt" "lt"))
      (.cons (.float _ _ (by decide)) .nil))
  exact respell_concat hsp (by decide)

/-- upper-case Boolean literal -/
theorem exF_respell : Respell pyCharEnv (printToks {} .minimal exF) "b eq TRUE".toList := by
  rw [exF_toks]
  have hsp : Spells [.ident (ida "b"), .cmp .eq, .lit .bool "true".toList] ["b".toList, " eq ".toList, "TRUE".toList] :=
    .cons (.exact _ rfl) (.cons (.cmp .eq " ".toList "eq".toList " ".toList (blank _) (blank _) (ci "eq" "eq"))
      (.cons (.boolLit _ _ (by decide)) .nil))
  exact respell_concat hsp (by decide)

/-- a tab where `render` writes the blank after a unary minus, an optional blank after the other one -/
theorem exG_respell : Respell pyCharEnv (printToks {} .minimal exG) "-\t1\nADD\n- x".toList := by
  rw [exG_toks]
  have h1 : Respell pyCharEnv [.ident (ida "x")] ("x".toList ++ []) := .cons _ _ _ _ (by decide) (.exact _ rfl) .nil
  have h2 : Respell pyCharEnv [.uminus, .ident (ida "x")] ('-' :: " ".toList ++ ("x".toList ++ [])) :=
    .minusBlank _ _ _ (blank " ") h1
  have h3 := Respell.cons (.arith .add) _ _ _ (by decide)
    (.arith .add "\n".toList "ADD".toList "\n".toList (blank _) (blank _) (ci "add" "ADD")) h2
  have h4 := Respell.cons (.lit .int ['1']) _ _ _ (by decide) (.exact _ rfl) h3
  exact Respell.minusBlank _ _ _ (blank "\t") h4

theorem exA_parse : ∃ e', parseText pyCharEnv "a\t\tEQ\n1  AnD\r\nNOT  b".toList = .ok e' ∧ normE e' = normE exA :=
  parse_respell {} .minimal exA (by decide) (by decide +kernel) _ exA_respell
theorem exB_parse : ∃ e', parseText pyCharEnv "x in (1 ,\n2)".toList = .ok e' ∧ normE e' = normE exB :=
  parse_respell _ .minimal exB (by decide) (by decide +kernel) _ exB_respell
theorem exC_parse : ∃ e', parseText pyCharEnv "DURATION'p1dt2h' eq d".toList = .ok e' ∧ normE e' = normE exC :=
  parse_respell {} .minimal exC (by decide) (by decide +kernel) _ exC_respell
theorem exD_parse : ∃ e', parseText pyCharEnv "dt GE 2020-01-01t10:00:00z".toList = .ok e' ∧ normE e' = normE exD :=
  parse_respell {} .minimal exD (by decide) (by decide +kernel) _ exD_respell
theorem exE_parse : ∃ e', parseText pyCharEnv "f lt 1E3".toList = .ok e' ∧ normE e' = normE exE :=
  parse_respell {} .minimal exE (by decide) (by decide +kernel) _ exE_respell
theorem exF_parse : ∃ e', parseText pyCharEnv "b eq TRUE".toList = .ok e' ∧ normE e' = normE exF :=
  parse_respell {} .minimal exF (by decide) (by decide +kernel) _ exF_respell
theorem exG_parse : ∃ e', parseText pyCharEnv "-\t1\nADD\n- x".toList = .ok e' ∧ normE e' = normE exG :=
  parse_respell {} .minimal exG (by decide) (by decide +kernel) _ exG_respell

/-- the same facts by evaluation: the parser's trees are the expected ones exactly, except that the Float / Boolean
    texts keep the letter case they were written in -/
theorem ex_eval :
    parseText pyCharEnv "a\t\tEQ\n1  AnD\r\nNOT  b".toList = .ok exA ∧
    parseText pyCharEnv "x in (1 ,\n2)".toList = .ok exB ∧
    parseText pyCharEnv "DURATION'p1dt2h' eq d".toList = .ok exC ∧
    parseText pyCharEnv "dt GE 2020-01-01t10:00:00z".toList = .ok exD ∧
    parseText pyCharEnv "f lt 1E3".toList = .ok (.compare .lt (.ident (ida "f")) (.lit .float "1E3".toList)) ∧
    parseText pyCharEnv "b eq TRUE".toList = .ok (.compare .eq (.ident (ida "b")) (.lit .bool "TRUE".toList)) ∧
    parseText pyCharEnv "-\t1\nADD\n- x".toList = .ok exG := by
  decide +kernel

end OQ.C19
