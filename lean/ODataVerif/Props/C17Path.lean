/-
  Props/C17Path.lean — the two path clauses of C17 read off the (root, segments) view, for paths of
  EVERY depth: a path rooted at the variable loses exactly its first step and keeps every other
  segment in order (x/a becomes a, x/a/b becomes a/b, …); a path rooted anywhere else is returned
  unchanged.  Corollaries of `C17.strip_eq_reroot`.
-/
import ODataVerif.Props.C17
namespace OQ.C17
open Spec

theorem pathView_foldl (ss : List Str) : (r : Tree) →
    pathView (ss.foldl mkAttr r) = ((pathView r).1, (pathView r).2 ++ ss) := by
  induction ss with
  | nil => intro r; simp
  | cons a ss ih => intro r; rw [List.foldl_cons, ih (mkAttr r a), pathView_mkAttr]; simp

/-- the view of a built path is what it was built from -/
theorem pathView_buildPath (r : Tree) (hr : isAttr r = false) (ss : List Str) :
    pathView (buildPath r ss) = (r, ss) := by
  unfold buildPath; rw [pathView_foldl, pathView_nonAttr r hr]; simp

/-- **rooted_at_variable**: a path `x/s/rest…` of any depth becomes the path `s/rest…` — root the
    identifier `s`, the remaining segments unchanged and in order -/
theorem rooted_at_variable (x t : Tree) (hx : isAttr x = false) (ht : wf t = true)
    (ha : isAttr t = true) (s : Str) (rest : List Str) (hv : pathView t = (x, s :: rest)) :
    pathView (strip x t) = (mkIdent s, rest) := by
  rw [strip_eq_reroot x t hx ht]
  match t, ha with
  | .node k fs, ha =>
      have h1 : (pathView (.node k fs)).1 = x := by rw [hv]
      have h2 : (pathView (.node k fs)).2 = s :: rest := by rw [hv]
      simp only [reroot, ha, rerootPath, h1, h2, if_true]
      exact pathView_buildPath (mkIdent s) (by simp [mkIdent, isAttr]) rest

/-- **rooted_elsewhere**: a path whose root is not the variable is returned unchanged -/
theorem rooted_elsewhere (x t : Tree) (hx : isAttr x = false) (ht : wf t = true)
    (ha : isAttr t = true) (hr : (pathView t).1 ≠ x) : strip x t = t := by
  rw [strip_eq_reroot x t hx ht]
  match t, ha with
  | .node k fs, ha => simp [reroot, ha, rerootPath, hr]

/-! non-vacuity: a depth-3 path rooted at x, and the same path rooted at y -/
def deep (root : List Char) : Expr := .attr (.attr (.attr (.ident ⟨root, []⟩) ['a']) ['b']) ['c']
example : isAttr (deep ['x']).toTree = true ∧ pathView (deep ['x']).toTree = (xv.toTree, [['a'], ['b'], ['c']]) := by
  decide
example : (pathView (deep ['y']).toTree).1 ≠ xv.toTree := by decide

end OQ.C17
