/-
  Props/C14Bij.lean — C14, last clause: "rewriting with a fresh-name bijection followed by its inverse restores the original", for EVERY tree of the
  parser's shape and every fwdTable of field names to names that do not occur in the tree (the clause was checked by execution only before).
-/
import ODataVerif.Props.C14
import ODataVerif.Lemmas.AliasBij
namespace OQ.C14
open Spec

/-- the alias table `{old: new}` of a fwdTable of un-namespaced field names -/
def fwdTable (ps : List (Str × Str)) : List (Tree × Tree) := ps.map (fun p => (mkIdent p.1, mkIdent p.2))

/-- the inverse table `{new: old}` -/
def invTable (ps : List (Str × Str)) : List (Tree × Tree) := ps.map (fun p => (mkIdent p.2, mkIdent p.1))

/-- a fresh-name bijection for the tree `t`: old names pairwise distinct, new names pairwise distinct, no new name is an old name, and no new name occurs in
    the tree (as a field, a function name, a parameter name or a lambda variable) -/
def FreshBijection (ps : List (Str × Str)) (t : Tree) : Prop :=
  (ps.map Prod.fst).Nodup ∧ (ps.map Prod.snd).Nodup ∧ (∀ p ∈ ps, ∀ q ∈ ps, p.2 ≠ q.1) ∧ (∀ p ∈ ps, occurs (mkIdent p.2) t = false)

theorem bijection_roundtrip (ps : List (Str × Str)) (t : Tree) (hs : scopeOk t = true) (hb : FreshBijection ps t) :
    alias (invTable ps) (alias (fwdTable ps) t) = t := by
  obtain ⟨_, hnd, _, hfresh⟩ := hb
  refine AliasBij.alias_roundtrip (AliasBij.inverse_tables ps hnd) t hs ?_
  intro kv hkv
  obtain ⟨p, hp, rfl⟩ := List.mem_map.mp hkv
  exact hfresh p hp

/-- the same for typed ASTs -/
theorem bijection_roundtrip_expr (ps : List (Str × Str)) (e : Expr) (h : e.pathsOk = true) (hb : FreshBijection ps e.toTree) :
    alias (invTable ps) (alias (fwdTable ps) e.toTree) = e.toTree :=
  bijection_roundtrip ps e.toTree (scopeOk_toTree e h) hb

/-- non-vacuity: the tree of `date(date) eq 2020-01-01 and f.g(x=x) and (c/any(t: t/label eq t) or t/label eq t)` under a fwdTable of date, x, t, c -/
def ps₁ : List (Str × Str) := [("date".toList, "fresh_0".toList), ("x".toList, "fresh_1".toList), ("t".toList, "fresh_2".toList), ("c".toList, "fresh_3".toList)]
example : alias (fwdTable ps₁) e₁.toTree ≠ e₁.toTree := by decide
example : alias (invTable ps₁) (alias (fwdTable ps₁) e₁.toTree) = e₁.toTree := by decide

end OQ.C14
