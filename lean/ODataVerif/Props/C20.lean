/-
  Props/C20.lean — "Lexer and parser instances are reusable and deterministic".
  Proved about the instance state machine of Model/Instances.lean; hash seed, import order and SLY's
  table construction are runtime facts covered by checks/c20.py (partial).
-/
import ODataVerif.Model.Instances
namespace OQ.C20

/-- one step of a tokenizer does not depend on what is on the shared lexer instance -/
theorem tokNext_indep (env : CharEnv) (fr : TokFrame) (i1 i2 : LexerInst) :
    (tokNext env fr i1).1 = (tokNext env fr i2).1 ∧ (tokNext env fr i1).2.1 = (tokNext env fr i2).2.1 := by
  unfold tokNext
  split
  · exact ⟨rfl, rfl⟩
  · split
    · exact ⟨rfl, rfl⟩
    · split <;> exact ⟨rfl, rfl⟩

/-- a tokenizer's whole output does not depend on the instance it starts from -/
theorem tokRun_indep (env : CharEnv) (n : Nat) (fr : TokFrame) (i1 i2 : LexerInst) :
    tokRun env n fr i1 = tokRun env n fr i2 := by
  induction n generalizing fr i1 i2 with
  | zero => rfl
  | succ n ih =>
      have h := tokNext_indep env fr i1 i2
      unfold tokRun
      rcases h1 : tokNext env fr i1 with ⟨s1, f1, j1⟩
      rcases h2 : tokNext env fr i2 with ⟨s2, f2, j2⟩
      rw [h1, h2] at h
      simp only at h
      obtain ⟨hs, hf⟩ := h
      subst hs; subst hf
      cases s1 with
      | tok t => simp only; rw [ih f1 j1 j2]
      | stop => rfl
      | error i => rfl

/-- the steps tokenizer A takes inside an interleaving are exactly its steps when it runs alone
    (for every schedule, every other tokenizer, every starting instance) -/
def stepsOf (env : CharEnv) : Nat → TokFrame → LexerInst → List TokStep
  | 0, _, _ => []
  | n + 1, fr, inst =>
      let (s, fr', inst') := tokNext env fr inst
      s :: stepsOf env n fr' inst'

theorem stepsOf_indep (env : CharEnv) (n : Nat) (fr : TokFrame) (i1 i2 : LexerInst) :
    stepsOf env n fr i1 = stepsOf env n fr i2 := by
  induction n generalizing fr i1 i2 with
  | zero => rfl
  | succ n ih =>
      have h := tokNext_indep env fr i1 i2
      unfold stepsOf
      rcases h1 : tokNext env fr i1 with ⟨s1, f1, j1⟩
      rcases h2 : tokNext env fr i2 with ⟨s2, f2, j2⟩
      rw [h1, h2] at h
      simp only at h
      obtain ⟨hs, hf⟩ := h
      subst hs; subst hf
      simp only
      rw [ih f1 j1 j2]

/-- **interleaving**: in any schedule of two tokenizers on one lexer instance, each produces exactly
    the steps it produces alone -/
theorem interleave_indep (env : CharEnv) (sch : List Bool) (a b : TokFrame) (inst : LexerInst) :
    (tokInterleave env sch a b inst).1 = stepsOf env (sch.filter (· == false)).length a inst ∧
    (tokInterleave env sch a b inst).2 = stepsOf env (sch.filter (· == true)).length b inst := by
  induction sch generalizing a b inst with
  | nil => exact ⟨rfl, rfl⟩
  | cons x sch ih =>
      cases x with
      | false =>
          simp only [tokInterleave, List.filter_cons, beq_self_eq_true, if_true, List.length_cons]
          rcases h1 : tokNext env a inst with ⟨s, a', inst'⟩
          simp only
          obtain ⟨iha, ihb⟩ := ih a' b inst'
          constructor
          · simp [stepsOf, h1, iha]
          · simp only [show (false == true) = false from rfl, Bool.false_eq_true, if_false]
            rw [ihb]; exact stepsOf_indep env _ b inst' inst
      | true =>
          simp only [tokInterleave, List.filter_cons, beq_self_eq_true, if_true, List.length_cons]
          rcases h1 : tokNext env b inst with ⟨s, b', inst'⟩
          simp only
          obtain ⟨iha, ihb⟩ := ih a b' inst'
          constructor
          · simp only [show (true == false) = false from rfl, Bool.false_eq_true, if_false]
            rw [iha]; exact stepsOf_indep env _ a inst' inst
          · simp [stepsOf, h1, ihb]

/-- `reset` establishes the configuration the driver starts from, whatever was there before -/
theorem reset_clean (p : ParserInst) :
    p.reset.state = 0 ∧ p.reset.statestack = [0] ∧ p.reset.symstack = ["$end"] := ⟨rfl, rfl, rfl⟩

/-- a parse on an instance with arbitrary state gives what a fresh instance gives -/
theorem parse_state_independent (p : ParserInst) (le : Option Nat) (ts : List Tok) :
    (parseOn p le ts).1 = (parseOn freshParser le ts).1 := by
  simp [parseOn, lrRun, ParserInst.reset]

/-- **history independence**: after ANY history of parse calls (valid filters, syntax errors,
    tokenising errors, function errors) the result of a probe equals the result on a fresh instance -/
theorem history_independent (h : List (Option Nat × List Tok)) (le : Option Nat) (ts : List Tok) :
    (parseOn (runHistory freshParser h) le ts).1 = (parseOn freshParser le ts).1 :=
  parse_state_independent _ le ts

/-- and it is the parse itself (never the `dirty` outcome) -/
theorem parseOn_is_parse (p : ParserInst) (le : Option Nat) (ts : List Tok) :
    (parseOn p le ts).1 = parseToks le ts := by
  simp [parseOn, lrRun, ParserInst.reset]

/-! non-vacuity: the driver started on a dirty instance WOULD misbehave in the model — the theorem is about `reset` -/
example : lrRun (leftover freshParser [.lp] (.lib (.parsing none))) none [.lit .int ['1']] = .foreign "dirty-parser-state" := by
  decide
example : (parseOn (leftover freshParser [.lp] (.lib (.parsing none))) none [.lit .int ['1']]).1 = .ok (.lit .int ['1']) := by
  decide

end OQ.C20
