/-
  Props/C08.lean — "ORM backends pass every filter value to the database as a bound parameter".

  The models of the Django and SQLAlchemy visitors build an `OTree` whose leaves are columns, BOUND PARAMETERS
  (`Value(v)` / `literal(v)`), the library's own integer parameters, or inline constants (TRUE / FALSE / NULL).
  * `dj_params`, `sa_params`      the bound parameters of a successful translation are exactly the filter's
                                  literals, in order (nothing is dropped, nothing else is bound)
  * `dj_skeleton`, `sa_skeleton`  two filters that differ only in literal VALUES (strings, numbers, dates,
                                  GUIDs, durations, list elements) translate to trees with the same skeleton —
                                  everything the compiled SQL text can depend on is the same
  That `Value` / `literal` compile to placeholders is an environment fact, checked on the real compiled SQL.
-/
import ODataVerif.Model.Orm
import ODataVerif.Lemmas.OrmParams
namespace OQ.C08

mutual
/-- the filter's literals in document order (`null` has no value) -/
def lits : Expr → List (LitKind × Str)
  | .ident _ => []
  | .attr o _ => lits o
  | .lit .null _ => []
  | .lit k v => [(k, v)]
  | .list xs => litsList xs
  | .binop _ l r => lits l ++ lits r
  | .compare _ l r => lits l ++ lits r
  | .boolop _ l r => lits l ++ lits r
  | .unary _ e => lits e
  | .named _ e => lits e
  | .call _ args => litsList args
  | .coll o _ l => lits o ++ litsLam l
def litsList : Exprs → List (LitKind × Str)
  | .nil => []
  | .cons h t => lits h ++ litsList t
def litsLam : OptLam → List (LitKind × Str)
  | .none => []
  | .some _ b => lits b
end

/-- kinds whose VALUE may change between the two filters of C08's pairs -/
def valueKind : LitKind → Bool
  | .null | .bool => false
  | _ => true

mutual
/-- the two trees are equal except for the values of literals of a `valueKind` -/
def relit : Expr → Expr → Bool
  | .ident i, .ident j => i == j
  | .attr o n, .attr o' n' => relit o o' && n == n'
  | .lit k v, .lit k' v' => k == k' && (valueKind k || v == v')
  | .list xs, .list ys => relitList xs ys
  | .binop o l r, .binop o' l' r' => o == o' && relit l l' && relit r r'
  | .compare o l r, .compare o' l' r' => o == o' && relit l l' && relit r r'
  | .boolop o l r, .boolop o' l' r' => o == o' && relit l l' && relit r r'
  | .unary o e, .unary o' e' => o == o' && relit e e'
  | .named n e, .named n' e' => n == n' && relit e e'
  | .call f a, .call f' a' => f == f' && relitList a a'
  | .coll o op l, .coll o' op' l' => relit o o' && op == op' && relitLam l l'
  | _, _ => false
def relitList : Exprs → Exprs → Bool
  | .nil, .nil => true
  | .cons h t, .cons h' t' => relit h h' && relitList t t'
  | _, _ => false
def relitLam : OptLam → OptLam → Bool
  | .none, .none => true
  | .some v b, .some v' b' => v == v' && relit b b'
  | _, _ => false
end

mutual
/-- `relit`, and corresponding literals agree on whether they contain a LIKE wildcard (`%`, `_`, `/`):
    the SQLAlchemy visitor passes `autoescape=True` for such a literal substring -/
def relitSa : Expr → Expr → Bool
  | .ident i, .ident j => i == j
  | .attr o n, .attr o' n' => relitSa o o' && n == n'
  | .lit k v, .lit k' v' => k == k' && (valueKind k || v == v') && (litNeedsEscape (.lit k v) == litNeedsEscape (.lit k' v'))
  | .list xs, .list ys => relitSaList xs ys
  | .binop o l r, .binop o' l' r' => o == o' && relitSa l l' && relitSa r r'
  | .compare o l r, .compare o' l' r' => o == o' && relitSa l l' && relitSa r r'
  | .boolop o l r, .boolop o' l' r' => o == o' && relitSa l l' && relitSa r r'
  | .unary o e, .unary o' e' => o == o' && relitSa e e'
  | .named n e, .named n' e' => n == n' && relitSa e e'
  | .call f a, .call f' a' => f == f' && relitSaList a a'
  | .coll o op l, .coll o' op' l' => relitSa o o' && op == op' && relitSaLam l l'
  | _, _ => false
def relitSaList : Exprs → Exprs → Bool
  | .nil, .nil => true
  | .cons h t, .cons h' t' => relitSa h h' && relitSaList t t'
  | _, _ => false
def relitSaLam : OptLam → OptLam → Bool
  | .none, .none => true
  | .some v b, .some v' b' => v == v' && relitSa b b'
  | _, _ => false
end

open OQ.OrmParams

/-! ### Django: parameters -/

def DjP (e : Expr) : Prop := ∀ t k, djVisit e = .ok (t, k) → t.params.filter (fun p => p.1 != .null) = lits e

theorem dj_params_list : (xs : Exprs) → (∀ a ∈ xs.toList, DjP a) → ∀ items, djVisitList xs = .ok items →
    (OTrees.ofList items).params.filter (fun p => p.1 != .null) = litsList xs
  | .nil, _, items, h => by
      rw [djVisitList] at h; cases h; simp [litsList]
  | .cons a t, ih, items, h => by
      rw [djVisitList] at h
      simp only [bind_eq_ok, Prod.exists, Outcome.pure_eq] at h
      obtain ⟨x, kx, hx, rest, hr, h⟩ := h
      cases h
      have h1 := ih a (by simp [Exprs.toList]) _ _ hx
      have h2 := dj_params_list t (fun b hb => ih b (by simp [Exprs.toList, hb])) _ hr
      simp [litsList, h1, h2]

theorem dj_params_func (key : String) (args : Exprs) (ih : ∀ a ∈ args.toList, DjP a) (t k)
    (h : djFunc key args = .ok (t, k)) : t.params.filter (fun p => p.1 != .null) = litsList args := by
  unfold djFunc at h
  simp only [] at h
  split at h
  all_goals try split at h
  all_goals try (simp only [bind_eq_ok, Prod.exists, Outcome.pure_eq, reduceCtorEq] at h)
  all_goals try (
    simp only [Exprs.toList, List.mem_cons, List.not_mem_nil, or_false, forall_eq_or_imp, forall_eq, DjP] at ih
    simp only [Outcome.ok.injEq, Prod.mk.injEq] at h
    grind [litsList, params_on1, params_on2, params_on3, params_pint, params_node, params_nil])
  obtain ⟨items, hi, h⟩ := h
  have hl := dj_params_list args ih items hi
  split at h
  · cases h; simpa using hl
  · cases h

theorem lits_null_of (e) (h : isNullLit e = true) : lits e = [] := by
  obtain ⟨v, rfl⟩ := (isNullLit_iff e).1 h
  simp [lits]

theorem dj_params_visit (e : Expr) : DjP e := by
  refine expr_ind (P := DjP) ?_ ?_ ?_ ?_ ?_ ?_ ?_ ?_ ?_ ?_ ?_ e
  · intro i t k h
    rw [djVisit] at h; cases h; simp [lits]
  · intro o n ih t k h
    rw [djVisit] at h
    simp only [bind_eq_ok, Prod.exists, Outcome.pure_eq] at h
    obtain ⟨x, kx, hx, h⟩ := h
    have := ih _ _ hx
    split at h
    · cases h; simpa [lits] using this
    · cases h
  · intro kd v t k h
    by_cases hk : kd = .null
    · subst hk; rw [djVisit] at h; cases h; simp [lits]
    · rw [djVisit.eq_4 _ _ hk] at h
      simp only [bind_eq_ok, Outcome.pure_eq] at h
      obtain ⟨p, hp, h⟩ := h
      cases h
      rw [litParam_ok _ _ _ hp]
      cases kd <;> simp_all [lits]
  · intro xs ih t k h
    rw [djVisit] at h
    simp only [bind_eq_ok, Outcome.pure_eq] at h
    obtain ⟨items, hi, h⟩ := h
    cases h
    simpa [lits] using dj_params_list xs ih items hi
  · intro op l r ihl ihr t k h
    rw [djVisit] at h
    simp only [bind_eq_ok, Prod.exists, Outcome.pure_eq] at h
    obtain ⟨a, ka, ha, b, kb, hb, h⟩ := h
    split at h
    · cases h
    · cases h; simp [lits, ihl _ _ ha, ihr _ _ hb]
  · intro op l r ihl ihr t k h
    rw [djVisit] at h
    split at h
    · rename_i hc
      simp only [Bool.and_eq_true] at hc
      simp only [bind_eq_ok, Prod.exists, Outcome.pure_eq] at h
      obtain ⟨a, ka, ha, h⟩ := h
      have := ihr _ _ ha
      split at h <;> cases h <;> simp [lits, lits_null_of _ hc.1, this]
    · split at h
      · rename_i hc
        simp only [bind_eq_ok, Prod.exists, Outcome.pure_eq] at h
        obtain ⟨a, ka, ha, h⟩ := h
        have := ihl _ _ ha
        repeat' split at h
        all_goals cases h
        all_goals simp [lits, lits_null_of _ hc, this]
      · simp only [bind_eq_ok, Prod.exists, Outcome.pure_eq] at h
        obtain ⟨a, ka, ha, b, kb, hb, h⟩ := h
        cases h; simp [lits, ihl _ _ ha, ihr _ _ hb]
  · intro op l r ihl ihr t k h
    rw [djVisit] at h
    simp only [bind_eq_ok, Prod.exists, Outcome.pure_eq] at h
    obtain ⟨a, ka, ha, b, kb, hb, h⟩ := h
    repeat' split at h
    all_goals cases h
    all_goals simp [lits, ihl _ _ ha, ihr _ _ hb]
  · intro op e ih t k h
    rw [djVisit] at h
    simp only [bind_eq_ok, Prod.exists, Outcome.pure_eq] at h
    obtain ⟨a, ka, ha, h⟩ := h
    repeat' split at h
    all_goals cases h
    all_goals simp [lits, ih _ _ ha]
  · intro n e t k h
    rw [djVisit] at h; cases h
  · intro f args ih t k h
    rw [djVisit] at h
    repeat' split at h
    · cases h
    · cases h
    · cases h
    · cases h
    · simpa [lits] using dj_params_func _ args ih t k h
  · intro o op l t k h
    rw [djVisit] at h; cases h

/-- Django: the bound parameters are exactly the filter's literals (a `null` inside a list is bound as NULL) -/
theorem dj_params (e : Expr) (t : OTree) (h : djBuild e = .ok t) :
    t.params.filter (fun p => p.1 != .null) = lits e := by
  unfold djBuild at h
  split at h
  · rename_i t' k hv
    repeat' split at h
    all_goals cases h
    exact dj_params_visit e _ _ hv
  all_goals cases h

/-! ### skeletons: generic part -/
/-! relit inversion -/
theorem relitList_nil_left (ys) : relitList .nil ys = true ↔ ys = .nil := by
  cases ys <;> simp [relitList]
theorem relitList_cons_left (h t ys) :
    relitList (.cons h t) ys = true ↔ ∃ h' t', ys = .cons h' t' ∧ relit h h' = true ∧ relitList t t' = true := by
  cases ys with
  | nil => simp [relitList]
  | cons h' t' =>
    simp only [relitList, Bool.and_eq_true]
    constructor
    · rintro ⟨h1, h2⟩; exact ⟨h', t', rfl, h1, h2⟩
    · rintro ⟨_, _, he, h1, h2⟩; cases he; exact ⟨h1, h2⟩
/-- what the skeleton lemmas need of a relation on expressions and its lifting to argument lists -/
structure ListRel (R : Expr → Expr → Bool) (RL : Exprs → Exprs → Bool) : Prop where
  nil : ∀ {ys}, RL .nil ys = true → ys = .nil
  cons : ∀ {h t ys}, RL (.cons h t) ys = true → ∃ h' t', ys = .cons h' t' ∧ R h h' = true ∧ RL t t' = true

section
variable {R : Expr → Expr → Bool} {RL : Exprs → Exprs → Bool}

theorem ListRel.one (LR : ListRel R RL) {a ys} (h : RL (.cons a .nil) ys = true) :
    ∃ a', ys = .cons a' .nil ∧ R a a' = true := by
  obtain ⟨a', t', rfl, h1, h2⟩ := LR.cons h
  cases LR.nil h2; exact ⟨a', rfl, h1⟩
theorem ListRel.two (LR : ListRel R RL) {a b ys} (h : RL (.cons a (.cons b .nil)) ys = true) :
    ∃ a' b', ys = .cons a' (.cons b' .nil) ∧ R a a' = true ∧ R b b' = true := by
  obtain ⟨a', t', rfl, h1, h2⟩ := LR.cons h
  obtain ⟨b', rfl, h3⟩ := LR.one h2
  exact ⟨a', b', rfl, h1, h3⟩
theorem ListRel.three (LR : ListRel R RL) {a b c ys} (h : RL (.cons a (.cons b (.cons c .nil))) ys = true) :
    ∃ a' b' c', ys = .cons a' (.cons b' (.cons c' .nil)) ∧ R a a' = true ∧ R b b' = true ∧ R c c' = true := by
  obtain ⟨a', t', rfl, h1, h2⟩ := LR.cons h
  obtain ⟨b', c', rfl, h3, h4⟩ := LR.two h2
  exact ⟨a', b', c', rfl, h1, h3, h4⟩

def SkelP (R : Expr → Expr → Bool) (visit : Expr → Outcome (OTree × OKind)) (e : Expr) : Prop :=
  ∀ e' t k t' k', R e e' = true → visit e = .ok (t, k) → visit e' = .ok (t', k') → t.skeleton = t'.skeleton

theorem visitAll_skel (LR : ListRel R RL) (visit) : (xs ys : Exprs) → (∀ a ∈ xs.toList, SkelP R visit a) →
    RL xs ys = true → ∀ items items', visitAll visit xs = .ok items → visitAll visit ys = .ok items' →
      (OTrees.ofList items).skeleton = (OTrees.ofList items').skeleton
  | .nil, ys, _, hr, items, items', h, h' => by
      cases LR.nil hr
      rw [visitAll] at h h'; cases h; cases h'; rfl
  | .cons a t, ys, ih, hr, items, items', h, h' => by
      obtain ⟨a', t', rfl, hra, hrt⟩ := LR.cons hr
      rw [visitAll] at h h'
      simp only [bind_eq_ok, Prod.exists, Outcome.pure_eq] at h h'
      obtain ⟨x, kx, hx, rest, hrest, h⟩ := h
      obtain ⟨x', kx', hx', rest', hrest', h'⟩ := h'
      cases h; cases h'
      have h1 := ih a (by simp [Exprs.toList]) _ _ _ _ _ hra hx hx'
      have h2 := visitAll_skel LR visit t t' (fun b hb => ih b (by simp [Exprs.toList, hb])) hrt _ _ hrest hrest'
      simp [h1, h2]

theorem runPlan_skel (LR : ListRel R RL) (visit) (plan : FPlan) (args args' : Exprs)
    (ih : ∀ a ∈ args.toList, SkelP R visit a) (hr : RL args args' = true)
    (hesc : ∀ n, plan = .likeEsc n → escOf args = escOf args') (t k t' k')
    (h : runPlan visit (visitAll visit) plan args = .ok (t, k))
    (h' : runPlan visit (visitAll visit) plan args' = .ok (t', k')) : t.skeleton = t'.skeleton := by
  cases plan
  case concat2 name =>
    simp only [runPlan, bind_eq_ok] at h h'
    obtain ⟨items, hi, h⟩ := h
    obtain ⟨items', hi', h'⟩ := h'
    have := visitAll_skel LR visit args args' ih hr _ _ hi hi'
    split at h <;> split at h' <;> cases h <;> cases h'
    simp at this
    simp [this]
  case concatN name =>
    simp only [runPlan, bind_eq_ok, Outcome.pure_eq] at h h'
    obtain ⟨items, hi, h⟩ := h
    obtain ⟨items', hi', h'⟩ := h'
    have := visitAll_skel LR visit args args' ih hr _ _ hi hi'
    cases h; cases h'
    simp [this]
  case bad key =>
    simp [runPlan] at h
  all_goals
    rcases args with _ | ⟨a, _ | ⟨b, _ | ⟨c, _ | ⟨d, r⟩⟩⟩⟩
    all_goals try (simp [runPlan] at h; done)
  all_goals
    try simp only [Exprs.toList, List.mem_cons, List.not_mem_nil, or_false, forall_eq_or_imp, forall_eq, SkelP] at ih
    first
      | obtain ⟨a', rfl, ha⟩ := LR.one hr
      | obtain ⟨a', b', rfl, ha, hb⟩ := LR.two hr
      | obtain ⟨a', b', c', rfl, ha, hb, hc⟩ := LR.three hr
      | cases LR.nil hr
    have hesc := fun n => hesc n
    simp only [FPlan.likeEsc.injEq, reduceCtorEq, forall_eq', false_imp_iff, implies_true, escOf, List.cons.injEq,
      and_true] at hesc
    simp only [runPlan, bind_eq_ok, Prod.exists, Outcome.pure_eq, Outcome.ok.injEq, Prod.mk.injEq] at h h'
    grind [skel_on1, skel_on2, skel_on3, skel_pint, skel_node, skel_nil]
end

theorem relit_listRel : ListRel relit relitList :=
  ⟨fun h => (relitList_nil_left _).1 h, fun h => (relitList_cons_left _ _ _).1 h⟩

theorem relit_ident {i e'} (h : relit (.ident i) e' = true) : e' = .ident i := by
  cases e' <;> simp [relit] at h
  rw [h]
theorem relit_attr {o n e'} (h : relit (.attr o n) e' = true) : ∃ o', e' = .attr o' n ∧ relit o o' = true := by
  cases e' <;> simp [relit] at h
  obtain ⟨h1, rfl⟩ := h; exact ⟨_, rfl, h1⟩
theorem relit_lit {k v e'} (h : relit (.lit k v) e' = true) :
    ∃ v', e' = .lit k v' ∧ (valueKind k = true ∨ v = v') := by
  cases e' <;> simp [relit] at h
  obtain ⟨rfl, h1⟩ := h; exact ⟨_, rfl, h1⟩
theorem relit_list {xs e'} (h : relit (.list xs) e' = true) : ∃ ys, e' = .list ys ∧ relitList xs ys = true := by
  cases e' <;> simp [relit] at h
  exact ⟨_, rfl, h⟩
theorem relit_binop {o l r e'} (h : relit (.binop o l r) e' = true) :
    ∃ l' r', e' = .binop o l' r' ∧ relit l l' = true ∧ relit r r' = true := by
  cases e' <;> simp [relit] at h
  obtain ⟨⟨rfl, h1⟩, h2⟩ := h; exact ⟨_, _, rfl, h1, h2⟩
theorem relit_compare {o l r e'} (h : relit (.compare o l r) e' = true) :
    ∃ l' r', e' = .compare o l' r' ∧ relit l l' = true ∧ relit r r' = true := by
  cases e' <;> simp [relit] at h
  obtain ⟨⟨rfl, h1⟩, h2⟩ := h; exact ⟨_, _, rfl, h1, h2⟩
theorem relit_boolop {o l r e'} (h : relit (.boolop o l r) e' = true) :
    ∃ l' r', e' = .boolop o l' r' ∧ relit l l' = true ∧ relit r r' = true := by
  cases e' <;> simp [relit] at h
  obtain ⟨⟨rfl, h1⟩, h2⟩ := h; exact ⟨_, _, rfl, h1, h2⟩
theorem relit_unary {o e e'} (h : relit (.unary o e) e' = true) : ∃ e1, e' = .unary o e1 ∧ relit e e1 = true := by
  cases e' <;> simp [relit] at h
  obtain ⟨rfl, h1⟩ := h; exact ⟨_, rfl, h1⟩
theorem relit_call {f a e'} (h : relit (.call f a) e' = true) : ∃ a', e' = .call f a' ∧ relitList a a' = true := by
  cases e' <;> simp [relit] at h
  obtain ⟨rfl, h1⟩ := h; exact ⟨_, rfl, h1⟩

theorem relit_isNullLit {e e'} (h : relit e e' = true) : isNullLit e = isNullLit e' := by
  cases e <;> cases e' <;> simp [relit] at h <;> try rfl
  rename_i k v k' v'
  obtain ⟨rfl, _⟩ := h
  cases k <;> rfl

/-! ### Django: skeleton -/

theorem djFunc_eq' (key args) : djFunc key args = runPlan djVisit (visitAll djVisit) (djPlan key) args := by
  rw [djFunc_eq, show djVisitList = visitAll djVisit from funext djVisitList_eq]

theorem dj_skel_visit (e : Expr) : SkelP relit djVisit e := by
  refine expr_ind (P := SkelP relit djVisit) ?_ ?_ ?_ ?_ ?_ ?_ ?_ ?_ ?_ ?_ ?_ e
  · intro i e' t k t' k' hr h h'
    cases relit_ident hr
    rw [h] at h'; cases h'; rfl
  · intro o n ih e' t k t' k' hr h h'
    obtain ⟨o', rfl, hro⟩ := relit_attr hr
    rw [djVisit] at h h'
    simp only [bind_eq_ok, Prod.exists, Outcome.pure_eq] at h h'
    obtain ⟨x, kx, hx, h⟩ := h
    obtain ⟨x', kx', hx', h'⟩ := h'
    have := ih _ _ _ _ _ hro hx hx'
    split at h <;> split at h' <;> cases h <;> cases h'
    simp at this
    simp [this]
  · intro kd v e' t k t' k' hr h h'
    obtain ⟨v', rfl, hv⟩ := relit_lit hr
    by_cases hk : kd = .null
    · subst hk; rw [djVisit] at h h'; cases h; cases h'; rfl
    · rw [djVisit.eq_4 _ _ hk] at h h'
      simp only [bind_eq_ok, Outcome.pure_eq] at h h'
      obtain ⟨p, hp, h⟩ := h
      obtain ⟨p', hp', h'⟩ := h'
      cases h; cases h'
      rw [litParam_ok _ _ _ hp, litParam_ok _ _ _ hp']
      simp
  · intro xs ih e' t k t' k' hr h h'
    obtain ⟨ys, rfl, hrl⟩ := relit_list hr
    rw [djVisit, djVisitList_eq] at h h'
    simp only [bind_eq_ok, Outcome.pure_eq] at h h'
    obtain ⟨items, hi, h⟩ := h
    obtain ⟨items', hi', h'⟩ := h'
    cases h; cases h'
    simp [visitAll_skel relit_listRel djVisit xs ys ih hrl _ _ hi hi']
  · intro op l r ihl ihr e' t k t' k' hr h h'
    obtain ⟨l', r', rfl, hrl, hrr⟩ := relit_binop hr
    rw [djVisit] at h h'
    simp only [bind_eq_ok, Prod.exists, Outcome.pure_eq] at h h'
    obtain ⟨a, ka, ha, b, kb, hb, h⟩ := h
    obtain ⟨a', ka', ha', b', kb', hb', h'⟩ := h'
    split at h <;> split at h' <;> cases h <;> cases h'
    simp [ihl _ _ _ _ _ hrl ha ha', ihr _ _ _ _ _ hrr hb hb']
  · intro op l r ihl ihr e' t k t' k' hr h h'
    obtain ⟨l', r', rfl, hrl, hrr⟩ := relit_compare hr
    rw [djVisit] at h h'
    rw [← relit_isNullLit hrl, ← relit_isNullLit hrr] at h'
    by_cases c1 : (isNullLit l && (op == .eq || op == .ne)) = true
    · rw [if_pos c1] at h h'
      simp only [bind_eq_ok, Prod.exists, Outcome.pure_eq] at h h'
      obtain ⟨a, ka, ha, h⟩ := h
      obtain ⟨a', ka', ha', h'⟩ := h'
      have := ihr _ _ _ _ _ hrr ha ha'
      split at h <;> split at h' <;> cases h <;> cases h' <;> first | contradiction | simp [this]
    · rw [if_neg c1] at h h'
      by_cases c2 : isNullLit r = true
      · rw [if_pos c2] at h h'
        simp only [bind_eq_ok, Prod.exists, Outcome.pure_eq] at h h'
        obtain ⟨a, ka, ha, h⟩ := h
        obtain ⟨a', ka', ha', h'⟩ := h'
        have := ihl _ _ _ _ _ hrl ha ha'
        repeat' split at h
        all_goals cases h
        all_goals repeat' split at h'
        all_goals cases h'
        all_goals first | contradiction | simp [this]
      · rw [if_neg c2] at h h'
        simp only [bind_eq_ok, Prod.exists, Outcome.pure_eq] at h h'
        obtain ⟨a, ka, ha, b, kb, hb, h⟩ := h
        obtain ⟨a', ka', ha', b', kb', hb', h'⟩ := h'
        cases h; cases h'
        simp [ihl _ _ _ _ _ hrl ha ha', ihr _ _ _ _ _ hrr hb hb']
  · intro op l r ihl ihr e' t k t' k' hr h h'
    obtain ⟨l', r', rfl, hrl, hrr⟩ := relit_boolop hr
    rw [djVisit] at h h'
    simp only [bind_eq_ok, Prod.exists, Outcome.pure_eq] at h h'
    obtain ⟨a, ka, ha, b, kb, hb, h⟩ := h
    obtain ⟨a', ka', ha', b', kb', hb', h'⟩ := h'
    repeat' split at h
    all_goals cases h
    all_goals repeat' split at h'
    all_goals cases h'
    all_goals first | contradiction | simp [ihl _ _ _ _ _ hrl ha ha', ihr _ _ _ _ _ hrr hb hb']
  · intro op e ih e' t k t' k' hr h h'
    obtain ⟨e1, rfl, hre⟩ := relit_unary hr
    rw [djVisit] at h h'
    simp only [bind_eq_ok, Prod.exists, Outcome.pure_eq] at h h'
    obtain ⟨a, ka, ha, h⟩ := h
    obtain ⟨a', ka', ha', h'⟩ := h'
    repeat' split at h
    all_goals cases h
    all_goals repeat' split at h'
    all_goals cases h'
    all_goals first | contradiction | simp [ih _ _ _ _ _ hre ha ha']
  · intro n e e' t k t' k' hr h h'
    rw [djVisit] at h; cases h
  · intro f args ih e' t k t' k' hr h h'
    obtain ⟨args', rfl, hra⟩ := relit_call hr
    rw [djVisit] at h h'
    repeat' split at h
    all_goals try cases h
    repeat' split at h'
    all_goals try cases h'
    rw [djFunc_eq'] at h h'
    exact runPlan_skel relit_listRel djVisit _ args args' ih hra (fun n hn => absurd hn (djPlan_noEsc _ _)) _ _ _ _ h h'
  · intro o op l e' t k t' k' hr h h'
    rw [djVisit] at h; cases h

/-- Django: the tree's skeleton does not depend on literal values -/
theorem dj_skeleton (e e' : Expr) (t t' : OTree) (hr : relit e e' = true)
    (h : djBuild e = .ok t) (h' : djBuild e' = .ok t') : t.skeleton = t'.skeleton := by
  unfold djBuild at h h'
  split at h
  · rename_i t1 k1 hv
    split at h'
    · rename_i t2 k2 hv'
      repeat' split at h
      all_goals cases h
      repeat' split at h'
      all_goals cases h'
      exact dj_skel_visit e e' _ _ _ _ hr hv hv'
    all_goals cases h'
  all_goals cases h

/-! ### SQLAlchemy: parameters -/

def ParP (visit : Expr → Outcome (OTree × OKind)) (e : Expr) : Prop :=
  ∀ t k, visit e = .ok (t, k) → t.params = (lits e).filter (fun p => p.1 != .bool)

theorem visitAll_params (visit) : (xs : Exprs) → (∀ a ∈ xs.toList, ParP visit a) → ∀ items,
    visitAll visit xs = .ok items → (OTrees.ofList items).params = (litsList xs).filter (fun p => p.1 != .bool)
  | .nil, _, items, h => by
      rw [visitAll] at h; cases h; simp [litsList]
  | .cons a t, ih, items, h => by
      rw [visitAll] at h
      simp only [bind_eq_ok, Prod.exists, Outcome.pure_eq] at h
      obtain ⟨x, kx, hx, rest, hr, h⟩ := h
      cases h
      have h1 := ih a (by simp [Exprs.toList]) _ _ hx
      have h2 := visitAll_params visit t (fun b hb => ih b (by simp [Exprs.toList, hb])) _ hr
      simp [litsList, h1, h2]

theorem runPlan_params (visit) (plan : FPlan) (args : Exprs) (ih : ∀ a ∈ args.toList, ParP visit a) (t k)
    (h : runPlan visit (visitAll visit) plan args = .ok (t, k)) :
    t.params = (litsList args).filter (fun p => p.1 != .bool) := by
  cases plan
  case concat2 name =>
    simp only [runPlan, bind_eq_ok] at h
    obtain ⟨items, hi, h⟩ := h
    have := visitAll_params visit args ih _ hi
    split at h <;> cases h
    simpa using this
  case concatN name =>
    simp only [runPlan, bind_eq_ok, Outcome.pure_eq] at h
    obtain ⟨items, hi, h⟩ := h
    have := visitAll_params visit args ih _ hi
    cases h
    simpa using this
  case bad key =>
    simp [runPlan] at h
  all_goals
    rcases args with _ | ⟨a, _ | ⟨b, _ | ⟨c, _ | ⟨d, r⟩⟩⟩⟩
    all_goals try (simp [runPlan] at h; done)
  all_goals
    try simp only [Exprs.toList, List.mem_cons, List.not_mem_nil, or_false, forall_eq_or_imp, forall_eq, ParP] at ih
    simp only [runPlan, bind_eq_ok, Prod.exists, Outcome.pure_eq, Outcome.ok.injEq, Prod.mk.injEq] at h
    grind [litsList, params_on1, params_on2, params_on3, params_pint, params_node, params_nil]

section
variable (fields : List Str) (core : Bool)

theorem sa_params_visit (e : Expr) : ParP (saVisit fields core) e := by
  refine expr_ind (P := ParP (saVisit fields core)) ?_ ?_ ?_ ?_ ?_ ?_ ?_ ?_ ?_ ?_ ?_ e
  · intro i t k h
    rw [saVisit] at h
    split at h <;> cases h
    simp [lits]
  · intro o n ih t k h
    rw [saVisit] at h
    split at h <;> cases h
  · intro kd v t k h
    by_cases h1 : kd = .null
    · subst h1; rw [saVisit] at h; cases h; simp [lits]
    by_cases h2 : kd = .bool
    · subst h2; rw [saVisit] at h; cases h; simp [lits]
    by_cases h3 : kd = .guid
    · subst h3; rw [saVisit] at h; cases h; simp [lits]
    rw [saVisit.eq_7 _ _ _ _ h1 h2 h3] at h
    simp only [bind_eq_ok, Outcome.pure_eq] at h
    obtain ⟨p, hp, h⟩ := h
    cases h
    rw [litParam_ok _ _ _ hp]
    cases kd <;> simp_all [lits]
  · intro xs ih t k h
    rw [saVisit, saVisitList_eq] at h
    simp only [bind_eq_ok, Outcome.pure_eq] at h
    obtain ⟨items, hi, h⟩ := h
    cases h
    simpa [lits] using visitAll_params _ xs ih items hi
  · intro op l r ihl ihr t k h
    rw [saVisit] at h
    simp only [bind_eq_ok, Prod.exists, Outcome.pure_eq] at h
    obtain ⟨a, ka, ha, b, kb, hb, h⟩ := h
    split at h
    · cases h
    · cases h; simp [lits, ihl _ _ ha, ihr _ _ hb]
  · intro op l r ihl ihr t k h
    rw [saVisit] at h
    simp only [bind_eq_ok, Prod.exists, Outcome.pure_eq] at h
    obtain ⟨a, ka, ha, b, kb, hb, h⟩ := h
    by_cases hsw : (isNullLit l && (op == .eq || op == .ne)) = true
    · -- `null eq x`: the operands are swapped; the null literal binds no parameter
      have hl0 : lits l = [] := lits_null_of l (by simp only [Bool.and_eq_true] at hsw; exact hsw.1)
      have pa := ihl _ _ ha
      rw [hl0] at pa
      simp only [hsw, ↓reduceIte] at h
      repeat' split at h
      all_goals cases h
      all_goals simp [lits, hl0, pa, ihr _ _ hb]
    · simp only [hsw, Bool.false_eq_true, ↓reduceIte] at h
      repeat' split at h
      all_goals cases h
      all_goals simp [lits, ihl _ _ ha, ihr _ _ hb]
  · intro op l r ihl ihr t k h
    rw [saVisit] at h
    simp only [bind_eq_ok, Prod.exists, Outcome.pure_eq] at h
    obtain ⟨a, ka, ha, b, kb, hb, h⟩ := h
    cases h
    simp [lits, ihl _ _ ha, ihr _ _ hb]
  · intro op e ih t k h
    rw [saVisit] at h
    simp only [bind_eq_ok, Prod.exists, Outcome.pure_eq] at h
    obtain ⟨a, ka, ha, h⟩ := h
    repeat' split at h
    all_goals cases h
    all_goals simp [lits, ih _ _ ha]
  · intro n e t k h
    rw [saVisit] at h; cases h
  · intro f args ih t k h
    rw [saVisit] at h
    repeat' split at h
    · cases h
    · rw [saFunc_eq'] at h
      simpa [lits] using runPlan_params _ _ args ih t k h
  · intro o op l t k h
    rw [saVisit] at h
    split at h <;> cases h
end

/-- SQLAlchemy (ORM and Core): the bound parameters are exactly the filter's non-Boolean literals -/
theorem sa_params (fields : List Str) (core : Bool) (e : Expr) (t : OTree) (h : saBuild fields core e = .ok t) :
    t.params = (lits e).filter (fun p => p.1 != .bool) := by
  unfold saBuild at h
  rw [bind_eq_ok'] at h
  obtain ⟨⟨t', k⟩, hv, h⟩ := h
  cases h
  exact sa_params_visit fields core e _ _ hv

/-! ### `relitSa` -/
theorem relitSaList_nil_left (ys) : relitSaList .nil ys = true ↔ ys = .nil := by
  cases ys <;> simp [relitSaList]
theorem relitSaList_cons_left (h t ys) :
    relitSaList (.cons h t) ys = true ↔ ∃ h' t', ys = .cons h' t' ∧ relitSa h h' = true ∧ relitSaList t t' = true := by
  cases ys with
  | nil => simp [relitSaList]
  | cons h' t' =>
    simp only [relitSaList, Bool.and_eq_true]
    constructor
    · rintro ⟨h1, h2⟩; exact ⟨h', t', rfl, h1, h2⟩
    · rintro ⟨_, _, he, h1, h2⟩; cases he; exact ⟨h1, h2⟩
theorem relitSa_listRel : ListRel relitSa relitSaList :=
  ⟨fun h => (relitSaList_nil_left _).1 h, fun h => (relitSaList_cons_left _ _ _).1 h⟩

theorem relitSa_ident {i e'} (h : relitSa (.ident i) e' = true) : e' = .ident i := by
  cases e' <;> simp [relitSa] at h
  rw [h]
theorem relitSa_lit {k v e'} (h : relitSa (.lit k v) e' = true) :
    ∃ v', e' = .lit k v' ∧ (valueKind k = true ∨ v = v') := by
  cases e' <;> simp [relitSa] at h
  obtain ⟨⟨rfl, h1⟩, _⟩ := h; exact ⟨_, rfl, h1⟩
/-- a null literal corresponds to a null literal: both comparisons swap their operands, or neither does -/
theorem isNullLit_relitSa {l l' : Expr} (h : relitSa l l' = true) : isNullLit l = isNullLit l' := by
  cases l <;> cases l' <;> simp [relitSa] at h <;> try rfl
  rename_i k v k' v'
  have hk : k = k' := h.1.1
  subst hk
  cases k <;> rfl
theorem relitSa_list {xs e'} (h : relitSa (.list xs) e' = true) : ∃ ys, e' = .list ys ∧ relitSaList xs ys = true := by
  cases e' <;> simp [relitSa] at h
  exact ⟨_, rfl, h⟩
theorem relitSa_binop {o l r e'} (h : relitSa (.binop o l r) e' = true) :
    ∃ l' r', e' = .binop o l' r' ∧ relitSa l l' = true ∧ relitSa r r' = true := by
  cases e' <;> simp [relitSa] at h
  obtain ⟨⟨rfl, h1⟩, h2⟩ := h; exact ⟨_, _, rfl, h1, h2⟩
theorem relitSa_compare {o l r e'} (h : relitSa (.compare o l r) e' = true) :
    ∃ l' r', e' = .compare o l' r' ∧ relitSa l l' = true ∧ relitSa r r' = true := by
  cases e' <;> simp [relitSa] at h
  obtain ⟨⟨rfl, h1⟩, h2⟩ := h; exact ⟨_, _, rfl, h1, h2⟩
theorem relitSa_boolop {o l r e'} (h : relitSa (.boolop o l r) e' = true) :
    ∃ l' r', e' = .boolop o l' r' ∧ relitSa l l' = true ∧ relitSa r r' = true := by
  cases e' <;> simp [relitSa] at h
  obtain ⟨⟨rfl, h1⟩, h2⟩ := h; exact ⟨_, _, rfl, h1, h2⟩
theorem relitSa_unary {o e e'} (h : relitSa (.unary o e) e' = true) : ∃ e1, e' = .unary o e1 ∧ relitSa e e1 = true := by
  cases e' <;> simp [relitSa] at h
  obtain ⟨rfl, h1⟩ := h; exact ⟨_, rfl, h1⟩
theorem relitSa_call {f a e'} (h : relitSa (.call f a) e' = true) : ∃ a', e' = .call f a' ∧ relitSaList a a' = true := by
  cases e' <;> simp [relitSa] at h
  obtain ⟨rfl, h1⟩ := h; exact ⟨_, rfl, h1⟩

/-- `relitSa` preserves whether an expression is a literal with a LIKE wildcard -/
theorem relitSa_esc {e e'} (h : relitSa e e' = true) : litNeedsEscape e = litNeedsEscape e' := by
  cases e <;> cases e' <;> simp [relitSa] at h <;> first | rfl | exact h.2
theorem relitSaList_escOf : (xs ys : Exprs) → relitSaList xs ys = true → escOf xs = escOf ys
  | .nil, ys, h => by cases (relitSaList_nil_left ys).1 h; rfl
  | .cons a t, ys, h => by
      obtain ⟨a', t', rfl, h1, h2⟩ := (relitSaList_cons_left _ _ _).1 h
      simp [escOf, relitSa_esc h1, relitSaList_escOf t t' h2]

mutual
/-- `relitSa` refines `relit` -/
theorem relit_of_relitSa : (e e' : Expr) → relitSa e e' = true → relit e e' = true
  | .ident i, e', h => by cases e' <;> simp [relitSa] at h; simp [relit, h]
  | .attr o n, e', h => by
      cases e' <;> simp [relitSa] at h
      simp [relit, relit_of_relitSa o _ h.1, h.2]
  | .lit k v, e', h => by
      cases e' <;> simp [relitSa] at h
      obtain ⟨⟨rfl, h1⟩, _⟩ := h
      simpa [relit] using h1
  | .list xs, e', h => by
      cases e' <;> simp [relitSa] at h
      simp [relit, relitList_of_relitSaList xs _ h]
  | .binop o l r, e', h => by
      cases e' <;> simp [relitSa] at h
      simp [relit, h.1.1, relit_of_relitSa l _ h.1.2, relit_of_relitSa r _ h.2]
  | .compare o l r, e', h => by
      cases e' <;> simp [relitSa] at h
      simp [relit, h.1.1, relit_of_relitSa l _ h.1.2, relit_of_relitSa r _ h.2]
  | .boolop o l r, e', h => by
      cases e' <;> simp [relitSa] at h
      simp [relit, h.1.1, relit_of_relitSa l _ h.1.2, relit_of_relitSa r _ h.2]
  | .unary o e, e', h => by
      cases e' <;> simp [relitSa] at h
      simp [relit, h.1, relit_of_relitSa e _ h.2]
  | .named n e, e', h => by
      cases e' <;> simp [relitSa] at h
      simp [relit, h.1, relit_of_relitSa e _ h.2]
  | .call f a, e', h => by
      cases e' <;> simp [relitSa] at h
      simp [relit, h.1, relitList_of_relitSaList a _ h.2]
  | .coll o op l, e', h => by
      cases e' <;> simp [relitSa] at h
      simp [relit, relit_of_relitSa o _ h.1.1, h.1.2, relitLam_of_relitSaLam l _ h.2]
theorem relitList_of_relitSaList : (xs ys : Exprs) → relitSaList xs ys = true → relitList xs ys = true
  | .nil, ys, h => by cases ys <;> simp [relitSaList] at h; simp [relitList]
  | .cons a t, ys, h => by
      cases ys <;> simp [relitSaList] at h
      simp [relitList, relit_of_relitSa a _ h.1, relitList_of_relitSaList t _ h.2]
theorem relitLam_of_relitSaLam : (l l' : OptLam) → relitSaLam l l' = true → relitLam l l' = true
  | .none, l', h => by cases l' <;> simp [relitSaLam] at h; simp [relitLam]
  | .some v b, l', h => by
      cases l' <;> simp [relitSaLam] at h
      simp [relitLam, h.1, relit_of_relitSa b _ h.2]
end

/-! ### SQLAlchemy: skeleton -/

section
variable (fields : List Str) (core : Bool)

theorem sa_skel_visit (e : Expr) : SkelP relitSa (saVisit fields core) e := by
  refine expr_ind (P := SkelP relitSa (saVisit fields core)) ?_ ?_ ?_ ?_ ?_ ?_ ?_ ?_ ?_ ?_ ?_ e
  · intro i e' t k t' k' hr h h'
    cases relitSa_ident hr
    rw [h] at h'; cases h'; rfl
  · intro o n ih e' t k t' k' hr h h'
    rw [saVisit] at h
    split at h <;> cases h
  · intro kd v e' t k t' k' hr h h'
    obtain ⟨v', rfl, hv⟩ := relitSa_lit hr
    by_cases h1 : kd = .null
    · subst h1; rw [saVisit] at h h'; cases h; cases h'; rfl
    by_cases h2 : kd = .bool
    · subst h2
      have : v = v' := by simpa [valueKind] using hv
      subst this
      rw [h] at h'; cases h'; rfl
    by_cases h3 : kd = .guid
    · subst h3; rw [saVisit] at h h'; cases h; cases h'; simp
    rw [saVisit.eq_7 _ _ _ _ h1 h2 h3] at h h'
    simp only [bind_eq_ok, Outcome.pure_eq] at h h'
    obtain ⟨p, hp, h⟩ := h
    obtain ⟨p', hp', h'⟩ := h'
    cases h; cases h'
    rw [litParam_ok _ _ _ hp, litParam_ok _ _ _ hp']
    simp
  · intro xs ih e' t k t' k' hr h h'
    obtain ⟨ys, rfl, hrl⟩ := relitSa_list hr
    rw [saVisit, saVisitList_eq] at h h'
    simp only [bind_eq_ok, Outcome.pure_eq] at h h'
    obtain ⟨items, hi, h⟩ := h
    obtain ⟨items', hi', h'⟩ := h'
    cases h; cases h'
    simp [visitAll_skel relitSa_listRel _ xs ys ih hrl _ _ hi hi']
  · intro op l r ihl ihr e' t k t' k' hr h h'
    obtain ⟨l', r', rfl, hrl, hrr⟩ := relitSa_binop hr
    rw [saVisit] at h h'
    simp only [bind_eq_ok, Prod.exists, Outcome.pure_eq] at h h'
    obtain ⟨a, ka, ha, b, kb, hb, h⟩ := h
    obtain ⟨a', ka', ha', b', kb', hb', h'⟩ := h'
    split at h <;> split at h' <;> cases h <;> cases h'
    simp [ihl _ _ _ _ _ hrl ha ha', ihr _ _ _ _ _ hrr hb hb']
  · intro op l r ihl ihr e' t k t' k' hr h h'
    obtain ⟨l', r', rfl, hrl, hrr⟩ := relitSa_compare hr
    rw [saVisit] at h h'
    simp only [bind_eq_ok, Prod.exists, Outcome.pure_eq] at h h'
    obtain ⟨a, ka, ha, b, kb, hb, h⟩ := h
    obtain ⟨a', ka', ha', b', kb', hb', h'⟩ := h'
    rw [← isNullLit_relitSa hrl] at h'
    by_cases hsw : (isNullLit l && (op == .eq || op == .ne)) = true
    all_goals simp only [hsw, Bool.false_eq_true, ↓reduceIte] at h h'
    all_goals repeat' split at h
    all_goals cases h
    all_goals repeat' split at h'
    all_goals cases h'
    all_goals first | contradiction | simp [ihl _ _ _ _ _ hrl ha ha', ihr _ _ _ _ _ hrr hb hb']
  · intro op l r ihl ihr e' t k t' k' hr h h'
    obtain ⟨l', r', rfl, hrl, hrr⟩ := relitSa_boolop hr
    rw [saVisit] at h h'
    simp only [bind_eq_ok, Prod.exists, Outcome.pure_eq] at h h'
    obtain ⟨a, ka, ha, b, kb, hb, h⟩ := h
    obtain ⟨a', ka', ha', b', kb', hb', h'⟩ := h'
    cases h; cases h'
    simp [ihl _ _ _ _ _ hrl ha ha', ihr _ _ _ _ _ hrr hb hb']
  · intro op e ih e' t k t' k' hr h h'
    obtain ⟨e1, rfl, hre⟩ := relitSa_unary hr
    rw [saVisit] at h h'
    simp only [bind_eq_ok, Prod.exists, Outcome.pure_eq] at h h'
    obtain ⟨a, ka, ha, h⟩ := h
    obtain ⟨a', ka', ha', h'⟩ := h'
    repeat' split at h
    all_goals cases h
    all_goals repeat' split at h'
    all_goals cases h'
    all_goals first | contradiction | simp [ih _ _ _ _ _ hre ha ha']
  · intro n e e' t k t' k' hr h h'
    rw [saVisit] at h; cases h
  · intro f args ih e' t k t' k' hr h h'
    obtain ⟨args', rfl, hra⟩ := relitSa_call hr
    rw [saVisit] at h h'
    repeat' split at h
    all_goals try cases h
    repeat' split at h'
    all_goals try cases h'
    rw [saFunc_eq'] at h h'
    exact runPlan_skel relitSa_listRel _ _ args args' ih hra (fun _ _ => relitSaList_escOf _ _ hra) _ _ _ _ h h'
  · intro o op l e' t k t' k' hr h h'
    rw [saVisit] at h
    split at h <;> cases h
end

/-- SQLAlchemy: the tree's skeleton does not depend on literal values -/
theorem sa_skeleton (fields : List Str) (core : Bool) (e e' : Expr) (t t' : OTree) (hr : relitSa e e' = true)
    (h : saBuild fields core e = .ok t) (h' : saBuild fields core e' = .ok t') : t.skeleton = t'.skeleton := by
  unfold saBuild at h h'
  rw [bind_eq_ok'] at h h'
  obtain ⟨⟨t1, k1⟩, hv, h⟩ := h
  obtain ⟨⟨t2, k2⟩, hv', h'⟩ := h'
  cases h; cases h'
  exact sa_skel_visit fields core e e' _ _ _ _ hr hv hv'

/-! ### known finding: autoescape -/
def containsE (s : String) : Expr :=
  .call ⟨"contains".toList, []⟩ (.cons (.ident ⟨"s1".toList, []⟩) (.cons (.lit .str s.toList) .nil))

/-- the operator name at the root of a tree -/
def topOp : OTree → String
  | .node op _ => op
  | _ => ""

theorem kf_key : String.ofList (pyLower (funcKey ⟨"contains".toList, []⟩)) = "contains" := by decide +kernel
theorem kf_handler : ormHandlers.contains "contains" = true := by decide +kernel
theorem kf_plan : saPlan "contains" = .likeEsc "contains" := by rfl

theorem kf_field : ["s1".toList].contains "s1".toList = true := by decide +kernel
theorem kf_typecheck (v) : substrTypecheck (Expr.ident { name := "s1".toList }) (Expr.lit LitKind.str v) = .ok () := by
  simp [substrTypecheck, inferType]
theorem kf_litParam (v) : litParam .str v = .ok (.param .str v) := rfl

theorem containsE_visit (s : String) :
    saVisit ["s1".toList] false (containsE s) =
      .ok (on2 (if litNeedsEscape (.lit .str s.toList) then "contains" ++ "_autoescape" else "contains")
            (.col ["s1".toList]) (.param .str s.toList), .cond) := by
  unfold containsE
  rw [saVisit]
  simp only [kf_key, kf_handler, saFunc_eq', kf_plan, runPlan]
  rw [saVisit, saVisit.eq_7 _ _ _ _ (by decide) (by decide) (by decide)]
  simp only [kf_typecheck, kf_litParam, kf_field, Bool.not_true, Bool.false_eq_true, if_false, if_true, Outcome.bind_ok, Outcome.pure_eq]

/-- KNOWN FINDING (witness, Boolean form): the root operator differs -/
theorem kf_autoescape_top :
    (saBuild ["s1".toList] false (containsE "ab")).bind (fun t => .ok (topOp t.skeleton)) = .ok "contains" ∧
    (saBuild ["s1".toList] false (containsE "a%b")).bind (fun t => .ok (topOp t.skeleton)) = .ok "contains_autoescape" := by
  have e1 : litNeedsEscape (.lit .str "ab".toList) = false := by decide +kernel
  have e2 : litNeedsEscape (.lit .str "a%b".toList) = true := by decide +kernel
  constructor
  · rw [saBuild, containsE_visit, e1]
    simp [Outcome.bind, on2, topOp]
  · rw [saBuild, containsE_visit, e2]
    simp [Outcome.bind, on2, topOp]

/-- KNOWN FINDING (witness): a wildcard in a literal substring changes the skeleton (autoescape) -/
theorem kf_autoescape :
    (saBuild ["s1".toList] false (containsE "ab")).bind (fun t => .ok t.skeleton)
      ≠ (saBuild ["s1".toList] false (containsE "a%b")).bind (fun t => .ok t.skeleton) := by
  intro h
  have h2 := congrArg (fun o : Outcome OTree => o.bind (fun t => Outcome.ok (topOp t))) h
  have h3 : ∀ x : Outcome OTree, (x.bind (fun t => Outcome.ok t.skeleton)).bind (fun t => Outcome.ok (topOp t))
      = x.bind (fun t => .ok (topOp t.skeleton)) := by
    intro x; cases x <;> rfl
  simp only [h3] at h2
  rw [kf_autoescape_top.1, kf_autoescape_top.2] at h2
  revert h2
  decide

end OQ.C08
