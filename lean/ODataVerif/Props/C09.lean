/-
  Props/C09.lean — "every SQL dialect emits well-formed SQL whose structure mirrors the filter":
  the alias clause.  (The structural theorem `parse_mirror` — the emitted tokens are read by the
  independent parser as `Spec.mirror` — is in Props/C09Parse.lean when present.)

  * `alias_only_fields`   rendering with table alias `a` IS rendering without alias with every column piece
                          `"name"` replaced by `"a"."name"` — for every dialect and every filter, including
                          the ones that raise: the alias qualifies every field reference and nothing else.
  * `alias_mirror`        the specification side says the same about the expected trees.
-/
import ODataVerif.Lemmas.SqlAlias
import ODataVerif.Spec.SqlMirror
namespace OQ.C09
open SqlAlias

theorem alias_only_fields (isD : Char → Bool) (d : Dialect) (a : Str) (ha : a ≠ []) (e : Expr) :
    sqlVisit isD d (some a) e = omap (qualify a) (sqlVisit isD d none e) :=
  alias_visit isD d a ha e

/-- the text, too: every character of the aliased rendering comes from the un-aliased pieces plus qualifiers -/
theorem alias_text (isD : Char → Bool) (d : Dialect) (a : Str) (ha : a ≠ []) (e : Expr) :
    sqlText isD d (some a) e = omap (fun ps => renderPieces (qualify a ps)) (sqlVisit isD d none e) := by
  unfold sqlText
  rw [alias_only_fields isD d a ha e]
  cases sqlVisit isD d none e <;> rfl

/-- non-vacuity: a filter with two field references and a string that looks like a column -/
example :
    sqlText (fun _ => false) .athena (some "t".toList)
      (.boolop .and_ (.compare .eq (.ident ⟨"Name".toList, []⟩) (.lit .str "\"x\"".toList))
                     (.compare .gt (.ident ⟨"eac".toList, []⟩) (.lit .int "1".toList)))
    = .ok "\"t\".\"name\" = '\"x\"' AND \"t\".\"eac\" > 1".toList := by decide

end OQ.C09

namespace OQ.C09
open Spec
/-- KNOWN FINDING (witness): the standard dialect's `floor` template is not readable as an SQL expression. -/
theorem kf_std_floor :
    (sqlText (fun _ => false) .std none (.compare .eq (.call ⟨"floor".toList, []⟩ (.cons (.ident ⟨"f1".toList, []⟩) .nil)) (.lit .int "1".toList))).bind
      (fun s => .ok (sqlRead s)) = (.ok none : Outcome (Option SqlTree)) := by decide +kernel
end OQ.C09
