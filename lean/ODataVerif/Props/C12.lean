/-
  Props/C12.lean — "a backend that cannot express a construct refuses it instead of mistranslating":
  the raw SQL dialects never leak an internal error.

  * `sql_never_leaks`  for every dialect, alias and every tree whose built-in calls have the argument counts the
                       parser enforces (`callsOk`, from Spec.Builtins) and whose duration literals have the
                       lexer's shape (`durOk`), the visitor model returns SQL pieces or one of the library's
                       exceptions — never AttributeError / TypeError / IndexError / KeyError / ValueError and
                       never NotImplementedError.
  Completeness of a successful translation ("every field, literal, operator and call is represented") is
  C09's `parse_mirror`: the emitted text reads back as `Spec.mirror`, which has one node per filter node.
-/
import ODataVerif.Lemmas.SqlTotal
namespace OQ.C12
open Spec SqlAlias SqlTotal

mutual
/-- every call to a function of the OData table (no namespace, or `geo`) has an admissible argument count -/
def callsOk : Expr → Bool
  | .ident _ | .lit _ _ => true
  | .attr o _ => callsOk o
  | .list xs => callsOkList xs
  | .binop _ l r => callsOk l && callsOk r
  | .compare _ l r => callsOk l && callsOk r
  | .boolop _ l r => callsOk l && callsOk r
  | .unary _ e => callsOk e
  | .named _ e => callsOk e
  | .call f args => callOk f args.length && callsOkList args
  | .coll o _ l => callsOk o && callsOkLam l
def callsOkList : Exprs → Bool
  | .nil => true
  | .cons h t => callsOk h && callsOkList t
def callsOkLam : OptLam → Bool
  | .none => true
  | .some _ b => callsOk b
end

variable (isD : Char → Bool) (d : Dialect) (al : Option Str)

mutual
theorem sql_never_leaks : (e : Expr) → callsOk e = true → durOk isD e = true →
    clean (sqlVisit isD d al e) = true
  | .ident _, _, _ => by rw [sqlVisit]; rfl
  | .attr _ _, _, _ => by rw [sqlVisit]; rfl
  | .named _ _, _, _ => by rw [sqlVisit]; rfl
  | .coll _ _ _, _, _ => by rw [sqlVisit]; rfl
  | .lit k v, _, hd => by
      rw [sqlVisit]
      exact litPieces_clean isD d k v (by simpa [durOk] using hd)
  | .list xs, hc, hd => by
      rw [sqlVisit]
      exact clean_bind _ _ (sql_never_leaks_list xs (by simpa [callsOk] using hc) (by simpa [durOk] using hd)) (fun _ => rfl)
  | .binop op l r, hc, hd => by
      rw [sqlVisit]
      simp only [callsOk, Bool.and_eq_true] at hc
      simp only [durOk, Bool.and_eq_true] at hd
      exact clean_bind _ _ (sql_never_leaks l hc.1 hd.1) (fun _ =>
        clean_bind _ _ (sql_never_leaks r hc.2 hd.2) (fun _ => rfl))
  | .compare op l r, hc, hd => by
      rw [sqlVisit]
      simp only [callsOk, Bool.and_eq_true] at hc
      simp only [durOk, Bool.and_eq_true] at hd
      exact clean_bind _ _ (sql_never_leaks l hc.1 hd.1) (fun _ =>
        clean_bind _ _ (sql_never_leaks r hc.2 hd.2) (fun _ => by split <;> rfl))
  | .boolop op l r, hc, hd => by
      rw [sqlVisit]
      simp only [callsOk, Bool.and_eq_true] at hc
      simp only [durOk, Bool.and_eq_true] at hd
      exact clean_bind _ _ (sql_never_leaks l hc.1 hd.1) (fun _ =>
        clean_bind _ _ (sql_never_leaks r hc.2 hd.2) (fun _ => rfl))
  | .unary op e, hc, hd => by
      rw [sqlVisit]
      exact clean_bind _ _ (sql_never_leaks e (by simpa [callsOk] using hc) (by simpa [durOk] using hd)) (fun _ => rfl)
  | .call f args, hc, hd => by
      rw [sqlVisit]
      simp only [callsOk, Bool.and_eq_true] at hc
      split
      · rfl
      · rename_i hh
        have hns : f.ns = [] := by
          by_cases hn : f.ns = []
          · exact hn
          · have := not_handler_of_ns f hn
            rw [this] at hh
            exact absurd rfl hh
        have hp := preClean_of_callOk d f args.length hns hc.1
        unfold preClean at hp
        split
        · rename_i err herr
          simpa [herr] using hp
        · exact clean_bind _ _ (sql_never_leaks_list args hc.2 (by simpa [durOk] using hd)) (fun _ =>
            clean_bind _ _ (selectTpl_clean _ _ _) (fun _ => rfl))
theorem sql_never_leaks_list : (xs : Exprs) → callsOkList xs = true → durOkList isD xs = true →
    clean (sqlVisitList isD d al xs) = true
  | .nil, _, _ => by rw [sqlVisitList]; rfl
  | .cons h t, hc, hd => by
      rw [sqlVisitList]
      simp only [callsOkList, Bool.and_eq_true] at hc
      simp only [durOkList, Bool.and_eq_true] at hd
      exact clean_bind _ _ (sql_never_leaks h hc.1 hd.1) (fun _ =>
        clean_bind _ _ (sql_never_leaks_list t hc.2 hd.2) (fun _ => rfl))
end

/-- non-vacuity: a tree with every literal kind and a three-argument built-in satisfies the hypotheses -/
example : callsOk (.call ⟨"substring".toList, []⟩ (.cons (.lit .duration "P1DT2H".toList)
            (.cons (.lit .int "1".toList) (.cons (.ident ⟨"a".toList, []⟩) .nil)))) = true
        ∧ durOk (fun c => '0' ≤ c && c ≤ '9') (.lit .duration "P1DT2H".toList) = true := by decide

end OQ.C12
