/-
  Props/C05Roundtrip.lean — "The parser groups operators exactly as the OData precedence table
  dictates", token level: parsing the reference rendering of any printable tree (minimally or fully
  parenthesised, any placement of optional whitespace) gives the tree back; corollaries on how
  un-parenthesised operator sequences group.  Helper lemmas live in Lemmas/Pratt.lean.
-/
import ODataVerif.Lemmas.Pratt
namespace OQ.C05
open Spec

/-- parsing the reference rendering (either parenthesisation, any optional-whitespace style) of any
    printable tree yields that tree -/
theorem parse_printToks (sty : Spec.Style) (mode : Spec.Mode) (e : Expr) (h : Spec.printable e = true) :
    parseToks none (Spec.printToks sty mode e) = .ok e := by
  have hc := Pratt.core sty mode e h 0 [] (e, []) 1 (Nat.le_refl 1) (fun _ => Nat.zero_le _) rfl rfl
    (fun f hf => by
      obtain ⟨f', rfl⟩ : ∃ f', f = f' + 1 := ⟨f - 1, by omega⟩
      exact Pratt.loop_stop _ _ _ _ rfl)
    (parseFuel (printToks sty mode e)) (by simp only [parseFuel]; omega)
  rw [List.append_nil] at hc
  simp [parseToks, hc]

/-! ### corollaries on trees: how operator sequences group -/

/-- the thirteen binary operators that take a `common_expr` on both sides (everything but `in`) -/
inductive BinTok
  | arith (o : ArithOp)
  | cmp (o : CmpOp)
  | bool (o : BoolOp)
  deriving DecidableEq, Repr

namespace BinTok
def tok : BinTok → Tok
  | arith o => .arith o | cmp o => .cmp o | bool o => .bool o
def mk : BinTok → Expr → Expr → Expr
  | arith o => .binop o | cmp o => .compare o | bool o => .boolop o
/-- the row of the operator in OData 4.01 §5.1.1.14 (`Spec.level` of a tree with that top) -/
def lvl : BinTok → Nat
  | arith o => o.lvl | cmp o => o.lvl | bool o => o.lvl
def isIn : BinTok → Bool
  | cmp .in_ => true | _ => false

theorem level_mk (o : BinTok) (l r : Expr) : level (o.mk l r) = o.lvl := by
  cases o <;> simp [mk, lvl]

theorem printable_mk (o : BinTok) (h : o.isIn = false) (l r : Expr) :
    printable (o.mk l r) = (printable l && printable r) := by
  cases o with
  | cmp c => cases c <;> simp [isIn] at h <;> simp [mk, printable]
  | _ => simp [mk, printable]

theorem printToks_mk (sty : Style) (mode : Mode) (o : BinTok) (h : o.isIn = false) (l r : Expr) :
    printToks sty mode (o.mk l r)
      = operand sty mode o.lvl false l ++ [o.tok] ++ operand sty mode o.lvl true r := by
  cases o with
  | cmp c => cases c <;> simp [isIn] at h <;> simp [mk, printToks, lvl, tok, CmpOp.lvl]
  | arith a => simp [mk, printToks, lvl, tok]
  | bool b => simp [mk, printToks, lvl, tok]
end BinTok

theorem operand_minimal_left (sty : Style) (pl : Nat) (e : Expr) (h : pl ≤ level e) :
    operand sty .minimal pl false e = printToks sty .minimal e := by
  rw [operand, if_neg]; simp [needsParen]; omega

theorem operand_minimal_right (sty : Style) (pl : Nat) (e : Expr) (h : pl < level e) :
    operand sty .minimal pl true e = printToks sty .minimal e := by
  rw [operand, if_neg]; simp [needsParen]; omega

theorem operand_minimal_left_paren (sty : Style) (pl : Nat) (e : Expr) (h : level e < pl) :
    operand sty .minimal pl false e = paren sty (printToks sty .minimal e) := by
  rw [operand, if_pos]; simp [needsParen]; omega

theorem operand_minimal_right_paren (sty : Style) (pl : Nat) (e : Expr) (h : level e ≤ pl) :
    operand sty .minimal pl true e = paren sty (printToks sty .minimal e) := by
  rw [operand, if_pos]; simp [needsParen]; omega

/-- **precedence, first operator binds at least as tightly**: in `a o1 b o2 c` without parentheses,
    when `o2` is not tighter than `o1` the sequence groups as `(a o1 b) o2 c`.
    (`a`, `b`, `c` are any printable operands tight enough not to need parentheses themselves.) -/
theorem binary_tighter_first (sty : Style) (o1 o2 : BinTok) (h1 : o1.isIn = false) (h2 : o2.isIn = false)
    (a b c : Expr) (ha : printable a = true) (hb : printable b = true) (hc : printable c = true)
    (hlv : o2.lvl ≤ o1.lvl) (hla : o1.lvl ≤ level a) (hlb : o1.lvl < level b) (hlc : o2.lvl < level c) :
    parseToks none (printToks sty .minimal a ++ [o1.tok] ++ printToks sty .minimal b ++ [o2.tok]
        ++ printToks sty .minimal c)
      = .ok (o2.mk (o1.mk a b) c) := by
  have h := parse_printToks sty .minimal (o2.mk (o1.mk a b) c)
    (by simp [BinTok.printable_mk, h1, h2, ha, hb, hc])
  rw [BinTok.printToks_mk _ _ _ h2, operand_minimal_left _ _ _ (by rw [BinTok.level_mk]; exact hlv),
    operand_minimal_right _ _ _ hlc, BinTok.printToks_mk _ _ _ h1, operand_minimal_left _ _ _ hla,
    operand_minimal_right _ _ _ hlb] at h
  simpa only [List.append_assoc] using h

/-- **binary operators associate to the left**: two operators of the same precedence row -/
theorem binary_left_assoc (sty : Style) (o1 o2 : BinTok) (h1 : o1.isIn = false) (h2 : o2.isIn = false)
    (a b c : Expr) (ha : printable a = true) (hb : printable b = true) (hc : printable c = true)
    (hlv : o1.lvl = o2.lvl) (hla : o1.lvl ≤ level a) (hlb : o1.lvl < level b) (hlc : o2.lvl < level c) :
    parseToks none (printToks sty .minimal a ++ [o1.tok] ++ printToks sty .minimal b ++ [o2.tok]
        ++ printToks sty .minimal c)
      = .ok (o2.mk (o1.mk a b) c) :=
  binary_tighter_first sty o1 o2 h1 h2 a b c ha hb hc (by omega) hla hlb hlc

/-- **precedence, second operator binds tighter**: `a o1 b o2 c` groups as `a o1 (b o2 c)` -/
theorem binary_tighter_second (sty : Style) (o1 o2 : BinTok) (h1 : o1.isIn = false) (h2 : o2.isIn = false)
    (a b c : Expr) (ha : printable a = true) (hb : printable b = true) (hc : printable c = true)
    (hlv : o1.lvl < o2.lvl) (hla : o1.lvl ≤ level a) (hlb : o2.lvl ≤ level b) (hlc : o2.lvl < level c) :
    parseToks none (printToks sty .minimal a ++ [o1.tok] ++ printToks sty .minimal b ++ [o2.tok]
        ++ printToks sty .minimal c)
      = .ok (o1.mk a (o2.mk b c)) := by
  have h := parse_printToks sty .minimal (o1.mk a (o2.mk b c))
    (by simp [BinTok.printable_mk, h1, h2, ha, hb, hc])
  rw [BinTok.printToks_mk _ _ _ h1, operand_minimal_left _ _ _ hla,
    operand_minimal_right _ _ _ (by rw [BinTok.level_mk]; exact hlv), BinTok.printToks_mk _ _ _ h2,
    operand_minimal_left _ _ _ hlb, operand_minimal_right _ _ _ hlc] at h
  simpa only [List.append_assoc] using h

/-- **parentheses win** (right): `a o1 (b o2 c)` is read as written although `o2` is not tighter -/
theorem parens_win_right (sty : Style) (o1 o2 : BinTok) (h1 : o1.isIn = false) (h2 : o2.isIn = false)
    (a b c : Expr) (ha : printable a = true) (hb : printable b = true) (hc : printable c = true)
    (hlv : o2.lvl ≤ o1.lvl) (hla : o1.lvl ≤ level a) (hlb : o2.lvl ≤ level b) (hlc : o2.lvl < level c) :
    parseToks none (printToks sty .minimal a ++ [o1.tok] ++
        paren sty (printToks sty .minimal b ++ [o2.tok] ++ printToks sty .minimal c))
      = .ok (o1.mk a (o2.mk b c)) := by
  have h := parse_printToks sty .minimal (o1.mk a (o2.mk b c))
    (by simp [BinTok.printable_mk, h1, h2, ha, hb, hc])
  rw [BinTok.printToks_mk _ _ _ h1, operand_minimal_left _ _ _ hla,
    operand_minimal_right_paren _ _ _ (by rw [BinTok.level_mk]; exact hlv), BinTok.printToks_mk _ _ _ h2,
    operand_minimal_left _ _ _ hlb, operand_minimal_right _ _ _ hlc] at h
  exact h

/-- **parentheses win** (left): `(a o1 b) o2 c` is read as written although `o2` is tighter -/
theorem parens_win_left (sty : Style) (o1 o2 : BinTok) (h1 : o1.isIn = false) (h2 : o2.isIn = false)
    (a b c : Expr) (ha : printable a = true) (hb : printable b = true) (hc : printable c = true)
    (hlv : o1.lvl < o2.lvl) (hla : o1.lvl ≤ level a) (hlb : o1.lvl < level b) (hlc : o2.lvl < level c) :
    parseToks none (paren sty (printToks sty .minimal a ++ [o1.tok] ++ printToks sty .minimal b)
        ++ [o2.tok] ++ printToks sty .minimal c)
      = .ok (o2.mk (o1.mk a b) c) := by
  have h := parse_printToks sty .minimal (o2.mk (o1.mk a b) c)
    (by simp [BinTok.printable_mk, h1, h2, ha, hb, hc])
  rw [BinTok.printToks_mk _ _ _ h2,
    operand_minimal_left_paren _ _ _ (by rw [BinTok.level_mk]; exact hlv),
    operand_minimal_right _ _ _ hlc, BinTok.printToks_mk _ _ _ h1, operand_minimal_left _ _ _ hla,
    operand_minimal_right _ _ _ hlb] at h
  exact h

/-- **prefix operators bind tighter than every binary operator except `in`**:
    `not a o b` is `(not a) o b` -/
theorem not_tighter_than_binary (sty : Style) (o : BinTok) (ho : o.isIn = false) (a b : Expr)
    (ha : printable a = true) (hb : printable b = true) (hla : 7 ≤ level a) (hlb : o.lvl < level b) :
    parseToks none ([.not_] ++ printToks sty .minimal a ++ [o.tok] ++ printToks sty .minimal b)
      = .ok (o.mk (.unary .not_ a) b) := by
  have hl : o.lvl ≤ 7 := by
    cases o with
    | arith x => cases x <;> simp [BinTok.lvl, ArithOp.lvl]
    | cmp x => cases x <;> simp [BinTok.isIn] at ho <;> simp [BinTok.lvl, CmpOp.lvl]
    | bool x => cases x <;> simp [BinTok.lvl, BoolOp.lvl]
  have h := parse_printToks sty .minimal (o.mk (.unary .not_ a) b)
    (by simp [BinTok.printable_mk, ho, ha, hb, printable])
  rw [BinTok.printToks_mk _ _ _ ho, operand_minimal_left _ _ _ (by simpa [level] using hl),
    operand_minimal_right _ _ _ hlb, printToks, operand_minimal_left _ _ _ hla] at h
  exact h

/-- **`in` binds tighter than the prefix operators**: `not a in (…)` is `not (a in (…))` -/
theorem in_tighter_than_not (sty : Style) (a : Expr) (xs : Exprs) (ha : printable a = true)
    (hx : printable (.list xs) = true) (hla : 8 ≤ level a) :
    parseToks none ([.not_] ++ printToks sty .minimal a ++ [.cmp .in_] ++ printToks sty .minimal (.list xs))
      = .ok (.unary .not_ (.compare .in_ a (.list xs))) := by
  have hx' := hx
  simp only [printable] at hx'
  have h := parse_printToks sty .minimal (.unary .not_ (.compare .in_ a (.list xs)))
    (by simp [printable, ha, hx'])
  rw [printToks, operand_minimal_left _ _ _ (by simp [level]), printToks,
    operand_minimal_left _ _ _ hla] at h
  simpa only [List.append_assoc] using h

/-! non-vacuity: concrete instances -/

/-- `1 sub 2 sub 3` is `(1 sub 2) sub 3` -/
example : parseToks none [.lit .int ['1'], .arith .sub, .lit .int ['2'], .arith .sub, .lit .int ['3']]
    = .ok (.binop .sub (.binop .sub (.lit .int ['1']) (.lit .int ['2'])) (.lit .int ['3'])) := by
  simpa [printToks, BinTok.tok, BinTok.mk] using
    binary_left_assoc {} (.arith .sub) (.arith .sub) rfl rfl (.lit .int ['1']) (.lit .int ['2'])
      (.lit .int ['3']) rfl rfl rfl rfl (by decide) (by decide) (by decide)

/-- `a or b and c` is `a or (b and c)` -/
example (a b c : Ident) : parseToks none [.ident a, .bool .or_, .ident b, .bool .and_, .ident c]
    = .ok (.boolop .or_ (.ident a) (.boolop .and_ (.ident b) (.ident c))) := by
  simpa [printToks, BinTok.tok, BinTok.mk] using
    binary_tighter_second {} (.bool .or_) (.bool .and_) rfl rfl (.ident a) (.ident b) (.ident c)
      rfl rfl rfl (by decide) (by simp [BinTok.lvl, BoolOp.lvl, level]) (by simp [BinTok.lvl, BoolOp.lvl, level])
      (by simp [BinTok.lvl, BoolOp.lvl, level])

/-- a printable tree using every kind of construct, for the main theorem -/
def sampleTree : Expr :=
  .boolop .and_
    (.compare .in_ (.attr (.ident ⟨"a".toList, []⟩) "b".toList)
      (.list (.cons (.lit .int ['1']) (.cons (.lit .int ['2']) .nil))))
    (.boolop .or_
      (.unary .not_ (.call ⟨"contains".toList, []⟩
        (.cons (.ident ⟨"x".toList, []⟩) (.cons (.lit .str ['y']) .nil))))
      (.coll (.ident ⟨"xs".toList, []⟩) .all
        (.some ⟨"v".toList, []⟩ (.compare .gt (.unary .neg (.ident ⟨"v".toList, []⟩))
          (.binop .mul (.binop .add (.lit .int ['1']) (.lit .int ['2'])) (.lit .int ['3']))))))

example : printable sampleTree = true := by decide

example : parseToks none (printToks { insideParens := true, beforeComma := true, afterComma := true } .full sampleTree)
    = .ok sampleTree := parse_printToks _ _ _ (by decide)

end OQ.C05

namespace OQ.C11
open Spec
/-- **arg_order** (C11): a call written with its arguments in source order — positional or named, any
    number a validated or foreign-namespace function accepts — parses to the call node with exactly
    those arguments in that order (instance of the round-trip theorem). -/
theorem arg_order (sty : Style) (mode : Mode) (f : Ident) (args : Exprs)
    (h : printable (.call f args) = true) :
    parseToks none (printToks sty mode (.call f args)) = .ok (.call f args) :=
  C05.parse_printToks sty mode _ h

example : printable (.call ⟨['g'], [['f']]⟩ (.cons (.named ⟨['x'], []⟩ (.lit .int ['1']))
    (.cons (.named ⟨['y'], []⟩ (.lit .str ['a'])) (.cons (.named ⟨['z'], []⟩ (.ident ⟨['q'], []⟩)) .nil)))) = true := by decide
end OQ.C11
