/-
  Props/DateOrder.lean — ISO-8601 spellings of dates are ordered (ordinally, by code point: Spec.strLt, the order SQLite's TEXT
  comparison and OData's string comparison use) exactly as the dates are ordered chronologically; the spelling is injective and is
  read back by `ofIso`.  This is the fact that makes "store dates as text, compare the texts" a correct translation of date
  comparisons (SQLite dialect `DATE('…')`, Django / SQLAlchemy date columns on SQLite).
-/
import ODataVerif.Spec.DateSem
import ODataVerif.Lemmas.DateOrder
namespace OQ.DateSem
open Spec

/-- chronological order = ordinal order of the spellings (years of at most four digits) -/
theorem iso_order (a b : DateV) (ha : a.wf = true) (hb : b.wf = true) : strLt a.iso b.iso = a.lt b := by
  obtain ⟨y, m, d⟩ := a
  obtain ⟨y', m', d'⟩ := b
  simp only [DateV.wf, Bool.and_eq_true, decide_eq_true_eq] at ha hb
  simp only [DateV.iso, dig4, dig2, List.cons_append, List.nil_append, strLt_cons, strLt_nil, digitChar_toNat,
    digitChar_beq, DateV.lt, dash_toNat, beq_self_eq_true]
  rw [Bool.eq_iff_iff]
  simp
  rw [lex4 y y' ha.1.1 hb.1.1, eq4 y y' ha.1.1 hb.1.1, lex2 m m' ha.1.2 hb.1.2, eq2 m m' ha.1.2 hb.1.2,
    lex2 d d' ha.2 hb.2]
  generalize y / 1000 % 10 = a3, y' / 1000 % 10 = b3, y / 100 % 10 = a2, y' / 100 % 10 = b2,
    y / 10 % 10 = a1, y' / 10 % 10 = b1, y % 10 = a0, y' % 10 = b0,
    m / 10 % 10 = c1, m' / 10 % 10 = e1, m % 10 = c0, m' % 10 = e0,
    d / 10 % 10 = f1, d' / 10 % 10 = g1, d % 10 = f0, d' % 10 = g0
  omega

/-- equal spellings, equal dates -/
theorem iso_inj (a b : DateV) (ha : a.wf = true) (hb : b.wf = true) (h : a.iso = b.iso) : a = b := by
  obtain ⟨y, m, d⟩ := a
  obtain ⟨y', m', d'⟩ := b
  simp only [DateV.wf, Bool.and_eq_true, decide_eq_true_eq] at ha hb
  simp only [DateV.iso, dig4, dig2, List.cons_append, List.nil_append, List.cons.injEq, digitChar_eq_iff, and_true, true_and] at h
  simp only [DateV.mk.injEq]
  omega

/-- the spelling is read back -/
theorem ofIso_iso (a : DateV) (ha : a.wf = true) : DateV.ofIso a.iso = some a := by
  obtain ⟨y, m, d⟩ := a
  simp only [DateV.wf, Bool.and_eq_true, decide_eq_true_eq] at ha
  simp only [DateV.iso, dig4, dig2, List.cons_append, List.nil_append, DateV.ofIso, digitVal_digitChar]
  simp only [Option.some.injEq, DateV.mk.injEq]
  omega

/-- every comparison of dates is the same comparison of their spellings as strings -/
theorem cmp_iso (k : CmpK) (a b : DateV) (ha : a.wf = true) (hb : b.wf = true) : cmpStr k a.iso b.iso = cmpDate k a b := by
  have heq : (a.iso == b.iso) = (a == b) := by
    rw [Bool.eq_iff_iff]; simp only [beq_iff_eq]
    exact ⟨iso_inj a b ha hb, fun h => by rw [h]⟩
  cases k <;> simp only [cmpStr, cmpDate, bne, heq, iso_order a b ha hb, iso_order b a hb ha]

/-- `lt` is a strict total order -/
theorem lt_irrefl (a : DateV) : a.lt a = false := by
  simp [DateV.lt]
theorem lt_trans (a b c : DateV) (h1 : a.lt b = true) (h2 : b.lt c = true) : a.lt c = true := by
  simp only [DateV.lt, Bool.or_eq_true, Bool.and_eq_true, decide_eq_true_eq, beq_iff_eq] at *
  omega
theorem lt_trichotomy (a b : DateV) : a.lt b = true ∨ a = b ∨ b.lt a = true := by
  obtain ⟨y, m, d⟩ := a
  obtain ⟨y', m', d'⟩ := b
  simp only [DateV.lt, Bool.or_eq_true, Bool.and_eq_true, decide_eq_true_eq, beq_iff_eq, DateV.mk.injEq]
  omega

end OQ.DateSem
