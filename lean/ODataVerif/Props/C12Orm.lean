/-
  Props/C12Orm.lean — C12 on the ORM backends, for the property's own quantifier: for EVERY well-typed filter (the strict typed grammar
  of Spec/TypesStrict.lean: every built-in with every overload, every literal kind, `null` wherever a primitive is expected, any field
  typing Γ; `printable` = the shape of every tree the parser returns, C10.parse_image) the models of the Django visitor and of the SQLAlchemy visitors (ORM and Core) return a translation or one of the library's
  exceptions (or the documented NotImplementedError) — never AttributeError / TypeError / IndexError / KeyError / ValueError.
  The outcome `.foreign "unmodelled"` marks the few constructs whose host-ORM behaviour the model does not describe (geography literals,
  the geo functions); those are covered by execution only and are not counted as a leak here.
-/
import ODataVerif.Model.Orm
import ODataVerif.Model.PyVal
import ODataVerif.Spec.TypesStrict
import ODataVerif.Spec.RefPrinter
import ODataVerif.Lemmas.OrmTotal
import ODataVerif.Lemmas.OrmTotal2
namespace OQ.C12Orm
open OQ.Spec

/-- an internal error of the modelled part -/
def leaks {α} : Outcome α → Bool
  | .foreign c => c != "unmodelled"
  | _ => false

mutual
/-- every duration / GUID / integer literal of the tree has a Python value (its text has the lexer's shape: C06) -/
def pyLitOk : Expr → Bool
  | .ident _ => true
  | .attr o _ => pyLitOk o
  | .lit k v => (match pyVal k v with | .foreign _ => false | _ => true)
  | .list xs => pyLitOks xs
  | .binop _ l r | .compare _ l r | .boolop _ l r => pyLitOk l && pyLitOk r
  | .unary _ e => pyLitOk e
  | .named _ e => pyLitOk e
  | .call _ args => pyLitOks args
  | .coll o _ l => pyLitOk o && pyLitOkLam l
def pyLitOks : Exprs → Bool
  | .nil => true
  | .cons h t => pyLitOk h && pyLitOks t
def pyLitOkLam : OptLam → Bool
  | .none => true
  | .some _ b => pyLitOk b
end

open OQ.OrmTotal

theorem leaks_iff_nl {α} (o : Outcome α) : leaks o = false ↔ nl o = true := by
  cases o <;> simp [leaks, nl]

mutual
theorem djVisit_nl (Γ : Expr → Option OTy) : (e : Expr) → (τ : OTy) → printable e = true → sType Γ e = some τ →
    pyLitOk e = true → nl (djVisit e) = true
  | .ident _, _, _, _, _ => by rw [djVisit]; rfl
  | .attr o n, _, hp, _, _ => by
      rw [printable] at hp
      obtain ⟨p, h⟩ := djVisit_path o n hp
      rw [h]; rfl
  | .lit k v, _, _, _, hl => by
      rw [pyLitOk] at hl
      cases k
      case null => rw [djVisit]; rfl
      all_goals
        rw [djVisit]
        · exact nl_bind _ _ (litParam_nl _ _ hl) (fun _ => rfl)
        all_goals (intros; contradiction)
  | .list xs, _, hp, ht, hl => by
      rw [djVisit]
      rw [printable] at hp
      simp only [Bool.and_eq_true] at hp
      rw [pyLitOk] at hl
      obtain ⟨_, tys, ht'⟩ := sType_list ht
      exact nl_bind _ _ (djVisitList_nl _ (djVisitList_ok Γ xs tys hp.2 ht' hl)) (fun _ => rfl)
  | .binop op l r, _, hp, ht, hl => by
      rw [djVisit]
      rw [printable] at hp
      rw [pyLitOk] at hl
      simp only [Bool.and_eq_true] at hp hl
      obtain ⟨⟨a, ha⟩, ⟨b, hb⟩⟩ := sType_binop ht
      refine nl_bind _ _ (djVisit_nl Γ l a hp.1 ha hl.1) (fun _ => nl_bind _ _ (djVisit_nl Γ r b hp.2 hb hl.2) (fun _ => ?_))
      dsimp only
      split
      · exact nl_unmodelled
      · rfl
  | .compare op l r, _, hp, ht, hl => by
      rw [djVisit]
      rw [pyLitOk] at hl
      simp only [Bool.and_eq_true] at hl
      obtain ⟨hpl, hpr⟩ := printable_compare hp
      obtain ⟨⟨a, ha, _⟩, ⟨b, hb⟩⟩ := sType_compare ht
      have h1 := djVisit_nl Γ l a hpl ha hl.1
      have h2 := djVisit_nl Γ r b hpr hb hl.2
      split
      · refine nl_bind _ _ h2 (fun _ => ?_)
        dsimp only; split <;> rfl
      · split
        · refine nl_bind _ _ h1 (fun _ => ?_)
          dsimp only; repeat' split
          all_goals rfl
        · exact nl_bind _ _ h1 (fun _ => nl_bind _ _ h2 (fun _ => rfl))
  | .boolop op l r, _, hp, ht, hl => by
      rw [djVisit]
      rw [printable] at hp
      rw [pyLitOk] at hl
      simp only [Bool.and_eq_true] at hp hl
      obtain ⟨⟨a, ha⟩, ⟨b, hb⟩⟩ := sType_boolop ht
      refine nl_bind _ _ (djVisit_nl Γ l a hp.1 ha hl.1) (fun _ => nl_bind _ _ (djVisit_nl Γ r b hp.2 hb hl.2) (fun _ => ?_))
      dsimp only
      repeat' split
      all_goals first | rfl | exact nl_unmodelled
  | .unary op e, _, hp, ht, hl => by
      rw [djVisit]
      rw [printable] at hp
      rw [pyLitOk] at hl
      obtain ⟨a, ha⟩ := sType_unary ht
      refine nl_bind _ _ (djVisit_nl Γ e a hp ha hl) (fun _ => ?_)
      dsimp only
      repeat' split
      all_goals first | rfl | exact nl_unmodelled
  | .named _ _, _, _, ht, _ => by rw [sType] at ht; cases ht
  | .coll _ _ _, _, _, ht, _ => by rw [sType] at ht; cases ht
  | .call f args, _, hp, ht, hl => by
      rw [djVisit]
      rw [pyLitOk] at hl
      obtain ⟨tys, hts, hsig⟩ := sType_call ht
      have hpa := printable_call hp hts
      split
      · rfl
      · split
        · exact nl_unmodelled
        · split
          · exact nl_unmodelled       -- a named argument: outside the model (and not well-typed)
          · split
            · rfl                     -- the arguments do not bind to the handler's signature: ArgumentTypeException
            · refine djFunc_nl _ _ (djVisitList_ok Γ args tys hpa hts hl) ?_
              rw [← sTypes_length args tys hts]
              exact arityOk_of_sig f tys _ hsig
theorem djVisitList_ok (Γ : Expr → Option OTy) : (xs : Exprs) → (tys : List OTy) → printableArgs xs = true →
    sTypes Γ xs = some tys → pyLitOks xs = true → DjArgsOk xs
  | .nil, _, _, _, _ => trivial
  | .cons h t, _, hp, ht, hl => by
      rw [printableArgs] at hp
      rw [pyLitOks] at hl
      simp only [Bool.and_eq_true] at hp hl
      obtain ⟨a, as, h1, h2, _⟩ := sTypes_cons ht
      exact ⟨djVisit_nl Γ h a hp.1 h1 hl.1, djVisitList_ok Γ t as hp.2 h2 hl.2⟩
end

-- ORIGINAL STATEMENT (unchanged)
theorem dj_never_leaks_welltyped (Γ : Expr → Option OTy) (e : Expr) (hp : printable e = true) (h : wellTypedFilter Γ e = true) (hl : pyLitOk e = true) :
    leaks (djBuild e) = false := by
  rw [leaks_iff_nl]
  unfold wellTypedFilter at h
  have hv := djVisit_nl Γ e _ hp (by simpa using h) hl
  unfold djBuild
  cases hd : djVisit e with
  | ok p =>
    obtain ⟨t, k⟩ := p
    dsimp only
    repeat' split
    all_goals first | rfl | exact nl_unmodelled
  | lib x => rfl
  | notImplemented => rfl
  | foreign c => rw [hd] at hv; exact hv

/-- an expression whose type is not a collection is not a list node -/
theorem not_list_of_sType {Γ : Expr → Option OTy} {l : Expr} {a : OTy} (ha : sType Γ l = some a) (hc : a ≠ .coll) :
    ∀ xs, l ≠ .list xs := by
  intro xs he
  subst he
  exact hc (sType_list ha).1

theorem nl_ite_lib {α} (c : Prop) [Decidable c] (x : LibExc) (y : α) :
    nl (if c then Outcome.lib x else pure y) = true := by
  split <;> rfl

theorem nl_cmp_tail {α} (c d : Prop) [Decidable c] [Decidable d] (x : LibExc) (y : α) :
    nl (if c then Outcome.foreign "unmodelled" else if d then Outcome.lib x else pure y) = true := by
  split
  · exact nl_unmodelled
  · exact nl_ite_lib _ _ _

mutual
theorem saVisit_nl (fields : List Str) (core : Bool) (Γ : Expr → Option OTy) : (e : Expr) → (τ : OTy) →
    printable e = true → sType Γ e = some τ → pyLitOk e = true → nl (saVisit fields core e) = true
  | .ident _, _, _, _, _ => by rw [saVisit]; split <;> rfl
  | .attr o n, _, _, _, _ => by
      rw [saVisit]; split
      · rfl
      · exact nl_unmodelled
  | .lit k v, _, _, _, hl => by
      rw [pyLitOk] at hl
      cases k
      case null => rw [saVisit]; rfl
      case bool => rw [saVisit]; rfl
      case guid => rw [saVisit]; rfl
      all_goals
        rw [saVisit]
        · exact nl_bind _ _ (litParam_nl _ _ hl) (fun _ => rfl)
        all_goals (intro hh; cases hh)
  | .list xs, _, hp, ht, hl => by
      rw [saVisit]
      rw [printable] at hp
      simp only [Bool.and_eq_true] at hp
      rw [pyLitOk] at hl
      obtain ⟨_, tys, ht'⟩ := sType_list ht
      exact nl_bind _ _ (saVisitList_nl fields core _ (saVisitList_ok fields core Γ xs tys hp.2 ht' hl)) (fun _ => rfl)
  | .binop op l r, _, hp, ht, hl => by
      rw [saVisit]
      rw [printable] at hp
      rw [pyLitOk] at hl
      simp only [Bool.and_eq_true] at hp hl
      obtain ⟨⟨a, ha⟩, ⟨b, hb⟩⟩ := sType_binop ht
      refine nl_bind _ _ (saVisit_nl fields core Γ l a hp.1 ha hl.1) (fun _ =>
        nl_bind _ _ (saVisit_nl fields core Γ r b hp.2 hb hl.2) (fun _ => ?_))
      dsimp only
      split
      · exact nl_unmodelled
      · rfl
  | .compare op l r, _, hp, ht, hl => by
      rw [saVisit]
      rw [pyLitOk] at hl
      simp only [Bool.and_eq_true] at hl
      obtain ⟨hpl, hpr⟩ := printable_compare hp
      obtain ⟨⟨a, ha, hin⟩, ⟨b, hb⟩⟩ := sType_compare ht
      have h1 := saVisit_nl fields core Γ l a hpl ha hl.1
      have h2 := saVisit_nl fields core Γ r b hpr hb hl.2
      refine nl_bind' _ _ h1 (fun ⟨ta, ka⟩ hv1 => nl_bind _ _ h2 (fun ⟨tb, kb⟩ => ?_))
      dsimp only
      by_cases hop : op = .in_
      · subst hop
        have hnl := saVisit_notList fields core l (not_list_of_sType ha (hin rfl))
        rw [hv1] at hnl
        have hsw : (isNullLit l && (CmpOp.in_ == CmpOp.eq || CmpOp.in_ == CmpOp.ne)) = false := by
          rw [show (CmpOp.in_ == CmpOp.eq) = false from rfl, show (CmpOp.in_ == CmpOp.ne) = false from rfl]; simp
        simp only [hsw, Bool.false_eq_true, if_false, beq_self_eq_true, if_true]
        split
        · rename_i hk
          have : ka = .list := by simpa using hk
          subst this
          cases hnl
        · rfl
      · have hop' : (op == CmpOp.in_) = false := by simpa using hop
        simp only [hop', Bool.false_eq_true, if_false]
        split <;> exact nl_cmp_tail _ _ _ _
  | .boolop op l r, _, hp, ht, hl => by
      rw [saVisit]
      rw [printable] at hp
      rw [pyLitOk] at hl
      simp only [Bool.and_eq_true] at hp hl
      obtain ⟨⟨a, ha⟩, ⟨b, hb⟩⟩ := sType_boolop ht
      exact nl_bind _ _ (saVisit_nl fields core Γ l a hp.1 ha hl.1) (fun _ =>
        nl_bind _ _ (saVisit_nl fields core Γ r b hp.2 hb hl.2) (fun _ => rfl))
  | .unary op e, _, hp, ht, hl => by
      rw [saVisit]
      rw [printable] at hp
      rw [pyLitOk] at hl
      obtain ⟨a, ha⟩ := sType_unary ht
      refine nl_bind _ _ (saVisit_nl fields core Γ e a hp ha hl) (fun _ => ?_)
      dsimp only
      split <;> rfl
  | .named _ _, _, _, ht, _ => by rw [sType] at ht; cases ht
  | .coll _ _ _, _, _, ht, _ => by rw [sType] at ht; cases ht
  | .call f args, _, hp, ht, hl => by
      rw [saVisit]
      rw [pyLitOk] at hl
      obtain ⟨tys, hts, hsig⟩ := sType_call ht
      have hpa := printable_call hp hts
      split
      · rfl
      · refine saFunc_nl fields core _ _ (saVisitList_ok fields core Γ args tys hpa hts hl) ?_
        rw [← sTypes_length args tys hts]
        exact arityOk_of_sig f tys _ hsig
theorem saVisitList_ok (fields : List Str) (core : Bool) (Γ : Expr → Option OTy) : (xs : Exprs) → (tys : List OTy) →
    printableArgs xs = true → sTypes Γ xs = some tys → pyLitOks xs = true → SaArgsOk fields core xs
  | .nil, _, _, _, _ => trivial
  | .cons h t, _, hp, ht, hl => by
      rw [printableArgs] at hp
      rw [pyLitOks] at hl
      simp only [Bool.and_eq_true] at hp hl
      obtain ⟨a, as, h1, h2, _⟩ := sTypes_cons ht
      exact ⟨saVisit_nl fields core Γ h a hp.1 h1 hl.1, saVisitList_ok fields core Γ t as hp.2 h2 hl.2⟩
end

-- ORIGINAL STATEMENT (unchanged)
theorem sa_never_leaks_welltyped (fields : List Str) (core : Bool) (Γ : Expr → Option OTy) (e : Expr)
    (hp : printable e = true) (h : wellTypedFilter Γ e = true) (hl : pyLitOk e = true) :
    leaks (saBuild fields core e) = false := by
  rw [leaks_iff_nl]
  unfold wellTypedFilter at h
  have hv := saVisit_nl fields core Γ e _ hp (by simpa using h) hl
  unfold saBuild
  exact nl_bind _ _ hv (fun _ => rfl)

end OQ.C12Orm
