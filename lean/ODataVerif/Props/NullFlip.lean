/-
  Props/NullFlip.lean — `null eq x` / `null ne x` (the null literal on the LEFT) are translated exactly like `x eq null` / `x ne null` by every backend
  model: the raw SQL visitors (fix d7f5487), the Django visitor and the SQLAlchemy visitors (fix 6358e99), and the SQL mirror reads both the same way.
  The semantic theorems (C01 / C02 / C03) are stated over the typed grammar, whose null tests have the literal on the right; these lemmas carry them over to
  the other spelling (Spec.elabB reads both spellings as the same null test).
-/
import ODataVerif.Model.Sql
import ODataVerif.Model.Orm
import ODataVerif.Spec.SqlMirror
namespace OQ.NullFlip
open OQ.Spec

/-- an expression is the null literal or `isNullLit` is false on it -/
theorem isNullLit_cases (x : Expr) : (∃ u, x = .lit .null u) ∨ isNullLit x = false := by
  cases x
  case lit k u => cases k <;> first | exact .inl ⟨u, rfl⟩ | exact .inr rfl
  all_goals exact .inr rfl

theorem sql_null_left (isD : Char → Bool) (d : Dialect) (al : Option Str) (op : CmpOp) (hop : op = .eq ∨ op = .ne) (v w : Str) (x : Expr) :
    sqlVisit isD d al (.compare op (.lit .null v) x) = sqlVisit isD d al (.compare op x (.lit .null w)) := by
  have hv : ∀ u, sqlVisit isD d al (.lit .null u) = .ok [OQ.w "NULL"] := by intro u; rw [sqlVisit]; rfl
  have e1 : ∀ l r, sqlVisit isD d al (.compare op l r) = (do
      let ls ← sqlVisit isD d al l
      let rs ← sqlVisit isD d al r
      if isNullLit l && (op == .eq || op == .ne) then
        pure (wrapOperand r 4 true rs ++ sp :: cmpPieces op l ++ sp :: wrapOperand l 4 true ls)
      else
        pure (wrapOperand l 4 true ls ++ sp :: cmpPieces op r ++ sp :: wrapOperand r 4 true rs)) := by
    intro l r; rw [sqlVisit]
  rw [e1, e1, hv, hv]
  rcases isNullLit_cases x with ⟨u, rfl⟩ | hx
  · rw [hv]
    rcases hop with rfl | rfl <;> rfl
  · rw [hx]
    cases sqlVisit isD d al x <;> rcases hop with rfl | rfl <;> rfl

theorem mirror_null_left (isD : Char → Bool) (d : Dialect) (al : Option Str) (op : CmpOp) (hop : op = .eq ∨ op = .ne) (v w : Str) (x : Expr) :
    mirror isD d al (.compare op (.lit .null v) x) = mirror isD d al (.compare op x (.lit .null w)) := by
  have hv : ∀ u, mirror isD d al (.lit .null u) = litMirror isD d .null [] := by
    intro u; rw [mirror]; rfl
  have e1 : ∀ l r, mirror isD d al (.compare op l r) = (do
      let l' ← mirror isD d al l
      let r' ← mirror isD d al r
      match l, r, op with
      | .lit .null _, _, .eq => pure (.bin (S "IS") r' l')
      | .lit .null _, _, .ne => pure (.bin (S "ISNOT") r' l')
      | _, .lit .null _, .eq => pure (.bin (S "IS") l' r')
      | _, .lit .null _, .ne => pure (.bin (S "ISNOT") l' r')
      | _, _, _ => pure (.bin (cmpName op) l' r')) := by
    intro l r
    rcases hop with rfl | rfl <;> rw [mirror] <;> first | rfl | (intros; contradiction)
  rw [e1, e1, hv, hv]
  cases x
  case lit k u =>
    cases k
    case null => rw [hv]; rcases hop with rfl | rfl <;> rfl
    all_goals (cases mirror isD d al _ <;> cases litMirror isD d .null [] <;> rcases hop with rfl | rfl <;> rfl)
  all_goals (cases mirror isD d al _ <;> cases litMirror isD d .null [] <;> rcases hop with rfl | rfl <;> rfl)

theorem dj_null_left (op : CmpOp) (hop : op = .eq ∨ op = .ne) (v w : Str) (x : Expr) :
    djVisit (.compare op (.lit .null v) x) = djVisit (.compare op x (.lit .null w)) := by
  have hv : ∀ u, djVisit (.lit .null u) = .ok (.param .null [], .value) := by intro u; rw [djVisit]
  have e1 : ∀ l r, djVisit (.compare op l r) =
      (if isNullLit l && (op == .eq || op == .ne) then
        (do
          let (a, _) ← djVisit r
          if op == .eq then pure (on1 "isnull" a, .cond) else pure (on1 "notnull" a, .cond))
      else if isNullLit r then
        (do
          let (a, _) ← djVisit l
          if op == .eq then pure (on1 "isnull" a, .cond)
          else if op == .ne then pure (on1 "notnull" a, .cond)
          else .lib (.type_ (cmpClass op).toList))
      else do
        let (a, _) ← djVisit l
        let (b, _) ← djVisit r
        pure (on2 (cmpLookup op) a b, .cond)) := by
    intro l r; rw [djVisit]
  rw [e1, e1]
  rcases isNullLit_cases x with ⟨u, rfl⟩ | hx
  · simp only [hv]
    rcases hop with rfl | rfl <;> rfl
  · rw [hx]
    cases djVisit x <;> rcases hop with rfl | rfl <;> rfl

theorem sa_null_left (fields : List Str) (core : Bool) (op : CmpOp) (hop : op = .eq ∨ op = .ne) (v w : Str) (x : Expr) :
    saVisit fields core (.compare op (.lit .null v) x) = saVisit fields core (.compare op x (.lit .null w)) := by
  have hv : ∀ u, saVisit fields core (.lit .null u) = .ok (.const "NULL", .value) := by intro u; rw [saVisit]
  rw [saVisit.eq_10, saVisit.eq_10]
  simp only [hv]
  rcases isNullLit_cases x with ⟨u, rfl⟩ | hx
  · simp only [hv]
    rcases hop with rfl | rfl <;> rfl
  · simp only [hx]
    cases saVisit fields core x <;> rcases hop with rfl | rfl <;> rfl
end OQ.NullFlip
