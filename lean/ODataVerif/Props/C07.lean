/-
  Props/C07.lean — "no filter string can inject SQL through the raw dialects": the character-level core.

  * `str_token_any_content`     a string literal spelled with its quotes doubled is read back by the independent
                                SQL tokeniser as exactly ONE string token holding exactly the content — for
                                EVERY content (quotes, comment markers, semicolons, backslashes, NUL, Unicode).
  * `like_literal_one_token`    the same for the LIKE pattern built from a literal substring (`%` / escape
                                characters added inside the same literal).
  * `qid_token_any_name`        a field name without `"` inside double quotes is ONE quoted identifier.
  The theorem about whole emitted texts (`lex_pieces`) is in Props/C07Lex.lean.
-/
import ODataVerif.Model.SqlPieces
namespace OQ.C07
open Spec

theorem run_str_body (s : Str) : ∀ acc : Str,
    run (.str acc) (dblQuote '\'' s ++ ['\'']) = some [.str (acc ++ s)] := by
  induction s with
  | nil => intro acc; simp [dblQuote, run, stepSt, finish]
  | cons c t ih =>
    intro acc
    by_cases hc : c = '\''
    · subst hc
      have := ih (acc ++ ['\''])
      simp only [List.append_assoc, List.cons_append, List.nil_append] at this
      simp [dblQuote, run, stepSt, this]
    · have := ih (acc ++ [c])
      have hc' : (c == '\'') = false := by simpa using hc
      simp only [List.append_assoc, List.cons_append, List.nil_append] at this
      simp [dblQuote, run, stepSt, hc', this]

/-- any content, once its quotes are doubled and it is wrapped in quotes, is exactly one string token -/
theorem str_token_any_content (s : Str) : sqlLex (spellTokSql (.str s)) = some [.str s] := by
  have := run_str_body s []
  simp only [List.nil_append] at this
  simp [sqlLex, spellTokSql, run, stepSt, fromTop, isBlank, this]

/-- the LIKE pattern of a literal substring (`_to_pattern`): wildcards and escapes are added INSIDE the literal -/
theorem like_literal_one_token (pre suf raw : Str) :
    sqlLex (spellTokSql (.str (pre ++ likeEscape raw ++ suf))) = some [.str (pre ++ likeEscape raw ++ suf)] :=
  str_token_any_content _

theorem run_qid_body (s : Str) (h : s.contains '"' = false) : ∀ acc : Str,
    run (.qid acc) (s ++ ['"']) = some [.qid (acc ++ s)] := by
  induction s with
  | nil => intro acc; simp [run, stepSt, finish]
  | cons c t ih =>
    intro acc
    have hc : c ≠ '"' ∧ t.contains '"' = false := by
      simp only [List.contains_cons, Bool.or_eq_false_iff] at h
      exact ⟨by intro hh; subst hh; simp at h, h.2⟩
    have := ih hc.2 (acc ++ [c])
    have hc' : (c == '"') = false := by simpa using hc.1
    simp only [List.append_assoc, List.cons_append, List.nil_append] at this
    simp [run, stepSt, hc', this]

/-- a name without a double quote, between double quotes, is exactly one quoted identifier -/
theorem qid_token_any_name (s : Str) (h : s.contains '"' = false) :
    sqlLex (Piece.spell (.dq s)) = some [.qid s] := by
  have := run_qid_body s h []
  simp only [List.nil_append] at this
  simp [sqlLex, Piece.spell, run, stepSt, fromTop, isBlank, this]

/-- non-vacuity / concreteness: hostile contents -/
example : sqlLex "'x'' OR 1=1 --'".toList = some [.str "x' OR 1=1 --".toList] := by decide
example : sqlLex "'x' OR 1=1 --'".toList = none := by decide      -- an UN-doubled quote is rejected (comment marker)

end OQ.C07

namespace OQ.C07
open Spec
/-- token shapes of the model's text for a filter -/
def shapesOf (d : Dialect) (e : Expr) : Option (List SqlTok) :=
  match sqlVisit (fun _ => false) d none e with
  | .ok ps => some ((pieceToks ps).map SqlTok.shape)
  | _ => none

def containsLit (s : String) : Expr :=
  .call ⟨"contains".toList, []⟩ (.cons (.ident ⟨"s1".toList, []⟩) (.cons (.lit .str s.toList) .nil))

/-- KNOWN FINDING (witness): a LIKE wildcard inside a literal substring adds the tokens `ESCAPE '\'` after the
    pattern literal, so the token sequence outside the literal is not literally independent of its content.
    (The added tokens are a fixed suffix that does not depend on the content beyond "contains a wildcard".) -/
theorem kf_escape_clause : shapesOf .sqlite (containsLit "100%") ≠ shapesOf .sqlite (containsLit "x") := by decide
theorem kf_escape_clause_only_suffix :
    shapesOf .sqlite (containsLit "100%") = (shapesOf .sqlite (containsLit "x")).map (· ++ [.word "ESCAPE".toList, .str []]) := by
  decide
end OQ.C07
