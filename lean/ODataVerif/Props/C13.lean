/-
  Props/C13.lean — "AST -> OData text -> AST is the identity".
  This file: the printer's own precedence table orders operators exactly like the specification's
  (and like the parser's), so the printer parenthesises at least wherever the reference printer
  does; the token-level round trip through the parser is Props/C05Roundtrip.lean.
-/
import ODataVerif.Model.Printer
import ODataVerif.Spec.RefPrinter
import ODataVerif.Tie.PrinterPrecedence
namespace OQ.C13
open Spec

/-- precedence the printer assigns to a node -/
def rtPrec (c : Expr) : Nat := precOfClass (nodeOpClass c)

/-- the admissible (specification level, printer precedence) pairs: the printer's table is an
    order-embedding of the specification's levels -/
def LP (l p : Nat) : Prop :=
  (l = 1 ∧ p = 3) ∨ (l = 2 ∧ p = 4) ∨ (l = 3 ∧ p = 5) ∨ (l = 4 ∧ p = 6) ∨ (l = 5 ∧ p = 7) ∨
  (l = 6 ∧ p = 8) ∨ (l = 7 ∧ p = 9) ∨ (l = 8 ∧ p = 100) ∨ (l = 9 ∧ (p = 10 ∨ p = 100))

instance (l p : Nat) : Decidable (LP l p) := by unfold LP; infer_instance

/-- every node sits on one of those pairs -/
theorem level_prec (c : Expr) : LP (level c) (rtPrec c) := by
  cases c with
  | ident i => exact (by decide : LP 9 (precOfClass "Identifier"))
  | attr o n => exact (by decide : LP 9 (precOfClass "Attribute"))
  | lit k v =>
      cases k with
      | null => exact (by decide : LP 9 (precOfClass "Null"))
      | int => exact (by decide : LP 9 (precOfClass "Integer"))
      | float => exact (by decide : LP 9 (precOfClass "Float"))
      | bool => exact (by decide : LP 9 (precOfClass "Boolean"))
      | str => exact (by decide : LP 9 (precOfClass "String"))
      | geo => exact (by decide : LP 9 (precOfClass "Geography"))
      | date => exact (by decide : LP 9 (precOfClass "Date"))
      | time => exact (by decide : LP 9 (precOfClass "Time"))
      | datetime => exact (by decide : LP 9 (precOfClass "DateTime"))
      | duration => exact (by decide : LP 9 (precOfClass "Duration"))
      | guid => exact (by decide : LP 9 (precOfClass "GUID"))
  | list xs => exact (by decide : LP 9 (precOfClass "List"))
  | binop o l r =>
      cases o with
      | add => exact (by decide : LP 5 (precOfClass "Add"))
      | sub => exact (by decide : LP 5 (precOfClass "Sub"))
      | mul => exact (by decide : LP 6 (precOfClass "Mult"))
      | div => exact (by decide : LP 6 (precOfClass "Div"))
      | mod => exact (by decide : LP 6 (precOfClass "Mod"))
  | compare o l r =>
      cases o with
      | eq => exact (by decide : LP 3 (precOfClass "Eq"))
      | ne => exact (by decide : LP 3 (precOfClass "NotEq"))
      | lt => exact (by decide : LP 4 (precOfClass "Lt"))
      | le => exact (by decide : LP 4 (precOfClass "LtE"))
      | gt => exact (by decide : LP 4 (precOfClass "Gt"))
      | ge => exact (by decide : LP 4 (precOfClass "GtE"))
      | in_ => exact (by decide : LP 8 (precOfClass "In"))
  | boolop o l r =>
      cases o with
      | and_ => exact (by decide : LP 2 (precOfClass "And"))
      | or_ => exact (by decide : LP 1 (precOfClass "Or"))
  | unary o e =>
      cases o with
      | not_ => exact (by decide : LP 7 (precOfClass "Not"))
      | neg => exact (by decide : LP 7 (precOfClass "USub"))
  | named n e => exact (by decide : LP 9 (precOfClass "NamedParam"))
  | call f a => exact (by decide : LP 9 (precOfClass "Call"))
  | coll ow o l => exact (by decide : LP 9 (precOfClass "CollectionLambda"))

theorem parent_arith (o : ArithOp) (l r : Expr) : LP (level (.binop o l r)) (precOfClass o.className) := by
  cases o with
  | add => exact (by decide : LP 5 (precOfClass "Add"))
  | sub => exact (by decide : LP 5 (precOfClass "Sub"))
  | mul => exact (by decide : LP 6 (precOfClass "Mult"))
  | div => exact (by decide : LP 6 (precOfClass "Div"))
  | mod => exact (by decide : LP 6 (precOfClass "Mod"))
theorem parent_bool (o : BoolOp) (l r : Expr) : LP (level (.boolop o l r)) (precOfClass o.className) := by
  cases o with
  | and_ => exact (by decide : LP 2 (precOfClass "And"))
  | or_ => exact (by decide : LP 1 (precOfClass "Or"))
theorem parent_cmp (o : CmpOp) (l r : Expr) : LP (level (.compare o l r)) (precOfClass o.className) := by
  cases o with
  | eq => exact (by decide : LP 3 (precOfClass "Eq"))
  | ne => exact (by decide : LP 3 (precOfClass "NotEq"))
  | lt => exact (by decide : LP 4 (precOfClass "Lt"))
  | le => exact (by decide : LP 4 (precOfClass "LtE"))
  | gt => exact (by decide : LP 4 (precOfClass "Gt"))
  | ge => exact (by decide : LP 4 (precOfClass "GtE"))
  | in_ => exact (by decide : LP 8 (precOfClass "In"))
theorem parent_unary (o : UnOp) : LP 7 (precOfClass o.className) := by
  cases o with
  | not_ => exact (by decide : LP 7 (precOfClass "Not"))
  | neg => exact (by decide : LP 7 (precOfClass "USub"))

/-- the common core: for a parent below level 8, "looser" / "looser or equal" agree in both tables -/
theorem paren_core (lc pc lp pp : Nat) (hc : LP lc pc) (hp : LP lp pp) (hlt : lp < 8) (strict : Bool)
    (h : (if strict then decide (lc ≤ lp) else decide (lc < lp)) = true) :
    (decide (pc < pp) || (strict && pc == pp && decide (pp < 100))) = true := by
  unfold LP at hc hp
  cases strict <;> simp at h ⊢ <;> omega

/-- **the printer never omits parentheses the grammar needs** (left operands: strictly looser
    children; right operands: looser-or-equal children), for arithmetic parents … -/
theorem paren_where_needed_arith (o : ArithOp) (l r c : Expr) (strict : Bool)
    (h : needsParen .minimal (level (.binop o l r)) strict c = true) :
    rtParenNeeded c o.className strict = true := by
  have hlt : level (.binop o l r) < 8 := by cases o <;> simp [level]
  exact paren_core _ _ _ _ (level_prec c) (parent_arith o l r) hlt strict (by simpa [needsParen] using h)

/-- … for and / or … -/
theorem paren_where_needed_bool (o : BoolOp) (l r c : Expr) (strict : Bool)
    (h : needsParen .minimal (level (.boolop o l r)) strict c = true) :
    rtParenNeeded c o.className strict = true := by
  have hlt : level (.boolop o l r) < 8 := by cases o <;> simp [level]
  exact paren_core _ _ _ _ (level_prec c) (parent_bool o l r) hlt strict (by simpa [needsParen] using h)

/-- … for the six comparison operators … -/
theorem paren_where_needed_cmp (o : CmpOp) (ho : o ≠ .in_) (l r c : Expr) (strict : Bool)
    (h : needsParen .minimal (level (.compare o l r)) strict c = true) :
    rtParenNeeded c o.className strict = true := by
  have hlt : level (.compare o l r) < 8 := by cases o <;> first | (simp [level]; done) | exact absurd rfl ho
  exact paren_core _ _ _ _ (level_prec c) (parent_cmp o l r) hlt strict (by simpa [needsParen] using h)

/-- … for the left operand of `in` (the printer's `In` has the default precedence 100) … -/
theorem paren_where_needed_in (c : Expr) (h : needsParen .minimal 8 false c = true) :
    rtParenNeeded c "In" false = true := by
  have hc := level_prec c
  simp [needsParen] at h
  have hp : precOfClass "In" = 100 := by decide
  unfold LP at hc
  simp only [rtParenNeeded, hp, Bool.false_and, Bool.or_false, decide_eq_true_eq]
  unfold rtPrec at hc
  omega

/-- … and for the operand of `not` / unary minus -/
theorem paren_where_needed_unary (o : UnOp) (c : Expr) (h : needsParen .minimal 7 false c = true) :
    rtParenNeeded c o.className false = true := by
  exact paren_core _ _ _ _ (level_prec c) (parent_unary o) (by decide) false (by simpa [needsParen] using h)

/-! the formerly failing inputs (D14), now theorems about the repaired printer -/
example : rtRender (.compare .eq (.ident ⟨"name".toList, []⟩) (.lit .str "O'Brien".toList))
    = "name eq 'O''Brien'".toList := by decide
example : rtRender (.compare .in_ (.ident ⟨['a'], []⟩) (.list (.cons (.lit .int ['1']) .nil)))
    = "a in (1,)".toList := by decide
example : rtRender (.boolop .and_ (.ident ⟨['a'], []⟩) (.boolop .and_ (.ident ⟨['b'], []⟩) (.ident ⟨['c'], []⟩)))
    = "a and (b and c)".toList := by decide
example : rtRender (.call ⟨['g'], [['f']]⟩ (.cons (.named ⟨['x'], []⟩ (.lit .geo "POINT(1 2)".toList)) .nil))
    = "f.g(x=geography'POINT(1 2)')".toList := by decide

end OQ.C13

namespace OQ.C13
/-! ### known finding: an identifier spelled `not` in front of a space is read back as the operator.
    `(not) eq 1` parses to `Compare(Eq, Identifier('not'), Integer('1'))`, which is rendered `not eq 1`;
    the lexer then sees the NOT token (`not\s+`).  Negation witness on the model: -/
def kfNot : Expr := .compare .eq (.ident ⟨"not".toList, []⟩) (.lit .int ['1'])
theorem kf_ident_not_render : rtRender kfNot = "not eq 1".toList := by decide
theorem kf_ident_not : parseText pyCharEnv (rtRender kfNot) ≠ .ok kfNot := by decide +kernel
/-- … while the tree *is* in the image of the parser -/
theorem kf_ident_not_in_image : parseText pyCharEnv "(not) eq 1".toList = .ok kfNot := by decide +kernel
end OQ.C13
