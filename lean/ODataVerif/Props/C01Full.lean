/-
  Props/C01Full.lean — C01 end to end, for the model of the SQLite dialect:

  for EVERY filter b of the typed scalar grammar and EVERY row ρ inside `semOkB`, the dialect emits a WHERE text;
  that text, read by the independent SQL tokeniser and parser, is a tree whose evaluation by the SQLite model
  selects ρ exactly when OData's three-valued semantics makes b true on ρ.

  Chain:  translates  →  C07.lex_pieces  →  C09.parse_mirror  →  C01.sound.
-/
import ODataVerif.Props.C01
import ODataVerif.Props.C07Lex
import ODataVerif.Props.C09Parse
namespace OQ.C01
open Spec

theorem where_selects (isD : Char → Bool) (b : BoolE) (ρ : Row) (hw : wfB b = true) (h : semOkB ρ b = true) :
    ∃ s, sqlText isD .sqlite none b.toExpr = .ok s ∧
      ∃ t, sqlRead s = some t ∧ sqliteSelects ρ t = some (selects ρ b) := by
  obtain ⟨ps, hps⟩ := translates isD none b
  obtain ⟨t, hm, hsel⟩ := sound isD b ρ hw h
  have hl := typed_litOk isD .sqlite b hw
  have hlex := C07.lex_pieces isD .sqlite none b.toExpr ps hl rfl hps
  have hparse := C09.parse_mirror isD .sqlite none b.toExpr ps t hl (typed_sqlSafe .sqlite b) hm hps
  refine ⟨renderPieces ps, ?_, t, ?_, hsel⟩
  · unfold sqlText; rw [hps]; rfl
  · unfold sqlRead; rw [hlex]; exact hparse

/-- the same statement for the standard and Athena dialects' TEXT (structure only): every typed filter they accept is
    emitted as a text that reads back as `Spec.mirror` -/
theorem text_reads_as_mirror (isD : Char → Bool) (d : Dialect) (al : Option Str) (b : BoolE) (ps : List Piece) (t : SqlTree)
    (hw : wfB b = true) (ha : aliasOk al = true)
    (hm : mirror isD d al b.toExpr = some t) (hv : sqlVisit isD d al b.toExpr = .ok ps) :
    sqlRead (renderPieces ps) = some t := by
  have hl := typed_litOk isD d b hw
  have hlex := C07.lex_pieces isD d al b.toExpr ps hl ha hv
  have hparse := C09.parse_mirror isD d al b.toExpr ps t hl (typed_sqlSafe d b) hm hv
  unfold sqlRead; rw [hlex]; exact hparse

end OQ.C01
