/-
  Props/C10Total.lean — C10 (model level): the lexer + parser model is total and never produces a
  foreign exception.

  * `lex_progress`, `lex_fuel_irrelevant`: every lexer rule consumes at least one character, so the
    fuel of `lexAll` (`cs.length + 1`) is never exhausted.
  * `parse_no_fuel`: the parser's recursion budget `parseFuel ts` is never exhausted.
  * `parse_no_foreign`: the only exceptions raised by grammar actions are the two `_function_call`
    ones (`pathCons` never meets a shape it cannot handle).
  * `total`: every string yields an AST or one of the four library errors.
-/
import ODataVerif.Lemmas.Totality
namespace OQ.C10
open OQ

/-- every rule of the lexer consumes at least one character -/
theorem lex_progress (env : CharEnv) (cs : List Char) (t : Tok) (r : List Char)
    (h : lexOne env cs = some (t, r)) : r.length < cs.length :=
  lexOne_len env cs t r h

/-- the fuel of `lexAll` is never exhausted: with more than `cs.length` fuel the result does not
    depend on the fuel -/
theorem lex_fuel_irrelevant (env : CharEnv) (cs : List Char) (pos f1 f2 : Nat)
    (h1 : cs.length < f1) (h2 : cs.length < f2) : lexFuel env f1 pos cs = lexFuel env f2 pos cs :=
  lexFuel_irrel env f1 f2 pos cs h1 h2

/-- in particular `lexAll` is `lexFuel` with any sufficient fuel -/
theorem lexAll_eq (env : CharEnv) (cs : List Char) (f : Nat) (h : cs.length < f) :
    lexAll env cs = lexFuel env f 0 cs :=
  lexFuel_irrel env _ f 0 cs (Nat.lt_succ_self _) h

/-- the parser's recursion budget `parseFuel ts = 4 * ts.length + 8` is never exhausted -/
theorem parse_no_fuel (lexErr : Bool) (ts : List Tok) (m : Nat) :
    parseExpr lexErr (parseFuel ts) m ts ≠ .error .fuel :=
  parseExpr_no_fuel lexErr ts m

/-- stronger form: any budget of at least `3 * ts.length + 3` suffices, and a successful
    `parseExpr` consumes at least one token -/
theorem parse_no_fuel_of_le (lexErr : Bool) (ts : List Tok) (m f : Nat) (hf : 3 * ts.length + 3 ≤ f) :
    parseExpr lexErr f m ts ≠ .error .fuel ∧
    ∀ e rest, parseExpr lexErr f m ts = .ok (e, rest) → rest.length < ts.length := by
  have := (nf_all lexErr f).1 m ts hf
  constructor
  · intro h; rw [h] at this; simp at this
  · intro e rest h; rw [h] at this; simp at this; omega

/-- grammar actions never raise a foreign exception (AttributeError / IndexError /
    NotImplementedError) nor a non-exception: the only `exc` outcomes are the two `_function_call`
    exceptions (clean form) -/
theorem parse_no_foreign' (lexErr : Bool) (f m : Nat) (ts : List Tok) (o : Outcome Unit)
    (h : parseExpr lexErr f m ts = .error (.exc o)) :
    (∃ n, o = .lib (.unknownFunction n)) ∨ (∃ n lo hi g, o = .lib (.argumentCount n lo hi g)) :=
  parseExpr_errOk lexErr f m ts o h

/-- the statement exactly as given in the task (Lean parses it as `∃ e, (… ∧ …) ∨ (∃ e, …)`; it is
    equivalent to `parse_no_foreign'`) -/
theorem parse_no_foreign (lexErr : Bool) (f m : Nat) (ts : List Tok) (o : Outcome Unit)
    (h : parseExpr lexErr f m ts = .error (.exc o)) : ∃ e, o = .lib e ∧ (∃ n, e = .unknownFunction n) ∨ (∃ e, o = .lib e ∧ ∃ n lo hi g, e = .argumentCount n lo hi g) := by
  rcases parseExpr_errOk lexErr f m ts o h with ⟨n, rfl⟩ | ⟨n, lo, hi, g, rfl⟩
  · exact ⟨_, .inl ⟨rfl, n, rfl⟩⟩
  · exact ⟨.value, .inr ⟨_, rfl, n, lo, hi, g, rfl⟩⟩

/-- token-level totality: whatever the tokens and the lexing status -/
theorem parseToks_total (lexErr : Option Nat) (ts : List Tok) :
    (∃ e, parseToks lexErr ts = .ok e) ∨
    (∃ i, parseToks lexErr ts = .lib (.tokenizing i)) ∨ (∃ i, parseToks lexErr ts = .lib (.parsing i)) ∨
    (∃ n, parseToks lexErr ts = .lib (.unknownFunction n)) ∨
    (∃ n lo hi g, parseToks lexErr ts = .lib (.argumentCount n lo hi g)) := by
  have hfuel := parse_no_fuel lexErr.isSome ts 0
  have hexc := parse_no_foreign' lexErr.isSome (parseFuel ts) 0 ts
  unfold parseToks
  split
  · split
    · exact .inr (.inl ⟨_, rfl⟩)
    · exact .inl ⟨_, rfl⟩
  · exact .inr (.inr (.inl ⟨_, rfl⟩))
  · exact .inr (.inr (.inl ⟨_, rfl⟩))
  · exact .inr (.inr (.inl ⟨_, rfl⟩))
  · exact .inr (.inl ⟨_, rfl⟩)
  · rename_i e heq
    rcases hexc _ heq with ⟨n, hn⟩ | ⟨n, lo, hi, g, hn⟩
    · cases hn; exact .inr (.inr (.inr (.inl ⟨_, rfl⟩)))
    · cases hn; exact .inr (.inr (.inr (.inr ⟨_, _, _, _, rfl⟩)))
  · rename_i heq
    rcases hexc _ heq with ⟨n, hn⟩ | ⟨n, lo, hi, g, hn⟩ <;> cases hn
  · rename_i c heq
    rcases hexc _ heq with ⟨n, hn⟩ | ⟨n, lo, hi, g, hn⟩ <;> cases hn
  · rename_i u heq
    rcases hexc _ heq with ⟨n, hn⟩ | ⟨n, lo, hi, g, hn⟩ <;> cases hn
  · rename_i heq
    exact (hfuel heq).elim

/-- **C10 (model)**: every string whatsoever yields an AST or one of the library's four
    syntax/function errors -/
theorem total (env : CharEnv) (s : List Char) :
    (∃ e, parseText env s = .ok e) ∨
    (∃ i, parseText env s = .lib (.tokenizing i)) ∨ (∃ i, parseText env s = .lib (.parsing i)) ∨
    (∃ n, parseText env s = .lib (.unknownFunction n)) ∨ (∃ n lo hi g, parseText env s = .lib (.argumentCount n lo hi g)) :=
  parseToks_total _ _

end OQ.C10
