/-
  Props/C05.lean — "The parser groups operators exactly as the OData precedence table dictates".
  The round-trip theorem through the reference printer lives in Props/C05Roundtrip.lean (it needs the
  Pratt lemma library); this file relates the three precedence tables involved.
-/
import ODataVerif.Model.Parser
import ODataVerif.Model.ParserTables
import ODataVerif.Spec.RefPrinter
import ODataVerif.Tie.ParserTables
namespace OQ.C05

/-- position (1-based) of a token name in `ODataParser.precedence`, with its associativity -/
def declLevel (tok : String) : Option (Nat × String) :=
  go ParserTables.parserPrecedence 1
where go : List (String × List String) → Nat → Option (Nat × String)
  | [], _ => none
  | (assoc, toks) :: rest, n => if toks.contains tok then some (n, assoc) else go rest (n + 1)

/-- the levels the precedence-climbing model uses are exactly the rows of the yacc declaration that
    was extracted from grammar.py (and every binary row is left-associative, the unary row right) -/
theorem model_levels_match_declaration :
    declLevel "OR" = some (BoolOp.or_.lvl, "left") ∧ declLevel "AND" = some (BoolOp.and_.lvl, "left") ∧
    declLevel "EQ" = some (CmpOp.eq.lvl, "left") ∧ declLevel "NE" = some (CmpOp.ne.lvl, "left") ∧
    declLevel "LT" = some (CmpOp.lt.lvl, "left") ∧ declLevel "LE" = some (CmpOp.le.lvl, "left") ∧
    declLevel "GT" = some (CmpOp.gt.lvl, "left") ∧ declLevel "GE" = some (CmpOp.ge.lvl, "left") ∧
    declLevel "ADD" = some (ArithOp.add.lvl, "left") ∧ declLevel "SUB" = some (ArithOp.sub.lvl, "left") ∧
    declLevel "MUL" = some (ArithOp.mul.lvl, "left") ∧ declLevel "DIV" = some (ArithOp.div.lvl, "left") ∧
    declLevel "MOD" = some (ArithOp.mod.lvl, "left") ∧
    declLevel "NOT" = some (unaryLvl, "right") ∧ declLevel "UMINUS" = some (unaryLvl, "right") ∧
    declLevel "IN" = some (CmpOp.in_.lvl, "left") := by decide

/-- … and they are the levels of OData 4.01 §5.1.1.14 (Spec.level, typed in from the specification) -/
theorem model_levels_match_spec (l r : Expr) :
    (∀ o, Spec.level (.boolop o l r) = o.lvl) ∧ (∀ o, Spec.level (.compare o l r) = o.lvl) ∧
    (∀ o, Spec.level (.binop o l r) = o.lvl) ∧ (∀ o, Spec.level (.unary o l) = unaryLvl) := by
  refine ⟨?_, ?_, ?_, ?_⟩ <;> intro o <;> cases o <;> rfl

/-- unary operators bind tighter than every binary operator except `in` -/
theorem unary_between (l r : Expr) (ob : BoolOp) (oa : ArithOp) (oc : CmpOp) (hc : oc ≠ .in_) :
    ob.lvl < unaryLvl ∧ oa.lvl < unaryLvl ∧ oc.lvl < unaryLvl ∧ unaryLvl < CmpOp.in_.lvl := by
  cases ob <;> cases oa <;> cases oc <;> simp_all [BoolOp.lvl, ArithOp.lvl, CmpOp.lvl, unaryLvl]

end OQ.C05
