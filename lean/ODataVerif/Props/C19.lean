/-
  Props/C19.lean — "Whitespace layout and keyword case do not change the meaning of a filter".
  Token level: optional whitespace (every BWS position, both sides of commas and colons, inside
  parentheses, after unary minus) never changes the parse — that is `parse_printToks`, which holds
  for EVERY `Style`.  Character level (any whitespace run, any keyword case lexes to the same token):
  Props/C06Lex.lean.  This file: the literal values that depend on spelling.
-/
import ODataVerif.Model.Lexer
import ODataVerif.Model.PyVal
import ODataVerif.Props.C05Roundtrip
import ODataVerif.Tie.ParserTables
namespace OQ.C19
open Spec

/-- two whitespace styles of the same tree parse to the same tree -/
theorem layout_invariant (s1 s2 : Style) (m1 m2 : Mode) (e : Expr) (h : printable e = true) :
    parseToks none (printToks s1 m1 e) = parseToks none (printToks s2 m2 e) := by
  rw [C05.parse_printToks s1 m1 e h, C05.parse_printToks s2 m2 e h]

/-- the value of a boolean literal does not depend on the letter case of its spelling (ast.py:76) -/
theorem bool_value_case (v w : Str) (h : v.map asciiLower = w.map asciiLower) :
    pyVal .bool v = pyVal .bool w := by
  simp [pyVal, h]

/-- keyword case of the datetime separator / suffix is normalised by the token action (grammar.py DATETIME) -/
example : (lexAll pyCharEnv "2020-01-01t10:00:00z".toList).toks = [.lit .datetime "2020-01-01T10:00:00Z".toList] := by
  decide +kernel
example : (lexAll pyCharEnv "a  \tEQ\n NULL".toList).toks = (lexAll pyCharEnv "a eq null".toList).toks := by
  decide +kernel
example : (lexAll pyCharEnv "DURATION'p1dt2h'".toList).toks = (lexAll pyCharEnv "duration'P1DT2H'".toList).toks := by
  decide +kernel

end OQ.C19
