/-
  Props/C11.lean — "Function calls are accepted iff name and argument count match the OData table".
  Property theorems only (helper lemmas live in Lemmas/).
-/
import ODataVerif.Model.Parser
import ODataVerif.Spec.Builtins
import ODataVerif.Tie.OdataFunctions
namespace OQ.C11

/-- the library's table is the specification's table -/
theorem table_eq_spec : odataFunctions = Spec.builtins := by decide

theorem lookup_eq_spec (n : Str) : lookupFn odataFunctions n = Spec.arity n := by
  rw [table_eq_spec]; rfl

/-- a name is validated iff it is un-namespaced or in the `geo` namespace -/
def Validated (f : Ident) : Prop := f.ns = [] ∨ f.ns = ["geo".toList]

instance (f : Ident) : Decidable (Validated f) := by unfold Validated; infer_instance

/-- unknown name ⇒ UnknownFunctionException carrying the full name -/
theorem unknown_payload (f : Ident) (args : Exprs) (hv : Validated f)
    (hn : Spec.arity f.fullName = none) :
    functionCall f args = .lib (.unknownFunction f.fullName) := by
  have hv' : f.ns = [] ∨ f.ns = ["geo".toList] := hv
  unfold functionCall functionCallWith
  rw [if_pos hv', lookup_eq_spec, hn]

/-- known name, count outside the range ⇒ ArgumentCountException(name, min, max, given) -/
theorem argcount_payload (f : Ident) (args : Exprs) (lo hi : Nat) (hv : Validated f)
    (hn : Spec.arity f.fullName = some (lo, hi)) (hc : args.length < lo ∨ args.length > hi) :
    functionCall f args = .lib (.argumentCount f.fullName lo hi args.length) := by
  have hv' : f.ns = [] ∨ f.ns = ["geo".toList] := hv
  unfold functionCall functionCallWith
  rw [if_pos hv', lookup_eq_spec, hn]
  simp only [if_pos hc]

/-- known name, count in range ⇒ accepted as the call itself, arguments untouched -/
theorem accept (f : Ident) (args : Exprs) (lo hi : Nat) (hv : Validated f)
    (hn : Spec.arity f.fullName = some (lo, hi)) (hlo : lo ≤ args.length) (hhi : args.length ≤ hi) :
    functionCall f args = .ok (.call f args) := by
  have hv' : f.ns = [] ∨ f.ns = ["geo".toList] := hv
  unfold functionCall functionCallWith
  rw [if_pos hv', lookup_eq_spec, hn]
  have : ¬ (args.length < lo ∨ args.length > hi) := by omega
  simp only [if_neg this]

/-- the full statement: for validated names, acceptance is *exactly* table membership with the
    count in range -/
theorem accept_iff (f : Ident) (args : Exprs) (hv : Validated f) :
    (∃ e, functionCall f args = .ok e) ↔
      ∃ lo hi, Spec.arity f.fullName = some (lo, hi) ∧ lo ≤ args.length ∧ args.length ≤ hi := by
  constructor
  · rintro ⟨e, he⟩
    cases hn : Spec.arity f.fullName with
    | none => rw [unknown_payload f args hv hn] at he; cases he
    | some p =>
        obtain ⟨lo, hi⟩ := p
        by_cases hc : args.length < lo ∨ args.length > hi
        · rw [argcount_payload f args lo hi hv hn hc] at he; cases he
        · exact ⟨lo, hi, rfl, by omega, by omega⟩
  · rintro ⟨lo, hi, hn, hlo, hhi⟩
    exact ⟨_, accept f args lo hi hv hn hlo hhi⟩

/-- whatever is accepted is the call node with the same function and the same arguments -/
theorem accepted_is_call (f : Ident) (args : Exprs) (e : Expr)
    (h : functionCall f args = .ok e) : e = .call f args := by
  unfold functionCall functionCallWith at h
  split at h
  · split at h
    · cases h
    · split at h
      · cases h
      · cases h; rfl
  · cases h; rfl

/-- calls in any other namespace are accepted with any number of arguments -/
theorem other_namespace_any_arity (f : Ident) (args : Exprs) (hv : ¬ Validated f) :
    functionCall f args = .ok (.call f args) := by
  have hv' : ¬ (f.ns = [] ∨ f.ns = ["geo".toList]) := hv
  unfold functionCall functionCallWith
  rw [if_neg hv']

/-- the only outcomes of validation are: the call, unknown-function, argument-count -/
theorem outcome_cases (f : Ident) (args : Exprs) :
    functionCall f args = .ok (.call f args)
    ∨ functionCall f args = .lib (.unknownFunction f.fullName)
    ∨ ∃ lo hi, functionCall f args = .lib (.argumentCount f.fullName lo hi args.length) := by
  unfold functionCall functionCallWith
  split
  · split
    · exact Or.inr (Or.inl rfl)
    · split
      · exact Or.inr (Or.inr ⟨_, _, rfl⟩)
      · exact Or.inl rfl
  · exact Or.inl rfl

/-! non-vacuity: concrete instances of every hypothesis -/
example : Validated ⟨"substring".toList, []⟩ ∧ Spec.arity (Ident.fullName ⟨"substring".toList, []⟩) = some (2, 3) := by decide
example : Validated ⟨"length".toList, ["geo".toList]⟩ ∧ Spec.arity (Ident.fullName ⟨"length".toList, ["geo".toList]⟩) = some (1, 1) := by decide
example : Validated ⟨"Substring".toList, []⟩ ∧ Spec.arity (Ident.fullName ⟨"Substring".toList, []⟩) = none := by decide
example : ¬ Validated ⟨"length".toList, ["Geo".toList]⟩ := by decide
example : functionCall ⟨"substring".toList, []⟩ (.cons (.lit .int ['1']) .nil)
    = .lib (.argumentCount "substring".toList 2 3 1) := by decide

end OQ.C11
