/-
  Props/C13Accepted.lean — C13 from accepted TEXT: "for every AST the parser can produce, rendering it back to OData text and parsing
  that text yields an equal AST".  Props/C13Text.lean proves the round trip for every printable tree whose literal / identifier tokens
  lex to themselves (`lexableE'`); Props/C10Image.lean proves that every tree the parser returns is printable.  This file closes the gap:
  every literal / identifier token the LEXER emits (on ASCII text) lexes to itself again — alone, in front of a blank and between
  blanks — unless it is an identifier spelled like an operator keyword (the known finding of C13), and every literal / identifier of
  a parsed tree is such a token.
-/
import ODataVerif.Props.C13Text
import ODataVerif.Props.C10Image
import ODataVerif.Props.C06Image
import ODataVerif.Lemmas.AcceptedLex
import ODataVerif.Lemmas.AcceptedLex7
import ODataVerif.Lemmas.AcceptedLex8
import ODataVerif.Lemmas.AcceptedParse
namespace OQ.C13A
open OQ.C13 OQ.C06 OQ.Spec OQ.AcceptedProv

/-- the operator keywords: an un-namespaced identifier spelled like one of them (any letter case) is read as the operator when a
    blank follows / surrounds it -/
def opWords : List Str :=
  ["add", "sub", "mul", "div", "mod", "and", "or", "eq", "ne", "lt", "le", "gt", "ge", "in", "not"].map String.toList
def opNamed (i : Ident) : Bool := i.ns.isEmpty && opWords.contains (i.name.map asciiLower)

mutual
/-- no identifier of the tree (field, path segment, function name, parameter name, lambda variable) is spelled like an operator keyword -/
def opFree : Expr → Bool
  | .ident i => !opNamed i
  | .attr o n => opFree o && !opNamed ⟨n, []⟩
  | .lit _ _ => true
  | .list xs => opFrees xs
  | .binop _ l r | .compare _ l r | .boolop _ l r => opFree l && opFree r
  | .unary _ e => opFree e
  | .named n e => !opNamed n && opFree e
  | .call f args => !opNamed f && opFrees args
  | .coll o _ l => opFree o && opFreeLam l
def opFrees : Exprs → Bool
  | .nil => true
  | .cons h t => opFree h && opFrees t
def opFreeLam : OptLam → Bool
  | .none => true
  | .some v b => !opNamed v && opFree b
end

/-- the keyword literals and the collection operators: an un-namespaced identifier spelled like one of them (any letter case)
    is read as the literal / as `any` / `all` -/
def litWords : List Str := ["true", "false", "null", "any", "all"].map String.toList
/-- an un-namespaced identifier that does not lex as an identifier: spelled like a keyword literal, or led by a digit.  The LEXER
    never emits such a token; the PARSER builds one when it drops the namespace of a path segment (`x/a.true` ↦ `x/true`,
    `x/a.1` ↦ `x/1`, `a.null/b/c` ↦ `null/b/c`) -/
def kwNamed (i : Ident) : Bool :=
  i.ns.isEmpty && (litWords.contains (i.name.map asciiLower) ||
    (match i.name with | c :: _ => pyCharEnv.isDigit c | [] => false))

mutual
/-- no path root / path segment of the tree is spelled like a keyword literal or led by a digit (the positions where the parser
    may have dropped a namespace; function names, parameter names and lambda variables keep the token's identifier) -/
def kwFree : Expr → Bool
  | .ident i => !kwNamed i
  | .attr o n => kwFree o && !kwNamed ⟨n, []⟩
  | .lit _ _ => true
  | .list xs => kwFrees xs
  | .binop _ l r | .compare _ l r | .boolop _ l r => kwFree l && kwFree r
  | .unary _ e => kwFree e
  | .named _ e => kwFree e
  | .call _ args => kwFrees args
  | .coll o _ l => kwFree o && kwFreeLam l
def kwFrees : Exprs → Bool
  | .nil => true
  | .cons h t => kwFree h && kwFrees t
def kwFreeLam : OptLam → Bool
  | .none => true
  | .some _ b => kwFree b
end

theorem opNamed_eq (i : Ident) : opNamed i = AcceptedLex.opNamedL i := rfl
theorem kwNamed_eq (i : Ident) : kwNamed i = AcceptedLex.kwNamedL i := rfl

/-- lexer idempotence: a literal / identifier token the lexer emits is read back as itself -/
theorem lexed_lexable (cs r : Str) (t : Tok) (ha : cs.all isAsciiChar = true) (h : lexOne pyCharEnv cs = some (t, r))
    (hli : LexRender.isLI t = true) (hk : ∀ i, t = .ident i → opNamed i = false) :
    tokLexable' pyCharEnv t = true :=
  AcceptedLex.lexed_lexable_core (cs := cs) (r := r) ha h hli hk

open AcceptedLex (Emitted) in
theorem emitted_ident {i : Ident} (he : Emitted (.ident i)) (hop : opNamed i = false) :
    tokLexable' pyCharEnv (.ident i) = true := by
  obtain ⟨cs, r, ha, h⟩ := he
  exact AcceptedLex.lexed_lexable_core ha h rfl (fun j e => by cases e; exact hop)

open AcceptedLex (Emitted) in
theorem emitted_lit {k : LitKind} {v : Str} (he : Emitted (.lit k v)) : tokLexable' pyCharEnv (.lit k v) = true := by
  obtain ⟨cs, r, ha, h⟩ := he
  exact AcceptedLex.lexed_lexable_core ha h rfl (fun j e => by cases e)

open AcceptedLex (Emitted) in
theorem emitted_name {n : Str} (he : NameOk Emitted n) (hop : opNamed ⟨n, []⟩ = false) (hkw : kwNamed ⟨n, []⟩ = false) :
    tokLexable' pyCharEnv (.ident ⟨n, []⟩) = true := by
  obtain ⟨ns, he⟩ := he
  exact AcceptedLex.name_lexable_core he hop hkw

open AcceptedLex (Emitted) in
theorem emitted_idOk {i : Ident} (he : IdOk Emitted i) (hop : opNamed i = false) (hkw : kwNamed i = false) :
    tokLexable' pyCharEnv (.ident i) = true := by
  rcases he with he | ⟨hns, he⟩
  · exact emitted_ident he hop
  · obtain ⟨n, ns⟩ := i
    simp only at hns he
    subst hns
    exact emitted_name he hop hkw

open AcceptedLex (Emitted) in
mutual
/-- a tree whose literals / identifiers come from emitted tokens is lexable, unless the parser exposed an operator keyword, a
    keyword literal or a digit-led name -/
theorem prov_lexable : (e : Expr) → Prov Emitted e → opFree e = true → kwFree e = true → lexableE' pyCharEnv e = true
  | .ident i, hp, ho, hk => by
      simp only [Prov] at hp
      simp only [opFree, kwFree, Bool.not_eq_true'] at ho hk
      simpa [lexableE'] using emitted_idOk hp ho hk
  | .attr o n, hp, ho, hk => by
      simp only [Prov] at hp
      simp only [opFree, kwFree, Bool.and_eq_true, Bool.not_eq_true'] at ho hk
      simp only [lexableE', Bool.and_eq_true]
      exact ⟨prov_lexable o hp.1 ho.1 hk.1, emitted_name hp.2 ho.2 hk.2⟩
  | .lit k v, hp, _, _ => by
      simp only [Prov] at hp
      simpa [lexableE'] using emitted_lit hp
  | .list xs, hp, ho, hk => by
      simp only [Prov] at hp
      simp only [opFree, kwFree] at ho hk
      simpa [lexableE'] using provL_lexable xs hp ho hk
  | .binop _ l r, hp, ho, hk => by
      simp only [Prov] at hp
      simp only [opFree, kwFree, Bool.and_eq_true] at ho hk
      simp only [lexableE', Bool.and_eq_true]
      exact ⟨prov_lexable l hp.1 ho.1 hk.1, prov_lexable r hp.2 ho.2 hk.2⟩
  | .compare _ l r, hp, ho, hk => by
      simp only [Prov] at hp
      simp only [opFree, kwFree, Bool.and_eq_true] at ho hk
      simp only [lexableE', Bool.and_eq_true]
      exact ⟨prov_lexable l hp.1 ho.1 hk.1, prov_lexable r hp.2 ho.2 hk.2⟩
  | .boolop _ l r, hp, ho, hk => by
      simp only [Prov] at hp
      simp only [opFree, kwFree, Bool.and_eq_true] at ho hk
      simp only [lexableE', Bool.and_eq_true]
      exact ⟨prov_lexable l hp.1 ho.1 hk.1, prov_lexable r hp.2 ho.2 hk.2⟩
  | .unary _ e, hp, ho, hk => by
      simp only [Prov] at hp
      simp only [opFree, kwFree] at ho hk
      simpa [lexableE'] using prov_lexable e hp ho hk
  | .named n e, hp, ho, hk => by
      simp only [Prov] at hp
      simp only [opFree, kwFree, Bool.and_eq_true, Bool.not_eq_true'] at ho hk
      simp only [lexableE', Bool.and_eq_true]
      exact ⟨emitted_ident hp.1 ho.1, prov_lexable e hp.2 ho.2 hk⟩
  | .call f args, hp, ho, hk => by
      simp only [Prov] at hp
      simp only [opFree, kwFree, Bool.and_eq_true, Bool.not_eq_true'] at ho hk
      simp only [lexableE', Bool.and_eq_true]
      exact ⟨emitted_ident hp.1 ho.1, provL_lexable args hp.2 ho.2 hk⟩
  | .coll o _ l, hp, ho, hk => by
      simp only [Prov] at hp
      simp only [opFree, kwFree, Bool.and_eq_true] at ho hk
      simp only [lexableE', Bool.and_eq_true]
      exact ⟨prov_lexable o hp.1 ho.1 hk.1, provLam_lexable l hp.2 ho.2 hk.2⟩
theorem provL_lexable : (xs : Exprs) → ProvL Emitted xs → opFrees xs = true → kwFrees xs = true →
    lexableEs' pyCharEnv xs = true
  | .nil, _, _, _ => by simp [lexableEs']
  | .cons h t, hp, ho, hk => by
      simp only [ProvL] at hp
      simp only [opFrees, kwFrees, Bool.and_eq_true] at ho hk
      simp only [lexableEs', Bool.and_eq_true]
      exact ⟨prov_lexable h hp.1 ho.1 hk.1, provL_lexable t hp.2 ho.2 hk.2⟩
theorem provLam_lexable : (l : OptLam) → ProvLam Emitted l → opFreeLam l = true → kwFreeLam l = true →
    lexableLam' pyCharEnv l = true
  | .none, _, _, _ => by simp [lexableLam']
  | .some v b, hp, ho, hk => by
      simp only [ProvLam] at hp
      simp only [opFreeLam, kwFreeLam, Bool.and_eq_true, Bool.not_eq_true'] at ho hk
      simp only [lexableLam', Bool.and_eq_true]
      exact ⟨emitted_ident hp.1 ho.1, prov_lexable b hp.2 ho.2 hk⟩
end

/- ORIGINAL STATEMENT (false):
theorem accepted_lexable (s : Str) (e : Expr) (ha : s.all isAsciiChar = true) (h : parseText pyCharEnv s = .ok e)
    (hk : opFree e = true) : lexableE' pyCharEnv e = true
   Counterexample (`accepted_lexable_original_false` below): `x/a.true` is accepted and parses to `.attr (.ident x) "true"` — the parser
   (`pathCons`) keeps only the NAME of a namespaced path segment — which is `opFree`, but its text `x/true` does not parse back (the
   segment is read as the Boolean literal).  Likewise `x/a.1` ↦ `x/1`, `x/a.null`, `x/a.any`, `a.true/b/c` ↦ `true/b/c`. -/
-- CHANGED: extra hypothesis `hn : kwFree e = true` (no path root / segment spelled like a keyword literal or led by a digit)
/-- every literal / identifier of a parsed tree is such a token -/
theorem accepted_lexable (s : Str) (e : Expr) (ha : s.all isAsciiChar = true) (h : parseText pyCharEnv s = .ok e)
    (hk : opFree e = true) (hn : kwFree e = true) : lexableE' pyCharEnv e = true := by
  have hp : Prov AcceptedLex.Emitted e :=
    AcceptedParse.parseToks_prov AcceptedLex.Emitted _ _ e (AcceptedLex.lexAll_emitted s ha) h
  exact prov_lexable e hp hk hn

-- CHANGED: extra hypothesis `hn : kwFree e = true`, see `accepted_lexable` (the original statement is false: `x/a.true`)
/-- C13 for every accepted ASCII text: the tree it parses to survives rendering and re-parsing -/
theorem roundtrip_accepted (s : Str) (e : Expr) (ha : s.all isAsciiChar = true) (h : parseText pyCharEnv s = .ok e)
    (hk : opFree e = true) (hn : kwFree e = true) : parseText pyCharEnv (rtRender e) = .ok e :=
  roundtrip_text e (C10.parse_image pyCharEnv s e h) (accepted_lexable s e ha h hk hn)

-- CHANGED: extra hypothesis `hn : kwFree e = true`, see `accepted_lexable`
/-- … and rendering is a fixpoint after one step -/
theorem render_fixpoint (s : Str) (e e' : Expr) (ha : s.all isAsciiChar = true) (h : parseText pyCharEnv s = .ok e)
    (hk : opFree e = true) (hn : kwFree e = true) (h' : parseText pyCharEnv (rtRender e) = .ok e') :
    rtRender e' = rtRender e := by
  have := roundtrip_accepted s e ha h hk hn
  rw [this] at h'; cases h'; rfl

/-! ### why the statements were corrected -/

/-- `x/a.true` -/
def cexText : Str := "x/a.true".toList
/-- the tree it parses to: the path `x/true` (the namespace `a` of the second segment is dropped by the parser) -/
def cexTree : Expr := .attr (.ident ⟨['x'], []⟩) "true".toList

/-- the original statements of `accepted_lexable` and `roundtrip_accepted` (without `kwFree`) are false -/
theorem accepted_lexable_original_false :
    cexText.all isAsciiChar = true ∧ parseText pyCharEnv cexText = .ok cexTree ∧ opFree cexTree = true ∧
    lexableE' pyCharEnv cexTree = false ∧ parseText pyCharEnv (rtRender cexTree) ≠ .ok cexTree ∧ kwFree cexTree = false := by
  decide +kernel

/-! ### the extra hypothesis is the weakest possible: `kwFree` follows from the conclusion -/

theorem lexable_kwNamed {i : Ident} (h : tokLexable' pyCharEnv (.ident i) = true) : kwNamed i = false := by
  obtain ⟨n, ns⟩ := i
  cases ns with
  | nil => exact AcceptedLex.lexable_not_kw h
  | cons a b => rfl

mutual
/-- every lexable tree is `kwFree`: no weaker tree-level hypothesis can replace `hn` in `accepted_lexable` -/
theorem lexable_kwFree : (e : Expr) → lexableE' pyCharEnv e = true → kwFree e = true
  | .ident i, h => by
      simp only [lexableE'] at h
      simp only [kwFree, Bool.not_eq_true']
      exact lexable_kwNamed h
  | .attr o n, h => by
      simp only [lexableE', Bool.and_eq_true] at h
      simp only [kwFree, Bool.and_eq_true, Bool.not_eq_true']
      exact ⟨lexable_kwFree o h.1, lexable_kwNamed h.2⟩
  | .lit _ _, _ => rfl
  | .list xs, h => by
      simp only [lexableE'] at h
      simpa [kwFree] using lexables_kwFree xs h
  | .binop _ l r, h => by
      simp only [lexableE', Bool.and_eq_true] at h
      simp only [kwFree, Bool.and_eq_true]
      exact ⟨lexable_kwFree l h.1, lexable_kwFree r h.2⟩
  | .compare _ l r, h => by
      simp only [lexableE', Bool.and_eq_true] at h
      simp only [kwFree, Bool.and_eq_true]
      exact ⟨lexable_kwFree l h.1, lexable_kwFree r h.2⟩
  | .boolop _ l r, h => by
      simp only [lexableE', Bool.and_eq_true] at h
      simp only [kwFree, Bool.and_eq_true]
      exact ⟨lexable_kwFree l h.1, lexable_kwFree r h.2⟩
  | .unary _ e, h => by
      simp only [lexableE'] at h
      simpa [kwFree] using lexable_kwFree e h
  | .named _ e, h => by
      simp only [lexableE', Bool.and_eq_true] at h
      simpa [kwFree] using lexable_kwFree e h.2
  | .call _ args, h => by
      simp only [lexableE', Bool.and_eq_true] at h
      simpa [kwFree] using lexables_kwFree args h.2
  | .coll o _ l, h => by
      simp only [lexableE', Bool.and_eq_true] at h
      simp only [kwFree, Bool.and_eq_true]
      exact ⟨lexable_kwFree o h.1, lexableLam_kwFree l h.2⟩
theorem lexables_kwFree : (xs : Exprs) → lexableEs' pyCharEnv xs = true → kwFrees xs = true
  | .nil, _ => rfl
  | .cons a t, h => by
      simp only [lexableEs', Bool.and_eq_true] at h
      simp only [kwFrees, Bool.and_eq_true]
      exact ⟨lexable_kwFree a h.1, lexables_kwFree t h.2⟩
theorem lexableLam_kwFree : (l : OptLam) → lexableLam' pyCharEnv l = true → kwFreeLam l = true
  | .none, _ => rfl
  | .some _ b, h => by
      simp only [lexableLam', Bool.and_eq_true] at h
      simpa [kwFreeLam] using lexable_kwFree b h.2
end

end OQ.C13A
