/-
  Props/C03.lean — "SQLAlchemy ORM and Core shorthands return exactly the rows the filter denotes", for the typed scalar
  fragment, about the model of the shared SQLAlchemy visitors (Model/Orm.lean `saBuild`) composed with the environment
  model of SQLAlchemy's SQLite compiler (Spec/OrmSql.lean `saSql`) and of SQLite.

  * `orm_core_agree`   on path-free filters the ORM and the Core visitor build the same tree
  * `keyword_case`     a Boolean literal means the same however the keyword is spelled (`TRUE`, `True`, `true`)
  * `sa_never_leaks`   the visitor model returns a tree or a library exception for every typed filter
  * `sa_translates`    a tree with an SQL model for every filter of `saFrag` over known fields (no unary minus, no
                       div — true division on SQLAlchemy: known finding —, no indexof / concat — strpos / concat do not exist on SQLite)
  * `sound`            for every typed filter the visitor translates into modelled SQL and every row inside `semOkSa`, the
                       compiled SQL selects the row iff OData's semantics makes the filter true
-/
import ODataVerif.Props.C01
import ODataVerif.Spec.OrmSql
import ODataVerif.Spec.OrmSemOk
import ODataVerif.Lemmas.SaSound
import ODataVerif.Lemmas.SqlTotal
namespace OQ.C03
open Spec

mutual
def saFragI : IntE → Bool
  | .lit _ _ | .col _ => true
  | .neg _ => false
  | .arith k l r => k != .div && saFragI l && saFragI r
  | .length s => saFragS s
  | .indexof _ _ => false
def saFragS : StrE → Bool
  | .lit _ | .col _ => true
  | .concat _ _ => false
  | .substring s i => saFragS s && saFragI i
  | .substring3 s i n => saFragS s && saFragI i && saFragI n
  | .tolower s | .toupper s | .trim s => saFragS s
end
def saFragIs : List IntE → Bool
  | [] => true
  | e :: t => saFragI e && saFragIs t
def saFragSs : List StrE → Bool
  | [] => true
  | e :: t => saFragS e && saFragSs t
def saFrag : BoolE → Bool
  | .cmpI _ l r => saFragI l && saFragI r
  | .cmpS _ l r => saFragS l && saFragS r
  | .cmpB k l r => (k == .eq || k == .ne) && saFrag l && saFrag r
  | .isNull _ _ _ => true
  | .inI e xs => saFragI e && saFragIs xs
  | .inS e xs => saFragS e && saFragSs xs
  | .and l r | .or l r => saFrag l && saFrag r
  | .not e => saFrag e
  | .like _ a b => saFragS a && saFragS b
  | .col _ | .lit _ => true

mutual
/-- every field the term mentions is a column of the table / model -/
def colsI (fields : List Str) : IntE → Bool
  | .lit _ _ => true
  | .col c => fields.contains c
  | .neg e => colsI fields e
  | .arith _ l r => colsI fields l && colsI fields r
  | .length s => colsS fields s
  | .indexof a b => colsS fields a && colsS fields b
def colsS (fields : List Str) : StrE → Bool
  | .lit _ => true
  | .col c => fields.contains c
  | .concat a b => colsS fields a && colsS fields b
  | .substring s i => colsS fields s && colsI fields i
  | .substring3 s i n => colsS fields s && colsI fields i && colsI fields n
  | .tolower s | .toupper s | .trim s => colsS fields s
end
def colsIs (fields : List Str) : List IntE → Bool
  | [] => true
  | e :: t => colsI fields e && colsIs fields t
def colsSs (fields : List Str) : List StrE → Bool
  | [] => true
  | e :: t => colsS fields e && colsSs fields t
def colsB (fields : List Str) : BoolE → Bool
  | .cmpI _ l r => colsI fields l && colsI fields r
  | .cmpS _ l r => colsS fields l && colsS fields r
  | .cmpB _ l r => colsB fields l && colsB fields r
  | .isNull _ c _ => fields.contains c
  | .inI e xs => colsI fields e && colsIs fields xs
  | .inS e xs => colsS fields e && colsSs fields xs
  | .and l r | .or l r => colsB fields l && colsB fields r
  | .not e => colsB fields e
  | .like _ a b => colsS fields a && colsS fields b
  | .col c => fields.contains c
  | .lit _ => true

variable (fields : List Str)

/-- ORM and Core build the same tree for every typed (path-free) filter -/
theorem orm_core_agree (b : BoolE) : saBuild fields false b.toExpr = saBuild fields true b.toExpr := by
  unfold saBuild
  rw [SaSound.agreeB fields b]

/-- keyword spelling of a Boolean literal does not matter -/
theorem keyword_case (core : Bool) (v v' : Str) (h : pyLower v = pyLower v') :
    saBuild fields core (.lit .bool v) = saBuild fields core (.lit .bool v') := by
  unfold saBuild
  rw [SaSound.visit_boolLit, SaSound.visit_boolLit, h]

/-- the SQLAlchemy visitor model never leaks an internal error on a typed filter -/
theorem sa_never_leaks (core : Bool) (b : BoolE) : SqlTotal.clean (saBuild fields core b.toExpr) = true :=
  SqlTotal.clean_bind _ _ (SaSound.clean_of_okB (SaSound.okB_B fields core b)) (fun _ => rfl)

section Translates
open SaSound SqliteSound
variable (core : Bool)

mutual
theorem transI : (e : IntE) → C01.wfI e = true → saFragI e = true → colsI fields e = true →
    ∃ t k s, saVisit fields core e.toExpr = .ok (t, k) ∧ saSql t = some s
  | .lit neg ds, hw, _, _ => by
      rw [IntE.toExpr, visit_intLit]
      exact ⟨_, _, _, rfl, paramTree_int neg ds (by simpa [C01.wfI] using hw)⟩
  | .col c, _, _, hc => by
      rw [colsI] at hc
      rw [IntE.toExpr, visit_id, if_pos hc]
      exact ⟨_, _, _, rfl, rfl⟩
  | .neg e, _, hf, _ => by simp [saFragI] at hf
  | .arith k l r, hw, hf, hc => by
      simp only [C01.wfI, saFragI, colsI, Bool.and_eq_true] at hw hf hc
      obtain ⟨a, ka, x, ha, hx⟩ := transI l hw.1 hf.1.2 hc.1
      obtain ⟨b, kb, y, hb, hy⟩ := transI r hw.2 hf.2 hc.2
      have hk : k.toOp ≠ .div := by
        have := hf.1.1
        cases k <;> simp [ArK.toOp] at this ⊢
      rw [IntE.toExpr, visit_binop, ha, hb]
      simp only [Outcome.bind_ok]
      rw [if_neg (by simp [(kindI fields core ha).1, (kindI fields core hb).1])]
      exact ⟨_, _, .bin (Spec.arithName k.toOp) x y, rfl, by rw [saSql_arith, hx, hy]; simp only [lift2, if_neg hk]⟩
  | .length s, hw, hf, hc => by
      simp only [C01.wfI, saFragI, colsI] at hw hf hc
      obtain ⟨a, ka, x, ha, hx⟩ := transS s hw hf hc
      rw [IntE.toExpr, visit_length, ha]
      exact ⟨_, _, _, rfl, by rw [saSql_length, hx]; rfl⟩
  | .indexof _ _, _, hf, _ => by simp [saFragI] at hf
theorem transS : (e : StrE) → C01.wfS e = true → saFragS e = true → colsS fields e = true →
    ∃ t k s, saVisit fields core e.toExpr = .ok (t, k) ∧ saSql t = some s
  | .lit v, _, _, _ => by
      rw [StrE.toExpr, visit_strLit]
      exact ⟨_, _, _, rfl, rfl⟩
  | .col c, _, _, hc => by
      rw [colsS] at hc
      rw [StrE.toExpr, visit_id, if_pos hc]
      exact ⟨_, _, _, rfl, rfl⟩
  | .concat _ _, _, hf, _ => by simp [saFragS] at hf
  | .substring s i, hw, hf, hc => by
      simp only [C01.wfS, saFragS, colsS, Bool.and_eq_true] at hw hf hc
      obtain ⟨a, ka, x, ha, hx⟩ := transS s hw.1 hf.1 hc.1
      obtain ⟨b, kb, y, hb, hy⟩ := transI i hw.2 hf.2 hc.2
      rw [StrE.toExpr, visit_substring2, ha, hb]
      exact ⟨_, _, _, rfl, by rw [saSql_substr2, saSql_plus1, hx, hy]; rfl⟩
  | .substring3 s i n, hw, hf, hc => by
      simp only [C01.wfS, saFragS, colsS, Bool.and_eq_true] at hw hf hc
      obtain ⟨a, ka, x, ha, hx⟩ := transS s hw.1.1 hf.1.1 hc.1.1
      obtain ⟨b, kb, y, hb, hy⟩ := transI i hw.1.2 hf.1.2 hc.1.2
      obtain ⟨c, kc, z, hc', hz⟩ := transI n hw.2 hf.2 hc.2
      rw [StrE.toExpr, visit_substring3, ha, hb, hc']
      exact ⟨_, _, _, rfl, by rw [saSql_substr3, saSql_plus1, hx, hy, hz]; rfl⟩
  | .tolower s, hw, hf, hc => by
      simp only [C01.wfS, saFragS, colsS] at hw hf hc
      obtain ⟨a, ka, x, ha, hx⟩ := transS s hw hf hc
      rw [StrE.toExpr, visit_tolower, ha]
      exact ⟨_, _, _, rfl, by rw [saSql_lower, hx]; rfl⟩
  | .toupper s, hw, hf, hc => by
      simp only [C01.wfS, saFragS, colsS] at hw hf hc
      obtain ⟨a, ka, x, ha, hx⟩ := transS s hw hf hc
      rw [StrE.toExpr, visit_toupper, ha]
      exact ⟨_, _, _, rfl, by rw [saSql_upper, hx]; rfl⟩
  | .trim s, hw, hf, hc => by
      simp only [C01.wfS, saFragS, colsS] at hw hf hc
      obtain ⟨a, ka, x, ha, hx⟩ := transS s hw hf hc
      rw [StrE.toExpr, visit_trim, ha]
      exact ⟨_, _, _, rfl, by rw [saSql_trim, hx]; rfl⟩
end

theorem transIs : (xs : List IntE) → C01.wfIs xs = true → saFragIs xs = true → colsIs fields xs = true →
    ∃ items ts, saVisitList fields core (intsToExprs xs) = .ok items ∧ saSqlList (OTrees.ofList items) = some ts
  | [], _, _, _ => ⟨[], .nil, by rw [intsToExprs, visitList_nil], rfl⟩
  | e :: t, hw, hf, hc => by
      simp only [C01.wfIs, saFragIs, colsIs, Bool.and_eq_true] at hw hf hc
      obtain ⟨a, ka, x, ha, hx⟩ := transI fields core e hw.1 hf.1 hc.1
      obtain ⟨rest, ts, hr, hts⟩ := transIs t hw.2 hf.2 hc.2
      rw [intsToExprs, visitList_cons, ha, hr]
      exact ⟨_, _, rfl, by rw [OTrees.ofList, saSqlList_cons, hx, hts]; rfl⟩
theorem transSs : (xs : List StrE) → C01.wfSs xs = true → saFragSs xs = true → colsSs fields xs = true →
    ∃ items ts, saVisitList fields core (strsToExprs xs) = .ok items ∧ saSqlList (OTrees.ofList items) = some ts
  | [], _, _, _ => ⟨[], .nil, by rw [strsToExprs, visitList_nil], rfl⟩
  | e :: t, hw, hf, hc => by
      simp only [C01.wfSs, saFragSs, colsSs, Bool.and_eq_true] at hw hf hc
      obtain ⟨a, ka, x, ha, hx⟩ := transS fields core e hw.1 hf.1 hc.1
      obtain ⟨rest, ts, hr, hts⟩ := transSs t hw.2 hf.2 hc.2
      rw [strsToExprs, visitList_cons, ha, hr]
      exact ⟨_, _, rfl, by rw [OTrees.ofList, saSqlList_cons, hx, hts]; rfl⟩

theorem in_fwd {l : Expr} {xs : Exprs} {a : OTree} {ka : OKind} {items : List OTree} {x : SqlTree} {ts : SqlTrees}
    (ha : saVisit fields core l = .ok (a, ka)) (hka : ka ≠ .list) (hi : saVisitList fields core xs = .ok items)
    (hx : saSql a = some x) (hts : saSqlList (OTrees.ofList items) = some ts) :
    ∃ t k s, saVisit fields core (.compare .in_ l (.list xs)) = .ok (t, k) ∧ saSql t = some s := by
  rw [visit_compare_in, visit_list, ha, hi]
  simp only [Outcome.bind_ok]
  rw [if_pos (by decide), if_neg (by simp [hka])]
  exact ⟨_, _, _, rfl, by rw [saSql_in, hx, hts]; rfl⟩

theorem transB : (b : BoolE) → C01.wfB b = true → saFrag b = true → colsB fields b = true →
    ∃ t k s, saVisit fields core b.toExpr = .ok (t, k) ∧ saSql t = some s
  | .cmpI k l r, hw, hf, hc => by
      simp only [C01.wfB, saFrag, colsB, Bool.and_eq_true] at hw hf hc
      obtain ⟨a, ka, x, ha, hx⟩ := transI fields core l hw.1 hf.1 hc.1
      obtain ⟨b, kb, y, hb, hy⟩ := transI fields core r hw.2 hf.2 hc.2
      obtain ⟨hka, hca⟩ := kindI fields core ha
      obtain ⟨hkb, hcb⟩ := kindI fields core hb
      rw [BoolE.toExpr, compare_fwd fields core k (C01.isNullLit_I l) ha hb hka hkb (by simp [hca, hcb])]
      exact ⟨_, _, _, rfl, by
        rw [saSql_cmp k a b (isNullConst_of_not_const hca) (isNullConst_of_not_const hcb), hx, hy]; rfl⟩
  | .cmpS k l r, hw, hf, hc => by
      simp only [C01.wfB, saFrag, colsB, Bool.and_eq_true] at hw hf hc
      obtain ⟨a, ka, x, ha, hx⟩ := transS fields core l hw.1 hf.1 hc.1
      obtain ⟨b, kb, y, hb, hy⟩ := transS fields core r hw.2 hf.2 hc.2
      obtain ⟨hka, hca⟩ := kindS fields core ha
      obtain ⟨hkb, hcb⟩ := kindS fields core hb
      rw [BoolE.toExpr, compare_fwd fields core k (C01.isNullLit_S l) ha hb hka hkb (by simp [hca, hcb])]
      exact ⟨_, _, _, rfl, by
        rw [saSql_cmp k a b (isNullConst_of_not_const hca) (isNullConst_of_not_const hcb), hx, hy]; rfl⟩
  | .cmpB k l r, hw, hf, hc => by
      simp only [C01.wfB, saFrag, colsB, Bool.and_eq_true] at hw hf hc
      obtain ⟨a, ka, x, ha, hx⟩ := transB l hw.1.2 hf.1.2 hc.1
      obtain ⟨b, kb, y, hb, hy⟩ := transB r hw.2 hf.2 hc.2
      obtain ⟨hka, hca⟩ := kindB fields core ha
      obtain ⟨hkb, hcb⟩ := kindB fields core hb
      have hk : (k.toOp == .lt || k.toOp == .le || k.toOp == .gt || k.toOp == .ge) = false := by
        have := hw.1.1
        cases k <;> simp at this <;> rfl
      rw [BoolE.toExpr, compare_fwd fields core k (C01.isNullLit_B l) ha hb hka hkb (by rw [hk]; rfl)]
      exact ⟨_, _, _, rfl, by rw [saSql_cmp k a b hca hcb, hx, hy]; rfl⟩
  | .isNull kind c negated, _, _, hc => by
      rw [colsB] at hc
      rw [visit_isNull, if_pos hc]
      cases negated
      · exact ⟨_, _, _, rfl, saSql_isNull c⟩
      · exact ⟨_, _, _, rfl, saSql_isNotNull c⟩
  | .inI e xs, hw, hf, hc => by
      simp only [C01.wfB, saFrag, colsB, Bool.and_eq_true] at hw hf hc
      obtain ⟨a, ka, x, ha, hx⟩ := transI fields core e hw.1.1 hf.1 hc.1
      obtain ⟨items, ts, hi, hts⟩ := transIs fields core xs hw.1.2 hf.2 hc.2
      rw [BoolE.toExpr]
      exact in_fwd fields core ha (kindI fields core ha).1 hi hx hts
  | .inS e xs, hw, hf, hc => by
      simp only [C01.wfB, saFrag, colsB, Bool.and_eq_true] at hw hf hc
      obtain ⟨a, ka, x, ha, hx⟩ := transS fields core e hw.1.1 hf.1 hc.1
      obtain ⟨items, ts, hi, hts⟩ := transSs fields core xs hw.1.2 hf.2 hc.2
      rw [BoolE.toExpr]
      exact in_fwd fields core ha (kindS fields core ha).1 hi hx hts
  | .and l r, hw, hf, hc => by
      simp only [C01.wfB, saFrag, colsB, Bool.and_eq_true] at hw hf hc
      obtain ⟨a, ka, x, ha, hx⟩ := transB l hw.1 hf.1 hc.1
      obtain ⟨b, kb, y, hb, hy⟩ := transB r hw.2 hf.2 hc.2
      rw [BoolE.toExpr, visit_boolop, ha, hb]
      exact ⟨_, _, _, rfl, by rw [saSql_bool, hx, hy]; rfl⟩
  | .or l r, hw, hf, hc => by
      simp only [C01.wfB, saFrag, colsB, Bool.and_eq_true] at hw hf hc
      obtain ⟨a, ka, x, ha, hx⟩ := transB l hw.1 hf.1 hc.1
      obtain ⟨b, kb, y, hb, hy⟩ := transB r hw.2 hf.2 hc.2
      rw [BoolE.toExpr, visit_boolop, ha, hb]
      exact ⟨_, _, _, rfl, by rw [saSql_bool, hx, hy]; rfl⟩
  | .not e, hw, hf, hc => by
      simp only [C01.wfB, saFrag, colsB] at hw hf hc
      obtain ⟨a, ka, x, ha, hx⟩ := transB e hw hf hc
      rw [BoolE.toExpr, visit_unary, ha]
      simp only [Outcome.bind_ok]
      rw [if_pos (by decide)]
      exact ⟨_, _, _, rfl, by rw [saSql_un, hx]; rfl⟩
  | .like k a b, hw, hf, hc => by
      simp only [C01.wfB, saFrag, colsB, Bool.and_eq_true] at hw hf hc
      obtain ⟨a', ka, x, ha, hx⟩ := transS fields core a hw.1 hf.1 hc.1
      obtain ⟨b', kb, p, hb, hp⟩ := transS fields core b hw.2 hf.2 hc.2
      obtain ⟨t, s, h1, h2⟩ := like_fwd fields core k a b ha hb hx hp
      exact ⟨t, _, s, h1, h2⟩
  | .col c, _, _, hc => by
      rw [colsB] at hc
      rw [BoolE.toExpr, visit_id, if_pos hc]
      exact ⟨_, _, _, rfl, rfl⟩
  | .lit b, _, _, _ => by
      rw [BoolE.toExpr, visit_boolLit']
      cases b
      · exact ⟨_, _, _, rfl, rfl⟩
      · exact ⟨_, _, _, rfl, rfl⟩
end Translates

/-- every filter of `saFrag` over known fields is translated into SQL the environment model covers -/
theorem sa_translates (core : Bool) (b : BoolE) (hw : C01.wfB b = true) (hf : saFrag b = true) (hc : colsB fields b = true) :
    ∃ t s, saBuild fields core b.toExpr = .ok t ∧ saSql t = some s := by
  obtain ⟨t, k, s, hv, hs⟩ := transB fields core b hw hf hc
  refine ⟨t, s, ?_, hs⟩
  unfold saBuild
  rw [hv]; rfl

/-- MAIN THEOREM (C03, semantics) -/
theorem sound (core : Bool) (b : BoolE) (ρ : Row) (t : OTree) (s : SqlTree) (hw : C01.wfB b = true) (h : semOkSa ρ b = true)
    (hb : saBuild fields core b.toExpr = .ok t) (hs : saSql t = some s) :
    sqliteSelects ρ s = some (selects ρ b) := by
  obtain ⟨⟨t', k⟩, hv, hb⟩ := SaSound.bind_ok_inv (x := saVisit fields core b.toExpr) (f := fun p => .ok p.1) hb
  cases hb
  have he := SaSound.soundB fields core ρ b t' k s hw h hv hs
  unfold sqliteSelects selects
  rw [he]
  simp

end OQ.C03
