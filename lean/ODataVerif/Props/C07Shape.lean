/-
  Props/C07Shape.lean — non-interference: the SQL token sequence outside string literals and quoted
  identifiers does not depend on what the filter's string literals contain or how its fields are spelled.
-/
import ODataVerif.Model.SqlPieces
import ODataVerif.Props.C07Lex
import ODataVerif.Lemmas.SqlShape
namespace OQ.C07
open Spec

/-- does the LIKE-escaping change the text (i.e. does it contain `\`, `%` or `_`)? -/
def hasWild (s : Str) : Bool := likeEscape s != s

mutual
/-- the two trees differ at most in the CONTENTS of string literals (with the same wildcard flag) and in the
    NAMES of field identifiers -/
def sameSkel : Expr → Expr → Bool
  | .ident _, .ident _ => true
  | .attr o n, .attr o' n' => sameSkel o o' && n == n'
  | .lit .str a, .lit .str b => hasWild a == hasWild b
  | .lit k v, .lit k' v' => k == k' && v == v' && k != .str
  | .list xs, .list ys => sameSkelList xs ys
  | .binop o l r, .binop o' l' r' => o == o' && sameSkel l l' && sameSkel r r'
  | .compare o l r, .compare o' l' r' => o == o' && sameSkel l l' && sameSkel r r'
  | .boolop o l r, .boolop o' l' r' => o == o' && sameSkel l l' && sameSkel r r'
  | .unary o e, .unary o' e' => o == o' && sameSkel e e'
  | .named n e, .named n' e' => n == n' && sameSkel e e'
  | .call f a, .call f' a' => f == f' && sameSkelList a a'
  | .coll o op l, .coll o' op' l' => sameSkel o o' && op == op' && sameSkelLam l l'
  | _, _ => false
def sameSkelList : Exprs → Exprs → Bool
  | .nil, .nil => true
  | .cons h t, .cons h' t' => sameSkel h h' && sameSkelList t t'
  | _, _ => false
def sameSkelLam : OptLam → OptLam → Bool
  | .none, .none => true
  | .some v b, .some v' b' => v == v' && sameSkel b b'
  | _, _ => false
end

/-- erase what the filter chose: literal contents and identifier spellings -/
def shapeP : Piece → Piece
  | .tok t => .tok t.shape
  | .dq _ => .dq []
  | p => p

def shapeO : Outcome (List Piece) → Outcome (List Piece)
  | .ok ps => .ok (ps.map shapeP)
  | o => o

/-! ### bridge to `Lemmas/SqlShape.lean`

The induction itself is carried out there, over the inductive form `SqlShape.Skel` of `sameSkel` and the copy
`SqlShape.shP` of `shapeP`; the lemmas below connect the definitions of this file to those. -/
open SqlShape in
theorem shapeP_eq : shapeP = SqlShape.shP := by
  funext p; cases p <;> rfl

open SqlShape in
mutual
theorem skel_of_sameSkel : (e e' : Expr) → sameSkel e e' = true → Skel e e'
  | .ident i, e', h => by
      cases e' <;> simp [sameSkel] at h
      exact .ident _ _
  | .attr o n, e', h => by
      cases e' <;> simp [sameSkel] at h
      exact .attr _ _ _ _
  | .lit k v, e', h => by
      cases e' <;> try (simp [sameSkel] at h; done)
      rename_i k' v'
      by_cases hk : k = .str
      · subst hk
        by_cases hk' : k' = .str
        · subst hk'
          simp [sameSkel, hasWild] at h
          exact .str _ _ h
        · cases k' <;> simp [sameSkel] at h hk'
      · cases k <;> simp [sameSkel] at h hk <;> (obtain ⟨rfl, rfl⟩ := h; exact .lit _ _)
  | .list xs, e', h => by
      cases e' <;> simp [sameSkel] at h
      exact .list (skelList_of_sameSkelList _ _ h)
  | .binop o l r, e', h => by
      cases e' <;> simp [sameSkel] at h
      obtain ⟨⟨rfl, h1⟩, h2⟩ := h
      exact .binop _ (skel_of_sameSkel _ _ h1) (skel_of_sameSkel _ _ h2)
  | .compare o l r, e', h => by
      cases e' <;> simp [sameSkel] at h
      obtain ⟨⟨rfl, h1⟩, h2⟩ := h
      exact .compare _ (skel_of_sameSkel _ _ h1) (skel_of_sameSkel _ _ h2)
  | .boolop o l r, e', h => by
      cases e' <;> simp [sameSkel] at h
      obtain ⟨⟨rfl, h1⟩, h2⟩ := h
      exact .boolop _ (skel_of_sameSkel _ _ h1) (skel_of_sameSkel _ _ h2)
  | .unary o e, e', h => by
      cases e' <;> simp [sameSkel] at h
      obtain ⟨rfl, h1⟩ := h
      exact .unary _ (skel_of_sameSkel _ _ h1)
  | .named n e, e', h => by
      cases e' <;> simp [sameSkel] at h
      exact .named _ _ _ _
  | .call f a, e', h => by
      cases e' <;> simp [sameSkel] at h
      obtain ⟨rfl, h1⟩ := h
      exact .call _ (skelList_of_sameSkelList _ _ h1)
  | .coll o op l, e', h => by
      cases e' <;> simp [sameSkel] at h
      exact .coll _ _ _ _ _ _
theorem skelList_of_sameSkelList : (xs ys : Exprs) → sameSkelList xs ys = true → SkelList xs ys
  | .nil, ys, h => by
      cases ys <;> simp [sameSkelList] at h
      exact .nil
  | .cons a t, ys, h => by
      cases ys <;> simp [sameSkelList] at h
      exact .cons (skel_of_sameSkel _ _ h.1) (skelList_of_sameSkelList _ _ h.2)
end

theorem shapeO_eq_of_OEq {x y : Outcome (List Piece)} (h : SqlShape.OEq SqlShape.SameSh x y) :
    shapeO x = shapeO y := by
  cases x <;> cases y <;> simp only [SqlShape.OEq] at h <;>
    first
    | (simp only [shapeO, shapeP_eq]; exact congrArg _ h)
    | (subst h; rfl)
    | rfl
    | exact h.elim

/-- MAIN THEOREM (C07, non-interference at the level of emitted pieces): two filters with the same skeleton
    produce the same outcome up to literal contents and identifier spellings — the same exception, or
    piece lists of identical shape. -/
theorem noninterference (isD : Char → Bool) (d : Dialect) (al : Option Str) (e e' : Expr)
    (h : sameSkel e e' = true) :
    shapeO (sqlVisit isD d al e) = shapeO (sqlVisit isD d al e') :=
  shapeO_eq_of_OEq (SqlShape.skel_visit isD d al e e' (skel_of_sameSkel e e' h))

/-- COROLLARY (C07, tokens): the token sequences read back by the independent SQL tokeniser have the same shape -/
theorem noninterference_tokens (isD : Char → Bool) (d : Dialect) (al : Option Str) (e e' : Expr) (ps ps' : List Piece)
    (h : sameSkel e e' = true)
    (hl : litOk isD d e = true) (hl' : litOk isD d e' = true) (ha : aliasOk al = true)
    (hv : sqlVisit isD d al e = .ok ps) (hv' : sqlVisit isD d al e' = .ok ps') :
    (sqlLex (renderPieces ps)).map (List.map SqlTok.shape) = (sqlLex (renderPieces ps')).map (List.map SqlTok.shape) := by
  have hs : SqlShape.SameSh ps ps' := by
    have := SqlShape.skel_visit isD d al e e' (skel_of_sameSkel e e' h)
    rw [hv, hv'] at this
    exact this
  rw [lex_pieces isD d al e ps hl ha hv, lex_pieces isD d al e' ps' hl' ha hv']
  simp only [Option.map_some, SqlShape.pieceToks_shape_congr hs]

end OQ.C07
