/-
  Props/C14.lean — "Alias rewriting is exact substitution on field references only".
  (That the input tree object is not modified is a runtime fact, checked by checks/c14.py.)
-/
import ODataVerif.Model.Rewrite
import ODataVerif.Model.Ast
import ODataVerif.Spec.Subst
namespace OQ.C14
open Spec

/-- the replacement table seen under the binders `b`: entries rooted at a bound variable are shadowed -/
def filt (m : List (Tree × Tree)) (b : List Tree) : List (Tree × Tree) :=
  m.filter (fun kv => !(b.contains (rootOf kv.1)))

theorem filt_nil (m : List (Tree × Tree)) : filt m [] = m := by
  simp [filt]

theorem filt_cons (m : List (Tree × Tree)) (b : List Tree) (i : Tree) :
    (filt m b).filter (fun kv => rootOf kv.1 != i) = filt m (i :: b) := by
  unfold filt
  rw [List.filter_filter]
  congr 1
  funext kv
  simp only [List.contains_cons]
  cases h1 : (rootOf kv.1 == i) <;> cases h2 : b.contains (rootOf kv.1) <;> simp [bne, h1]

theorem lookup_filt (m : List (Tree × Tree)) (b : List Tree) (n : Tree) :
    lookupRepl (filt m b) n = if rootOf n ∈ b then none else lookupRepl m n := by
  induction m with
  | nil => simp [filt, lookupRepl]
  | cons kv rest ih =>
      obtain ⟨k, v⟩ := kv
      unfold filt at ih ⊢
      by_cases hk : rootOf k ∈ b
      · have hd : List.filter (fun kv => !b.contains (rootOf kv.1)) ((k, v) :: rest)
                  = List.filter (fun kv => !b.contains (rootOf kv.1)) rest := by
          simp [hk]
        rw [hd, ih]
        by_cases hn : rootOf n ∈ b
        · simp [hn]
        · have hne : ¬ k = n := by
            intro e; subst e; exact hn hk
          simp only [hn, if_false, lookupRepl, hne]
          cases lookupRepl rest n <;> rfl
      · have hd : List.filter (fun kv => !b.contains (rootOf kv.1)) ((k, v) :: rest)
                  = (k, v) :: List.filter (fun kv => !b.contains (rootOf kv.1)) rest := by
          simp [hk]
        rw [hd]
        simp only [lookupRepl]
        rw [ih]
        by_cases hn : rootOf n ∈ b
        · have hne : ¬ k = n := by
            intro e; subst e; exact hk hn
          simp [hn, hne]
        · simp [hn]

theorem rootOf_nonAttrKind (k : String) (fs : TreeList) (hk : ¬ k = "Attribute") :
    rootOf (.node k fs) = .node k fs := by
  unfold rootOf
  split
  · rename_i h; cases h; exact absurd rfl hk
  · rfl

theorem rootOf_attr (o : Tree) (a : Str) :
    rootOf (.node "Attribute" (.cons o (.cons (.str a) .nil))) = rootOf o := by
  simp [rootOf]

theorem isIdentNode_kind {t : Tree} (h : isIdentNode t = true) : ∃ fs, t = .node "Identifier" fs := by
  match t, h with
  | .node k fs, h => simp [isIdentNode] at h; subst h; exact ⟨fs, rfl⟩

theorem isAttr_shape {t : Tree} (h : isAttr t = true) :
    ∃ o a, t = .node "Attribute" (.cons o (.cons (.str a) .nil)) := by
  unfold isAttr at h
  split at h
  · exact ⟨_, _, rfl⟩
  · cases h

theorem alias_ident (m : List (Tree × Tree)) (fs : TreeList) :
    alias m (.node "Identifier" fs) =
      (lookupRepl m (.node "Identifier" fs)).getD (.node "Identifier" fs) := by
  conv => lhs; unfold alias
  cases lookupRepl m (.node "Identifier" fs) <;> simp

theorem alias_attr (m : List (Tree × Tree)) (o : Tree) (a : Str) :
    alias m (.node "Attribute" (.cons o (.cons (.str a) .nil))) =
      (lookupRepl m (.node "Attribute" (.cons o (.cons (.str a) .nil)))).getD (mkAttr (alias m o) a) := by
  conv => lhs; unfold alias
  cases lookupRepl m (.node "Attribute" (.cons o (.cons (.str a) .nil))) <;> simp

/-- a reference rooted at a bound variable is left alone by the shadowed table -/
theorem alias_bound (m : List (Tree × Tree)) (b : List Tree) (hb : ∀ x ∈ b, isIdentNode x = true) :
    (t : Tree) → scopeOk t = true → (isIdentNode t = true ∨ isAttr t = true) →
      rootOf t ∈ b → alias (filt m b) t = t
  | .node k fs, hs, hshape, hr => by
      rcases hshape with hi | ha
      · obtain ⟨fs', e⟩ := isIdentNode_kind hi
        cases e
        rw [alias_ident, lookup_filt, rootOf_nonAttrKind _ _ (by decide)]
        rw [rootOf_nonAttrKind _ _ (by decide)] at hr
        simp [hr]
      · obtain ⟨o, a, e⟩ := isAttr_shape ha
        cases e
        rw [alias_attr, lookup_filt]
        rw [rootOf_attr] at hr ⊢
        simp only [hr, if_true, Option.getD_none]
        have hso : (isIdentNode o = true ∨ isAttr o = true) ∧ scopeOk o = true := by
          unfold scopeOk at hs
          simp [scopeOkList] at hs
          exact ⟨by simpa using hs.1, hs.2.1⟩
        rw [alias_bound m b hb o hso.2 hso.1 hr]
        rfl
  | .list _, _, hshape, _ => by simp [isIdentNode, isAttr] at hshape
  | .tuple _, _, hshape, _ => by simp [isIdentNode, isAttr] at hshape
  | .str _, _, hshape, _ => by simp [isIdentNode, isAttr] at hshape
  | .none, _, hshape, _ => by simp [isIdentNode, isAttr] at hshape

theorem scopeOk_fields {k : String} {fs : TreeList} (h : scopeOk (.node k fs) = true) :
    scopeOkList fs = true := by
  unfold scopeOk at h
  simp at h
  exact h.2

mutual
/-- the refinement: rewriting with the shadowed table is substitution under the binders `b` -/
theorem alias_subst (m : List (Tree × Tree)) :
    (t : Tree) → (b : List Tree) → (∀ x ∈ b, isIdentNode x = true) → scopeOk t = true →
      alias (filt m b) t = subst m b t
  | .node k fs, b, hb, hs => by
      have hsf := scopeOk_fields hs
      by_cases h1 : k = "Identifier"
      · subst h1
        rw [alias_ident, lookup_filt, rootOf_nonAttrKind _ _ (by decide)]
        unfold subst
        by_cases hc : Tree.node "Identifier" fs ∈ b
        · simp [hc]
        · cases hl : lookupRepl m (.node "Identifier" fs) <;> simp [hc, hl]
      by_cases h2 : k = "Attribute"
      · subst h2
        match fs, hs, hsf with
        | .cons o (.cons (.str a) .nil), hs, hsf =>
            rw [alias_attr, lookup_filt, rootOf_attr]
            have hso : (isIdentNode o = true ∨ isAttr o = true) ∧ scopeOk o = true := by
              unfold scopeOk at hs
              simp [scopeOkList] at hs
              exact ⟨by simpa using hs.1, hs.2.1⟩
            unfold subst
            by_cases hc : rootOf o ∈ b
            · rw [alias_bound m b hb o hso.2 hso.1 hc]
              simp [hc, mkAttr]
            · have ih := alias_subst m o b hb hso.2
              cases hl : lookupRepl m (.node "Attribute" (.cons o (.cons (.str a) .nil))) <;> simp [hc, hl, ih]
        | .nil, _, _ => unfold alias subst; simp [aliasFields, substFields]
        | .cons x .nil, hs, hsf =>
            have := aliasFields_subst m (.cons x .nil) b hb hsf
            unfold alias subst; simp [this]
        | .cons x (.cons (.node k2 f2) r), hs, hsf =>
            have := aliasFields_subst m (.cons x (.cons (.node k2 f2) r)) b hb hsf
            unfold alias subst; simp [this]
        | .cons x (.cons (.list l2) r), hs, hsf =>
            have := aliasFields_subst m (.cons x (.cons (.list l2) r)) b hb hsf
            unfold alias subst; simp [this]
        | .cons x (.cons (.tuple l2) r), hs, hsf =>
            have := aliasFields_subst m (.cons x (.cons (.tuple l2) r)) b hb hsf
            unfold alias subst; simp [this]
        | .cons x (.cons .none r), hs, hsf =>
            have := aliasFields_subst m (.cons x (.cons .none r)) b hb hsf
            unfold alias subst; simp [this]
        | .cons x (.cons (.str s2) (.cons y r)), hs, hsf =>
            have := aliasFields_subst m (.cons x (.cons (.str s2) (.cons y r))) b hb hsf
            unfold alias subst; simp [this]
      have hgen := aliasFields_subst m fs b hb hsf
      by_cases h3 : k = "Call"
      · subst h3
        match fs, hsf, hgen with
        | .cons func (.cons (.list args) .nil), hsf, hgen =>
            have hargs : scopeOkList args = true := by
              simp [scopeOkList, scopeOk] at hsf; exact hsf.2
            have := aliasItems_subst m args b hb hargs
            unfold alias subst; simp [this]
        | .nil, _, hgen => unfold alias subst; simp [hgen]
        | .cons x .nil, _, hgen => unfold alias subst; simp [hgen]
        | .cons x (.cons (.node k2 f2) r), _, hgen => unfold alias subst; simp [hgen]
        | .cons x (.cons (.tuple l2) r), _, hgen => unfold alias subst; simp [hgen]
        | .cons x (.cons (.str l2) r), _, hgen => unfold alias subst; simp [hgen]
        | .cons x (.cons .none r), _, hgen => unfold alias subst; simp [hgen]
        | .cons x (.cons (.list l2) (.cons y r)), _, hgen => unfold alias subst; simp [hgen]
      by_cases h4 : k = "NamedParam"
      · subst h4
        match fs, hsf, hgen with
        | .cons name (.cons param .nil), hsf, hgen =>
            have hp : scopeOk param = true := by
              simp [scopeOkList] at hsf; exact hsf.2
            have := alias_subst m param b hb hp
            unfold alias subst; simp [this]
        | .nil, _, hgen => unfold alias subst; simp [hgen]
        | .cons x .nil, _, hgen => unfold alias subst; simp [hgen]
        | .cons x (.cons y (.cons z r)), _, hgen => unfold alias subst; simp [hgen]
      by_cases h5 : k = "Lambda"
      · subst h5
        match fs, hs, hsf, hgen with
        | .cons ident (.cons body .nil), hs, hsf, hgen =>
            have hp : scopeOk body = true := by
              simp [scopeOkList] at hsf; exact hsf.2
            have hid : isIdentNode ident = true := by
              unfold scopeOk at hs; simp at hs; exact hs.1
            have hb' : ∀ x ∈ ident :: b, isIdentNode x = true := by
              intro x hx
              rcases List.mem_cons.mp hx with rfl | hx
              · exact hid
              · exact hb x hx
            have := alias_subst m body (ident :: b) hb' hp
            unfold alias subst
            simp [filt_cons, this]
        | .nil, _, _, hgen => unfold alias subst; simp [hgen]
        | .cons x .nil, _, _, hgen => unfold alias subst; simp [hgen]
        | .cons x (.cons y (.cons z r)), _, _, hgen => unfold alias subst; simp [hgen]
      unfold alias subst
      simp [h1, h2, h3, h4, h5, hgen]
  | .list _, _, _, _ => by simp [alias, subst]
  | .tuple _, _, _, _ => by simp [alias, subst]
  | .str _, _, _, _ => by simp [alias, subst]
  | .none, _, _, _ => by simp [alias, subst]
theorem aliasFields_subst (m : List (Tree × Tree)) :
    (fs : TreeList) → (b : List Tree) → (∀ x ∈ b, isIdentNode x = true) → scopeOkList fs = true →
      aliasFields (filt m b) fs = substFields m b fs
  | .nil, _, _, _ => by simp [aliasFields, substFields]
  | .cons (.list items) rest, b, hb, hs => by
      simp [scopeOkList, scopeOk] at hs
      simp [aliasFields, substFields, aliasItems_subst m items b hb hs.1, aliasFields_subst m rest b hb hs.2]
  | .cons (.node k fs) rest, b, hb, hs => by
      simp only [scopeOkList, Bool.and_eq_true] at hs
      simp [aliasFields, substFields, alias_subst m (.node k fs) b hb hs.1, aliasFields_subst m rest b hb hs.2]
  | .cons (.tuple _) rest, b, hb, hs => by
      simp [scopeOkList, scopeOk] at hs
      simp [aliasFields, substFields, aliasFields_subst m rest b hb hs]
  | .cons (.str _) rest, b, hb, hs => by
      simp [scopeOkList, scopeOk] at hs
      simp [aliasFields, substFields, aliasFields_subst m rest b hb hs]
  | .cons .none rest, b, hb, hs => by
      simp [scopeOkList, scopeOk] at hs
      simp [aliasFields, substFields, aliasFields_subst m rest b hb hs]
theorem aliasItems_subst (m : List (Tree × Tree)) :
    (xs : TreeList) → (b : List Tree) → (∀ x ∈ b, isIdentNode x = true) → scopeOkList xs = true →
      aliasItems (filt m b) xs = substItems m b xs
  | .nil, _, _, _ => by simp [aliasItems, substItems]
  | .cons (.node k fs) rest, b, hb, hs => by
      simp only [scopeOkList, Bool.and_eq_true] at hs
      simp [aliasItems, substItems, alias_subst m (.node k fs) b hb hs.1, aliasItems_subst m rest b hb hs.2]
  | .cons (.list _) rest, b, hb, hs => by
      simp only [scopeOkList, Bool.and_eq_true] at hs
      simp [aliasItems, substItems, aliasItems_subst m rest b hb hs.2]
  | .cons (.tuple _) rest, b, hb, hs => by
      simp only [scopeOkList, Bool.and_eq_true] at hs
      simp [aliasItems, substItems, aliasItems_subst m rest b hb hs.2]
  | .cons (.str _) rest, b, hb, hs => by
      simp only [scopeOkList, Bool.and_eq_true] at hs
      simp [aliasItems, substItems, aliasItems_subst m rest b hb hs.2]
  | .cons .none rest, b, hb, hs => by
      simp only [scopeOkList, Bool.and_eq_true] at hs
      simp [aliasItems, substItems, aliasItems_subst m rest b hb hs.2]
end

/-- **C14**: for every replacement table and every tree of the parser's shape, the rewritten tree is
    the substitution on field references -/
theorem rewrite_eq_subst (m : List (Tree × Tree)) (t : Tree) (hs : scopeOk t = true) :
    alias m t = subst m [] t := by
  have := alias_subst m t [] (by simp) hs
  rwa [filt_nil] at this

/-! ### identity on trees that contain no alias key -/

mutual
/-- does `k` occur as a subtree of the value? -/
def occurs (k : Tree) : Tree → Bool
  | .node kind fs => k == .node kind fs || occursList k fs
  | .list items => occursList k items
  | _ => false
def occursList (k : Tree) : TreeList → Bool
  | .nil => false
  | .cons h t => occurs k h || occursList k t
end

theorem lookup_none_of_absent (m : List (Tree × Tree)) (n : Tree)
    (h : ∀ kv ∈ m, ¬ kv.1 = n) : lookupRepl m n = none := by
  induction m with
  | nil => rfl
  | cons kv rest ih =>
      obtain ⟨k, v⟩ := kv
      have h1 : ¬ k = n := h (k, v) (List.mem_cons_self ..)
      have h2 := ih (fun kv hkv => h kv (List.mem_cons_of_mem _ hkv))
      simp [lookupRepl, h2, h1]

mutual
theorem alias_absent :
    (t : Tree) → (m : List (Tree × Tree)) → (∀ kv ∈ m, occurs kv.1 t = false) → alias m t = t
  | .node k fs, m, h => by
      have hself : lookupRepl m (.node k fs) = none :=
        lookup_none_of_absent m _ (fun kv hkv e => by
          have := h kv hkv; rw [e] at this; simp [occurs] at this)
      have hfs : ∀ kv ∈ m, occursList kv.1 fs = false := fun kv hkv => by
        have := h kv hkv; simp [occurs] at this; exact this.2
      have hgen := aliasFields_absent fs m hfs
      by_cases h1 : k = "Identifier"
      · subst h1; rw [alias_ident, hself]; rfl
      by_cases h2 : k = "Attribute"
      · subst h2
        match fs, hself, hfs, hgen with
        | .cons o (.cons (.str a) .nil), hself, hfs, hgen =>
            rw [alias_attr, hself]
            have ho : ∀ kv ∈ m, occurs kv.1 o = false := fun kv hkv => by
              have := hfs kv hkv; simp [occursList] at this; exact this.1
            rw [Option.getD_none, alias_absent o m ho]; rfl
        | .nil, _, _, hgen => unfold alias; simp [hgen]
        | .cons x .nil, _, _, hgen => unfold alias; simp [hgen]
        | .cons x (.cons (.node k2 f2) r), _, _, hgen => unfold alias; simp [hgen]
        | .cons x (.cons (.list l2) r), _, _, hgen => unfold alias; simp [hgen]
        | .cons x (.cons (.tuple l2) r), _, _, hgen => unfold alias; simp [hgen]
        | .cons x (.cons .none r), _, _, hgen => unfold alias; simp [hgen]
        | .cons x (.cons (.str s2) (.cons y r)), _, _, hgen => unfold alias; simp [hgen]
      by_cases h3 : k = "Call"
      · subst h3
        match fs, hfs, hgen with
        | .cons func (.cons (.list args) .nil), hfs, hgen =>
            have ha : ∀ kv ∈ m, occursList kv.1 args = false := fun kv hkv => by
              have := hfs kv hkv; simp [occursList, occurs] at this; exact this.2
            have := aliasItems_absent args m ha
            unfold alias; simp [this]
        | .nil, _, hgen => unfold alias; simp [hgen]
        | .cons x .nil, _, hgen => unfold alias; simp [hgen]
        | .cons x (.cons (.node k2 f2) r), _, hgen => unfold alias; simp [hgen]
        | .cons x (.cons (.tuple l2) r), _, hgen => unfold alias; simp [hgen]
        | .cons x (.cons (.str l2) r), _, hgen => unfold alias; simp [hgen]
        | .cons x (.cons .none r), _, hgen => unfold alias; simp [hgen]
        | .cons x (.cons (.list l2) (.cons y r)), _, hgen => unfold alias; simp [hgen]
      by_cases h4 : k = "NamedParam"
      · subst h4
        match fs, hfs, hgen with
        | .cons name (.cons param .nil), hfs, hgen =>
            have hp : ∀ kv ∈ m, occurs kv.1 param = false := fun kv hkv => by
              have := hfs kv hkv; simp [occursList] at this; exact this.2
            have := alias_absent param m hp
            unfold alias; simp [this]
        | .nil, _, hgen => unfold alias; simp [hgen]
        | .cons x .nil, _, hgen => unfold alias; simp [hgen]
        | .cons x (.cons y (.cons z r)), _, hgen => unfold alias; simp [hgen]
      by_cases h5 : k = "Lambda"
      · subst h5
        match fs, hfs, hgen with
        | .cons ident (.cons body .nil), hfs, hgen =>
            have hp : ∀ kv ∈ m.filter (fun kv => rootOf kv.1 != ident), occurs kv.1 body = false :=
              fun kv hkv => by
                have := hfs kv (List.mem_filter.mp hkv).1; simp [occursList] at this; exact this.2
            have := alias_absent body _ hp
            unfold alias; simp [this]
        | .nil, _, hgen => unfold alias; simp [hgen]
        | .cons x .nil, _, hgen => unfold alias; simp [hgen]
        | .cons x (.cons y (.cons z r)), _, hgen => unfold alias; simp [hgen]
      unfold alias
      simp [h1, h2, h3, h4, h5, hgen]
  | .list _, _, _ => by simp [alias]
  | .tuple _, _, _ => by simp [alias]
  | .str _, _, _ => by simp [alias]
  | .none, _, _ => by simp [alias]
theorem aliasFields_absent :
    (fs : TreeList) → (m : List (Tree × Tree)) → (∀ kv ∈ m, occursList kv.1 fs = false) →
      aliasFields m fs = fs
  | .nil, _, _ => by simp [aliasFields]
  | .cons (.list items) rest, m, h => by
      have h1 : ∀ kv ∈ m, occursList kv.1 items = false := fun kv hkv => by
        have := h kv hkv; simp [occursList, occurs] at this; exact this.1
      have h2 : ∀ kv ∈ m, occursList kv.1 rest = false := fun kv hkv => by
        have := h kv hkv; simp [occursList, occurs] at this; exact this.2
      simp [aliasFields, aliasItems_absent items m h1, aliasFields_absent rest m h2]
  | .cons (.node k fs) rest, m, h => by
      have h1 : ∀ kv ∈ m, occurs kv.1 (.node k fs) = false := fun kv hkv => by
        have := h kv hkv; simp only [occursList, Bool.or_eq_false_iff] at this; exact this.1
      have h2 : ∀ kv ∈ m, occursList kv.1 rest = false := fun kv hkv => by
        have := h kv hkv; simp only [occursList, Bool.or_eq_false_iff] at this; exact this.2
      simp [aliasFields, alias_absent (.node k fs) m h1, aliasFields_absent rest m h2]
  | .cons (.tuple _) rest, m, h => by
      have h2 : ∀ kv ∈ m, occursList kv.1 rest = false := fun kv hkv => by
        have := h kv hkv; simp [occursList, occurs] at this; exact this
      simp [aliasFields, aliasFields_absent rest m h2]
  | .cons (.str _) rest, m, h => by
      have h2 : ∀ kv ∈ m, occursList kv.1 rest = false := fun kv hkv => by
        have := h kv hkv; simp [occursList, occurs] at this; exact this
      simp [aliasFields, aliasFields_absent rest m h2]
  | .cons .none rest, m, h => by
      have h2 : ∀ kv ∈ m, occursList kv.1 rest = false := fun kv hkv => by
        have := h kv hkv; simp [occursList, occurs] at this; exact this
      simp [aliasFields, aliasFields_absent rest m h2]
theorem aliasItems_absent :
    (xs : TreeList) → (m : List (Tree × Tree)) → (∀ kv ∈ m, occursList kv.1 xs = false) →
      aliasItems m xs = xs
  | .nil, _, _ => by simp [aliasItems]
  | .cons (.node k fs) rest, m, h => by
      have h1 : ∀ kv ∈ m, occurs kv.1 (.node k fs) = false := fun kv hkv => by
        have := h kv hkv; simp only [occursList, Bool.or_eq_false_iff] at this; exact this.1
      have h2 : ∀ kv ∈ m, occursList kv.1 rest = false := fun kv hkv => by
        have := h kv hkv; simp only [occursList, Bool.or_eq_false_iff] at this; exact this.2
      simp [aliasItems, alias_absent (.node k fs) m h1, aliasItems_absent rest m h2]
  | .cons (.list _) rest, m, h => by
      have h2 : ∀ kv ∈ m, occursList kv.1 rest = false := fun kv hkv => by
        have := h kv hkv; simp only [occursList, Bool.or_eq_false_iff] at this; exact this.2
      simp [aliasItems, aliasItems_absent rest m h2]
  | .cons (.tuple _) rest, m, h => by
      have h2 : ∀ kv ∈ m, occursList kv.1 rest = false := fun kv hkv => by
        have := h kv hkv; simp only [occursList, Bool.or_eq_false_iff] at this; exact this.2
      simp [aliasItems, aliasItems_absent rest m h2]
  | .cons (.str _) rest, m, h => by
      have h2 : ∀ kv ∈ m, occursList kv.1 rest = false := fun kv hkv => by
        have := h kv hkv; simp only [occursList, Bool.or_eq_false_iff] at this; exact this.2
      simp [aliasItems, aliasItems_absent rest m h2]
  | .cons .none rest, m, h => by
      have h2 : ∀ kv ∈ m, occursList kv.1 rest = false := fun kv hkv => by
        have := h kv hkv; simp only [occursList, Bool.or_eq_false_iff] at this; exact this.2
      simp [aliasItems, aliasItems_absent rest m h2]
end

/-- **nonmatching_id**: a map none of whose keys occurs in the tree is the identity -/
theorem nonmatching_id (m : List (Tree × Tree)) (t : Tree) (h : ∀ kv ∈ m, occurs kv.1 t = false) :
    alias m t = t := alias_absent t m h

/-- **empty_id**: the empty map is the identity -/
theorem empty_id (t : Tree) : alias [] t = t := alias_absent t [] (by simp)

/-! ### every tree the typed AST embeds to (paths hanging off identifiers) has the shape
    `rewrite_eq_subst` assumes -/
mutual
theorem scopeOk_toTree : (e : Expr) → e.pathsOk = true → scopeOk e.toTree = true
  | .ident i, _ => by simp [Expr.toTree, Ident.toTree, scopeOk, scopeOkList]
  | .attr o n, h => by
      simp only [Expr.pathsOk, Bool.and_eq_true] at h
      have ho := scopeOk_toTree o h.2
      match o, h, ho with
      | .ident i, _, ho => simp [Expr.toTree, Ident.toTree, scopeOk, scopeOkList, isIdentNode]
      | .attr o' n', _, ho =>
          simp only [Expr.toTree] at ho ⊢
          have ho' := ho
          unfold scopeOk at ho'
          simp [scopeOkList, isAttr, scopeOk] at ho'
          unfold scopeOk
          simp [scopeOkList, isAttr, scopeOk]
          exact ho'
      | .lit _ _, h, _ => simp at h
      | .list _, h, _ => simp at h
      | .binop _ _ _, h, _ => simp at h
      | .compare _ _ _, h, _ => simp at h
      | .boolop _ _ _, h, _ => simp at h
      | .unary _ _, h, _ => simp at h
      | .named _ _, h, _ => simp at h
      | .call _ _, h, _ => simp at h
      | .coll _ _ _, h, _ => simp at h
  | .lit k v, _ => by cases k <;> simp [Expr.toTree, Tree.leaf, scopeOk, scopeOkList]
  | .list xs, h => by
      simp [Expr.pathsOk] at h
      simp [Expr.toTree, scopeOk, scopeOkList, scopeOkList_toTrees xs h]
  | .binop o l r, h => by
      simp [Expr.pathsOk] at h
      simp [Expr.toTree, Tree.leaf, scopeOk, scopeOkList, scopeOk_toTree l h.1, scopeOk_toTree r h.2]
  | .compare o l r, h => by
      simp [Expr.pathsOk] at h
      simp [Expr.toTree, Tree.leaf, scopeOk, scopeOkList, scopeOk_toTree l h.1, scopeOk_toTree r h.2]
  | .boolop o l r, h => by
      simp [Expr.pathsOk] at h
      simp [Expr.toTree, Tree.leaf, scopeOk, scopeOkList, scopeOk_toTree l h.1, scopeOk_toTree r h.2]
  | .unary o e, h => by
      simp [Expr.pathsOk] at h
      simp [Expr.toTree, Tree.leaf, scopeOk, scopeOkList, scopeOk_toTree e h]
  | .named n e, h => by
      simp [Expr.pathsOk] at h
      simp [Expr.toTree, Ident.toTree, scopeOk, scopeOkList, scopeOk_toTree e h]
  | .call f a, h => by
      simp [Expr.pathsOk] at h
      simp [Expr.toTree, Ident.toTree, scopeOk, scopeOkList, scopeOkList_toTrees a h]
  | .coll ow o l, h => by
      simp [Expr.pathsOk] at h
      simp [Expr.toTree, Tree.leaf, scopeOk, scopeOkList, scopeOk_toTree ow h.1, scopeOk_optLam l h.2]
theorem scopeOkList_toTrees : (xs : Exprs) → xs.pathsOk = true → scopeOkList xs.toTrees = true
  | .nil, _ => by simp [Exprs.toTrees, scopeOkList]
  | .cons h t, hp => by
      simp [Exprs.pathsOk] at hp
      simp [Exprs.toTrees, scopeOkList, scopeOk_toTree h hp.1, scopeOkList_toTrees t hp.2]
theorem scopeOk_optLam : (l : OptLam) → l.pathsOk = true → scopeOk l.toTree = true
  | .none, _ => by simp [OptLam.toTree, scopeOk]
  | .some v b, h => by
      simp [OptLam.pathsOk] at h
      simp [OptLam.toTree, Ident.toTree, scopeOk, scopeOkList, scopeOk_toTree b h, isIdentNode]
end

/-- **C14 on the typed AST**: for every alias table and every expression whose paths hang off
    identifiers -/
theorem rewrite_eq_subst_expr (m : List (Tree × Tree)) (e : Expr) (h : e.pathsOk = true) :
    alias m e.toTree = subst m [] e.toTree :=
  rewrite_eq_subst m e.toTree (scopeOk_toTree e h)

/-! non-vacuity and the formerly failing inputs (D16), now theorems about the fixed code -/
def idt (s : String) : Expr := .ident ⟨s.toList, []⟩
def m₁ : List (Tree × Tree) :=
  [((idt "date").toTree, (idt "created_at").toTree), ((idt "x").toTree, (idt "y").toTree),
   ((idt "t").toTree, (idt "tags").toTree),
   ((Expr.attr (idt "t") "label".toList).toTree, (idt "lbl").toTree)]
def e₁ : Expr :=
  .boolop .and_
    (.compare .eq (.call ⟨"date".toList, []⟩ (.cons (idt "date") .nil)) (.lit .date "2020-01-01".toList))
    (.boolop .and_
      (.call ⟨"g".toList, ["f".toList]⟩ (.cons (.named ⟨"x".toList, []⟩ (idt "x")) .nil))
      (.boolop .or_
        (.coll (idt "c") .any (.some ⟨"t".toList, []⟩ (.compare .eq (.attr (idt "t") "label".toList) (idt "t"))))
        (.compare .eq (.attr (idt "t") "label".toList) (idt "t"))))
example : e₁.pathsOk = true := by decide
example : alias m₁ e₁.toTree =
    (Expr.boolop .and_
      (.compare .eq (.call ⟨"date".toList, []⟩ (.cons (idt "created_at") .nil)) (.lit .date "2020-01-01".toList))
      (.boolop .and_
        (.call ⟨"g".toList, ["f".toList]⟩ (.cons (.named ⟨"x".toList, []⟩ (idt "y")) .nil))
        (.boolop .or_
          (.coll (idt "c") .any (.some ⟨"t".toList, []⟩ (.compare .eq (.attr (idt "t") "label".toList) (idt "t"))))
          (.compare .eq (idt "lbl") (idt "tags"))))).toTree := by decide

end OQ.C14
