/-
  Props/C06Value.lean — C06, the VALUE half for every input: each well-formed spelling (Spec/LitSpell.lean, written from
  the ABNF) is read back by the model of `py_val` (Model/PyVal.lean, run against the real py_val on every check) to the
  meaning it was spelled from; and the KIND half: the scanner model reads each spelling, followed by anything that may
  follow a literal, as ONE token of exactly that kind carrying exactly that text.
-/
import ODataVerif.Model.Lexer
import ODataVerif.Model.PyVal
import ODataVerif.Spec.LitSpell
import ODataVerif.Lemmas.LitValue
import ODataVerif.Lemmas.LitLex
namespace OQ.C06V
open OQ.LitSpell

/-! ### values -/

/-- integers: any number of digits with any leading zeros, optional sign -/
theorem int_value (w n : Nat) (h : n < 10 ^ (w + 1)) :
    pyVal .int (pad (w + 1) n) = .ok (.int n) ∧
    pyVal .int ('-' :: pad (w + 1) n) = .ok (.int (-(n : Int))) ∧
    pyVal .int ('+' :: pad (w + 1) n) = .ok (.int n) := by
  refine ⟨LitValue.pyInt_pad w n h, ?_, ?_⟩
  · simp [pyVal, pyInt, LitValue.natOfDigits_pad w n h]
  · simp [pyVal, pyInt, LitValue.natOfDigits_pad w n h]

theorem date_value (y m d : Nat) (h : validDate y m d) : pyVal .date (isoDate y m d) = .ok (.date y m d) := LitValue.date_value y m d h

/-- a four-digit year, two-digit month and day that are NOT a calendar day have no value (the library reports its ValueException) -/
theorem date_no_value (y m d : Nat) (hy : y ≤ 9999) (hm : m ≤ 99) (hd : d ≤ 99) (h : ¬ validDate y m d) :
    pyVal .date (isoDate y m d) = .foreign "ValueError" := LitValue.date_no_value y m d hy hm hd h

theorem time_value (h mi : Nat) (sc : Secs) (hh : h < 24) (hmi : mi < 60) (hs : sc.ok) :
    pyVal .time (clockText h mi sc) = .ok (.time h mi sc.s sc.us) := LitValue.time_value h mi sc hh hmi hs

theorem datetime_value (y mo d h mi : Nat) (sep : Char) (sc : Secs) (o : Off) (hd : validDate y mo d)
    (hh : h < 24) (hmi : mi < 60) (hs : sc.ok) (ho : o.ok) :
    pyVal .datetime (dateTimeText y mo d sep h mi sc o) = .ok (.datetime y mo d h mi sc.s sc.us o.minutes) := LitValue.datetime_value y mo d h mi sep sc o hd hh hmi hs ho

theorem duration_value (sg : Sign) (y mo d : Option (Nat × Nat)) (tp : Option (Option (Nat × Nat) × Option (Nat × Nat) × DSecs))
    (hy : compOk y) (hmo : compOk mo) (hd : compOk d)
    (ht : ∀ h mi s, tp = some (h, mi, s) → compOk h ∧ compOk mi ∧ s.ok) :
    pyVal .duration (durText sg y mo d tp) = .ok (.duration (durMicros sg y mo d tp)) := LitValue.duration_value sg y mo d tp hy hmo hd ht

theorem guid_value (up : Nat → Bool) (n : Nat) (h : n < 2 ^ 128) : pyVal .guid (guidText up n) = .ok (.guid n) := LitValue.guid_value up n h

theorem bool_value (v : Str) :
    (v.map asciiLower = "true".toList → pyVal .bool v = .ok (.bool true)) ∧
    (v.map asciiLower = "false".toList → pyVal .bool v = .ok (.bool false)) := LitValue.bool_value v

/-- strings: the scanner un-doubles the quotes - the token carries exactly the characters that were spelled -/
theorem string_value (s rest : Str) (hr : ∀ t, rest ≠ '\'' :: t) :
    scanString (quoteText s ++ rest) = some (s, rest) ∧ pyVal .str s = .ok (.str s) := ⟨LitValue.scanString_quote s rest hr, rfl⟩

/-- identifiers: dotted namespaces are split off, the last segment is the name -/
theorem ident_namespaces (segs : List Str) (last : Str) (h : ∀ s ∈ segs ++ [last], '.' ∉ s) :
    identOfText (dotted (segs ++ [last])) = ⟨last, segs⟩ := LitValue.ident_namespaces segs last h

/-! ### kinds: one token of exactly that kind (CPython's character classes) -/

theorem int_kind (w n : Nat) (h : n < 10 ^ (w + 1)) (rest : Str) (hb : boundary rest) :
    lexOne pyCharEnv (pad (w + 1) n ++ rest) = some (.lit .int (pad (w + 1) n), rest) := LitLex.int_kind w n h rest hb

theorem date_kind (y m d : Nat) (h : validDate y m d) (rest : Str) (hb : boundary rest) :
    lexOne pyCharEnv (isoDate y m d ++ rest) = some (.lit .date (isoDate y m d), rest) := LitLex.date_kind y m d h rest hb

/-- the property's time of day is hh:mm:ss[.f] (the library's TIME rule requires the seconds; `hh:mm` alone is an integer, a colon, an integer) -/
-- CHANGED: the original statement is false for a fraction of more than twelve digits (the TIME rule's `\.\d{1,12}` reads
-- twelve and leaves the rest): h = 3, mi = 4, sc = .frac 5 [1,2,3,4,5,6,7,8,9,0,1,2,3], rest = " " lexes to the TIME token
-- `03:04:05.123456789012` with rest `"3 "`.  Added hypothesis `hf` (at most twelve fraction digits).  Original:
--   theorem time_kind (h mi : Nat) (sc : Secs) (hh : h < 24) (hmi : mi < 60) (hs : sc.ok) (hsec : sc ≠ .none) (rest : Str) (hb : boundary rest) :
--       lexOne pyCharEnv (clockText h mi sc ++ rest) = some (.lit .time (clockText h mi sc), rest)
theorem time_kind (h mi : Nat) (sc : Secs) (hh : h < 24) (hmi : mi < 60) (hs : sc.ok) (hsec : sc ≠ .none)
    (hf : ∀ s fs, sc = .frac s fs → fs.length ≤ 12) -- CHANGED: added
    (rest : Str) (hb : boundary rest) :
    lexOne pyCharEnv (clockText h mi sc ++ rest) = some (.lit .time (clockText h mi sc), rest) :=
  LitLex.time_kind h mi sc hh hmi hs hsec hf rest hb

-- CHANGED: the original statement is false in two ways.  (1) The DATETIME token action upper-cases the text, so a spelling
-- with a lower-case `z` is carried with `Z`: y mo d h mi = 2020 1 2 3 4, sc = .whole 5, o = .z false, rest = " " lexes to the
-- token text `2020-01-02T03:04:05Z`, not `…05z`.  (2) As for TIME, at most twelve fraction digits are read:
-- sc = .frac 5 [1,2,3,4,5,6,7,8,9,0,1,2,3], o = .naive leaves rest `"3 "`.  Added hypotheses `hf` and `hz`.  Original:
--   theorem datetime_kind (y mo d h mi : Nat) (sc : Secs) (o : Off) (hd : validDate y mo d)
--       (hh : h < 24) (hmi : mi < 60) (hs : sc.ok) (ho : o.ok) (rest : Str) (hb : boundary rest) :
--       lexOne pyCharEnv (dateTimeText y mo d 'T' h mi sc o ++ rest) = some (.lit .datetime (dateTimeText y mo d 'T' h mi sc o), rest)
theorem datetime_kind (y mo d h mi : Nat) (sc : Secs) (o : Off) (hd : validDate y mo d)
    (hh : h < 24) (hmi : mi < 60) (hs : sc.ok) (ho : o.ok)
    (hf : ∀ s fs, sc = .frac s fs → fs.length ≤ 12) (hz : o ≠ .z false) -- CHANGED: added
    (rest : Str) (hb : boundary rest) :
    lexOne pyCharEnv (dateTimeText y mo d 'T' h mi sc o ++ rest) = some (.lit .datetime (dateTimeText y mo d 'T' h mi sc o), rest) :=
  LitLex.datetime_kind y mo d h mi sc o hd hh hmi hs ho hf hz rest hb

/-- the general form: either letter case of the `T` separator and of the `Z` designator; the token carries the upper-cased text, whose value
    is the same (`datetime_value` holds for every separator and either `z`) -/
theorem datetime_kind_anycase (y mo d h mi : Nat) (sep : Char) (sc : Secs) (o : Off) (hd : validDate y mo d)
    (hh : h < 24) (hmi : mi < 60) (hs : sc.ok) (ho : o.ok) (hsep : sep = 'T' ∨ sep = 't')
    (hf : ∀ s fs, sc = .frac s fs → fs.length ≤ 12) (rest : Str) (hb : boundary rest) :
    lexOne pyCharEnv (dateTimeText y mo d sep h mi sc o ++ rest) = some (.lit .datetime (dateTimeText y mo d 'T' h mi sc o.up), rest) :=
  LitLex.datetime_kind_anycase y mo d h mi sep sc o hd hh hmi hs ho hsep hf rest hb

/-- durations: the token carries the text between the quotes -/
theorem duration_kind (sg : Sign) (y mo d : Option (Nat × Nat)) (tp : Option (Option (Nat × Nat) × Option (Nat × Nat) × DSecs))
    (hy : compOk y) (hmo : compOk mo) (hd : compOk d)
    (ht : ∀ h mi s, tp = some (h, mi, s) → compOk h ∧ compOk mi ∧ s.ok) (rest : Str) :
    lexOne pyCharEnv ("duration'".toList ++ durText sg y mo d tp ++ '\'' :: rest) = some (.lit .duration (durText sg y mo d tp), rest) := LitLex.duration_kind sg y mo d tp hy hmo hd ht rest

theorem guid_kind (up : Nat → Bool) (n : Nat) (h : n < 2 ^ 128) (rest : Str) (hb : boundary rest) :
    lexOne pyCharEnv (guidText up n ++ rest) = some (.lit .guid (guidText up n), rest) := LitLex.guid_kind up n h rest hb

theorem string_kind (s rest : Str) (hb : boundary rest) :
    lexOne pyCharEnv (quoteText s ++ rest) = some (.lit .str s, rest) := LitLex.string_kind s rest hb

/-- decimal / exponent numbers: optional sign, any digits, a fraction and / or an exponent in either letter case -/
theorem decimal_kind (sg : Sign) (wi ni : Nat) (fr : Option (Nat × Nat)) (ex : Expo) (hi : ni < 10 ^ (wi + 1))
    (hf : ∀ wf nf, fr = some (wf, nf) → nf < 10 ^ (wf + 1)) (he : ex.ok) (hfe : fr ≠ none ∨ ex ≠ .none) (rest : Str) (hb : boundary rest) :
    lexOne pyCharEnv (decimalText sg wi ni fr ex ++ rest) = some (.lit .float (decimalText sg wi ni fr ex), rest) :=
  LitLex.decimal_kind sg wi ni fr ex hi hf he hfe rest hb

/-- Booleans in any letter case: a Boolean token that keeps the spelling, whose value is the keyword's -/
theorem bool_kind (up : Nat → Bool) (b : Bool) (rest : Str) (hb : boundary rest) :
    lexOne pyCharEnv (caseWord up (if b then "true".toList else "false".toList) ++ rest)
      = some (.lit .bool (caseWord up (if b then "true".toList else "false".toList)), rest)
    ∧ pyVal .bool (caseWord up (if b then "true".toList else "false".toList)) = .ok (.bool b) :=
  LitLex.bool_kind up b rest hb

/-- null in any letter case -/
theorem null_kind (up : Nat → Bool) (rest : Str) (hb : boundary rest) :
    lexOne pyCharEnv (caseWord up "null".toList ++ rest) = some (.lit .null [], rest) :=
  LitLex.null_kind up rest hb

/-- geography literals: the token carries the raw content (quotes stay doubled - the library does not un-double them for this kind) -/
theorem geography_kind (up : Nat → Bool) (content rest : Str) (hb : boundary rest) :
    lexOne pyCharEnv (geoText up content ++ rest)
      = some (.lit .geo (content.flatMap (fun c => if c = '\'' then ['\'', '\''] else [c])), rest) :=
  LitLex.geography_kind up content rest hb

/-- identifiers: every well-formed identifier - whether or not it starts with or contains a keyword (nullable, anything, trueness, notes, inside,
    true.x, eq, add ...) - is ONE identifier token whose namespaces are the dotted prefix and whose name is the last segment -/
theorem ident_kind (segs : List Str) (last : Str) (h : wfIdent (segs ++ [last])) (hk : notReserved (dotted (segs ++ [last])))
    (rest : Str) (hb : boundary rest) :
    lexOne pyCharEnv (dotted (segs ++ [last]) ++ rest) = some (.ident ⟨last, segs⟩, rest) :=
  LitLex.ident_kind segs last h hk rest hb

end OQ.C06V
