/-
  Props/BoolLit.lean — a Boolean term compared with a Boolean literal (the spellings `b eq true`, `b ne false`, `false eq b`, …): in OData's three-valued
  semantics (Spec/ODataSem.lean) the comparison denotes `b` or `not b`, on every row, NULL included.  These are the identities the checks of C01–C04 rely on
  when they judge such spellings (C04 maps `L ne false` to `L` in the harness; here the mapping is a theorem of the scalar semantics), and the reason a
  "redundant null guard" may NOT be dropped under a negation: `x ne null and x gt 3` is FALSE on a NULL row where `x gt 3` alone is UNKNOWN.
-/
import ODataVerif.Spec.ODataSem
namespace OQ.Props.BoolLit
open OQ OQ.Spec

theorem eq_true (ρ : Row) (b : BoolE) : evalB ρ (.cmpB .eq b (.lit true)) = evalB ρ b := by
  simp only [evalB, V3.ofBool]; cases evalB ρ b <;> rfl
theorem ne_false (ρ : Row) (b : BoolE) : evalB ρ (.cmpB .ne b (.lit false)) = evalB ρ b := by
  simp only [evalB, V3.ofBool]; cases evalB ρ b <;> rfl
theorem eq_false (ρ : Row) (b : BoolE) : evalB ρ (.cmpB .eq b (.lit false)) = evalB ρ (.not b) := by
  simp only [evalB, V3.ofBool]; cases evalB ρ b <;> rfl
theorem ne_true (ρ : Row) (b : BoolE) : evalB ρ (.cmpB .ne b (.lit true)) = evalB ρ (.not b) := by
  simp only [evalB, V3.ofBool]; cases evalB ρ b <;> rfl
theorem true_eq (ρ : Row) (b : BoolE) : evalB ρ (.cmpB .eq (.lit true) b) = evalB ρ b := by
  simp only [evalB, V3.ofBool]; cases evalB ρ b <;> rfl
theorem false_ne (ρ : Row) (b : BoolE) : evalB ρ (.cmpB .ne (.lit false) b) = evalB ρ b := by
  simp only [evalB, V3.ofBool]; cases evalB ρ b <;> rfl
theorem false_eq (ρ : Row) (b : BoolE) : evalB ρ (.cmpB .eq (.lit false) b) = evalB ρ (.not b) := by
  simp only [evalB, V3.ofBool]; cases evalB ρ b <;> rfl
theorem true_ne (ρ : Row) (b : BoolE) : evalB ρ (.cmpB .ne (.lit true) b) = evalB ρ (.not b) := by
  simp only [evalB, V3.ofBool]; cases evalB ρ b <;> rfl

/-- selection form: `b ne false` selects exactly the rows `b` selects; `b eq false` selects the rows on which `b` is FALSE (not those on which it is unknown) -/
theorem selects_ne_false (ρ : Row) (b : BoolE) : selects ρ (.cmpB .ne b (.lit false)) = selects ρ b := by
  simp only [selects, ne_false]
theorem selects_eq_false (ρ : Row) (b : BoolE) : selects ρ (.cmpB .eq b (.lit false)) = (evalB ρ b == .ff) := by
  simp only [selects, evalB, V3.ofBool]; cases evalB ρ b <;> rfl

/-- a null guard is not redundant under a negation: on a row where the column is NULL the guarded conjunction is FALSE (so its negation selects the row),
    whatever the comparison says -/
theorem guard_false_on_null (ρ : Row) (k : ColK) (c : Str) (cmp : BoolE) (h : ρ.get c = .null) :
    evalB ρ (.and (.isNull k c true) cmp) = .ff ∧ evalB ρ (.and cmp (.isNull k c true)) = .ff := by
  simp only [evalB, h, V3.ofBool]
  constructor <;> cases evalB ρ cmp <;> rfl
theorem not_guard_selects_null (ρ : Row) (k : ColK) (c : Str) (cmp : BoolE) (h : ρ.get c = .null) :
    selects ρ (.not (.and (.isNull k c true) cmp)) = true := by
  have := (guard_false_on_null ρ k c cmp h).1
  simp only [selects, evalB] at *
  rw [this]; rfl
/-- … whereas the bare comparison, when it is unknown on that row, is not selected under the negation: dropping the guard changes the answer -/
theorem not_unknown_not_selected (ρ : Row) (cmp : BoolE) (h : evalB ρ cmp = .unk) : selects ρ (.not cmp) = false := by
  simp only [selects, evalB, h]; rfl

/-- the premises are satisfiable: a row with a NULL integer column, the comparison `i1 gt 3` is unknown on it -/
example : let ρ : Row := [("i1".toList, .null)]
    ρ.get "i1".toList = .null ∧ evalB ρ (.cmpI .gt (.col "i1".toList) (.lit false "3".toList)) = .unk := by decide

end OQ.Props.BoolLit
