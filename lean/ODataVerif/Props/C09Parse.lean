/-
  Props/C09Parse.lean — the tokens the SQL visitors' model emits are read by the independent SQL parser
  (standard precedence, ambiguous mixes rejected) as exactly the tree `Spec.mirror` demands.
-/
import ODataVerif.Model.SqlPieces
import ODataVerif.Spec.SqlMirror
import ODataVerif.Lemmas.SqlPratt
namespace OQ.C09
open Spec

/-- MAIN THEOREM (C09, structure): for every dialect, alias and `sqlSafe` filter, if the specification assigns
    the filter a mirror tree and the model emits pieces, then the independent parser reads the emitted
    tokens as that tree. -/
theorem parse_mirror (isD : Char → Bool) (d : Dialect) (al : Option Str) (e : Expr) (ps : List Piece) (t : SqlTree)
    (hl : litOk isD d e = true) (hs : sqlSafe d e = true)
    (hm : mirror isD d al e = some t) (hv : sqlVisit isD d al e = .ok ps) :
    sqlParse (pieceToks ps) = some t :=
  SqlPratt.parse_of_core e t ps (SqlPratt.core isD d al e t ps hl hs hm hv)

end OQ.C09
