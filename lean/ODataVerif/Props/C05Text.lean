/-
  Props/C05Text.lean — C05 at the level of TEXT (corollaries of C13Text.parse_text): the minimally parenthesised and the fully
  parenthesised rendering of a tree, under any placement of optional whitespace, are filter TEXTS that parse to that tree — so
  the parser groups an unparenthesised text exactly as the precedence / associativity table says (it agrees with the reading in
  which every sub-expression is parenthesised explicitly), and explicit parentheses always win.
-/
import ODataVerif.Props.C13Text
namespace OQ.C05
open Spec

/-- the text without redundant parentheses and the text with every sub-expression parenthesised parse to the same tree -/
theorem text_grouping (s1 s2 : Style) (e : Expr) (hp : printable e = true) (hl : C13.lexableE' pyCharEnv e = true) :
    parseText pyCharEnv (render (printToks s1 .minimal e)) = parseText pyCharEnv (render (printToks s2 .full e)) := by
  rw [C13.parse_text s1 .minimal e hp hl, C13.parse_text s2 .full e hp hl]

/-- explicit parentheses always win: the fully parenthesised text of ANY tree shape parses to that shape -/
theorem text_parens_win (s : Style) (e : Expr) (hp : printable e = true) (hl : C13.lexableE' pyCharEnv e = true) :
    parseText pyCharEnv (render (printToks s .full e)) = .ok e :=
  C13.parse_text s .full e hp hl

end OQ.C05
