/-
  Props/C01.lean — "the SQLite WHERE clause selects exactly the rows the OData filter denotes", for the typed
  scalar fragment of Spec/ODataSem.lean (integer / string / Boolean terms, any nesting).

  * `typed_sqlSafe`, `typed_litOk`   every filter of the typed grammar satisfies the side conditions of the
                                     lexing / parsing theorems (C07 `lex_pieces`, C09 `parse_mirror`)
  * `translates`                     the SQLite dialect never refuses a filter of the typed grammar
  * `sound`                          for every filter b and every row ρ inside `semOkB`, the expected SQL tree
                                     `Spec.mirror .sqlite (toExpr b)` evaluated by the SQLite model selects ρ
                                     iff OData's three-valued semantics makes b true on ρ
  `semOkB` excludes exactly: negative substring positions (unspecified by OData), rows on which SQLite's ASCII
  case-insensitive LIKE differs from an ordinal match (known finding), computed LIKE patterns whose VALUE contains
  `%` or `_` (known finding), NUL characters, and cells of the wrong storage class.
-/
import ODataVerif.Spec.ODataElab
import ODataVerif.Spec.SqlMirror
import ODataVerif.Model.SqlPieces
import ODataVerif.Lemmas.SqliteSound
import ODataVerif.Lemmas.SqliteSoundB
import ODataVerif.Lemmas.TypedShape
namespace OQ.C01
open Spec SqliteSound SqliteLike TypedShape

mutual
/-- literal texts and field names of a typed term are well-formed (ASCII digits; no `"` in a name) -/
def wfI : IntE → Bool
  | .lit _ ds => asciiDigits ds
  | .col c => !c.contains '"'
  | .neg e => wfI e
  | .arith _ l r => wfI l && wfI r
  | .length s => wfS s
  | .indexof a b => wfS a && wfS b
def wfS : StrE → Bool
  | .lit _ => true
  | .col c => !c.contains '"'
  | .concat a b => wfS a && wfS b
  | .substring s i => wfS s && wfI i
  | .substring3 s i n => wfS s && wfI i && wfI n
  | .tolower s | .toupper s | .trim s => wfS s
end
def wfIs : List IntE → Bool
  | [] => true
  | e :: t => wfI e && wfIs t
def wfSs : List StrE → Bool
  | [] => true
  | e :: t => wfS e && wfSs t
def wfB : BoolE → Bool
  | .cmpI _ l r => wfI l && wfI r
  | .cmpS _ l r => wfS l && wfS r
  | .cmpB k l r => (k == .eq || k == .ne) && wfB l && wfB r
  | .isNull _ c _ => !c.contains '"'
  | .inI e xs => wfI e && wfIs xs && !xs.isEmpty
  | .inS e xs => wfS e && wfSs xs && !xs.isEmpty
  | .and l r | .or l r => wfB l && wfB r
  | .not e => wfB e
  | .like _ a b => wfS a && wfS b
  | .col c => !c.contains '"'
  | .lit _ => true

variable (isD : Char → Bool)

mutual
theorem litOkI (d : Dialect) : (e : IntE) → wfI e = true → litOk isD d e.toExpr = true
  | .lit neg ds, h => by
      rw [wfI] at h
      rw [IntE.toExpr, litOk]
      cases neg
      · exact isNumText_digits h
      · exact isNumText_neg h
  | .col c, h => by
      rw [wfI] at h
      rw [IntE.toExpr, idE, litOk]; exact nameOk_of d h
  | .neg e, h => by
      rw [wfI] at h
      rw [IntE.toExpr, litOk]; exact litOkI d e h
  | .arith k l r, h => by
      rw [wfI, Bool.and_eq_true] at h
      rw [IntE.toExpr, litOk, litOkI d l h.1, litOkI d r h.2]; rfl
  | .length s, h => by
      rw [wfI] at h
      rw [IntE.toExpr, litOk, litOkList, litOkList, litOkS d s h]; rfl
  | .indexof a b, h => by
      rw [wfI, Bool.and_eq_true] at h
      rw [IntE.toExpr, litOk, litOkList, litOkList, litOkList, litOkS d a h.1, litOkS d b h.2]; rfl
theorem litOkS (d : Dialect) : (s : StrE) → wfS s = true → litOk isD d s.toExpr = true
  | .lit s, _ => by rw [StrE.toExpr, litOk]; rfl
  | .col c, h => by
      rw [wfS] at h
      rw [StrE.toExpr, idE, litOk]; exact nameOk_of d h
  | .concat a b, h => by
      rw [wfS, Bool.and_eq_true] at h
      rw [StrE.toExpr, litOk, litOkList, litOkList, litOkList, litOkS d a h.1, litOkS d b h.2]; rfl
  | .substring s i, h => by
      rw [wfS, Bool.and_eq_true] at h
      rw [StrE.toExpr, litOk, litOkList, litOkList, litOkList, litOkS d s h.1, litOkI d i h.2]; rfl
  | .substring3 s i n, h => by
      rw [wfS, Bool.and_eq_true, Bool.and_eq_true] at h
      rw [StrE.toExpr, litOk, litOkList, litOkList, litOkList, litOkList, litOkS d s h.1.1, litOkI d i h.1.2,
        litOkI d n h.2]; rfl
  | .tolower s, h => by
      rw [wfS] at h
      rw [StrE.toExpr, litOk, litOkList, litOkList, litOkS d s h]; rfl
  | .toupper s, h => by
      rw [wfS] at h
      rw [StrE.toExpr, litOk, litOkList, litOkList, litOkS d s h]; rfl
  | .trim s, h => by
      rw [wfS] at h
      rw [StrE.toExpr, litOk, litOkList, litOkList, litOkS d s h]; rfl
end

theorem litOkIs (d : Dialect) : (xs : List IntE) → wfIs xs = true → litOkList isD d (intsToExprs xs) = true
  | [], _ => by rw [intsToExprs, litOkList]
  | e :: t, h => by
      rw [wfIs, Bool.and_eq_true] at h
      rw [intsToExprs, litOkList, litOkI isD d e h.1, litOkIs d t h.2]; rfl
theorem litOkSs (d : Dialect) : (xs : List StrE) → wfSs xs = true → litOkList isD d (strsToExprs xs) = true
  | [], _ => by rw [strsToExprs, litOkList]
  | e :: t, h => by
      rw [wfSs, Bool.and_eq_true] at h
      rw [strsToExprs, litOkList, litOkS isD d e h.1, litOkSs d t h.2]; rfl

theorem litOkB (d : Dialect) : (b : BoolE) → wfB b = true → litOk isD d b.toExpr = true
  | .cmpI _ l r, h => by
      rw [wfB, Bool.and_eq_true] at h
      rw [BoolE.toExpr, litOk, litOkI isD d l h.1, litOkI isD d r h.2]; rfl
  | .cmpS _ l r, h => by
      rw [wfB, Bool.and_eq_true] at h
      rw [BoolE.toExpr, litOk, litOkS isD d l h.1, litOkS isD d r h.2]; rfl
  | .cmpB _ l r, h => by
      rw [wfB, Bool.and_eq_true, Bool.and_eq_true] at h
      rw [BoolE.toExpr, litOk, litOkB d l h.1.2, litOkB d r h.2]; rfl
  | .isNull _ c _, h => by
      rw [wfB] at h
      rw [BoolE.toExpr, litOk, idE, litOk, nameOk_of d h, litOk]; rfl
  | .inI e xs, h => by
      rw [wfB, Bool.and_eq_true, Bool.and_eq_true] at h
      rw [BoolE.toExpr, litOk, litOk, litOkI isD d e h.1.1, litOkIs isD d xs h.1.2]; rfl
  | .inS e xs, h => by
      rw [wfB, Bool.and_eq_true, Bool.and_eq_true] at h
      rw [BoolE.toExpr, litOk, litOk, litOkS isD d e h.1.1, litOkSs isD d xs h.1.2]; rfl
  | .and l r, h => by
      rw [wfB, Bool.and_eq_true] at h
      rw [BoolE.toExpr, litOk, litOkB d l h.1, litOkB d r h.2]; rfl
  | .or l r, h => by
      rw [wfB, Bool.and_eq_true] at h
      rw [BoolE.toExpr, litOk, litOkB d l h.1, litOkB d r h.2]; rfl
  | .not e, h => by
      rw [wfB] at h
      rw [BoolE.toExpr, litOk]; exact litOkB d e h
  | .like _ a b, h => by
      rw [wfB, Bool.and_eq_true] at h
      rw [BoolE.toExpr, litOk, litOkList, litOkList, litOkList, litOkS isD d a h.1, litOkS isD d b h.2]; rfl
  | .col c, h => by
      rw [wfB] at h
      rw [BoolE.toExpr, idE, litOk]; exact nameOk_of d h
  | .lit b, _ => by
      rw [BoolE.toExpr, litOk]
      cases b
      · exact boolText_false
      · exact boolText_true

/-- every filter of the typed grammar satisfies the printers' syntactic side condition -/
theorem typed_sqlSafe (d : Dialect) (b : BoolE) : sqlSafe d b.toExpr = true :=
  bool_safe d b

/-- … and the literal-shape side condition of the lexing theorem -/
theorem typed_litOk (d : Dialect) (b : BoolE) (h : wfB b = true) : litOk isD d b.toExpr = true :=
  litOkB isD d b h

/-- the SQLite dialect translates every filter of the typed grammar -/
theorem translates (al : Option Str) (b : BoolE) : ∃ ps, sqlVisit isD .sqlite al b.toExpr = .ok ps :=
  visB isD al b


/-! ### soundness: the invariants of the three sorts -/
section Sound
variable (ρ : Row)

theorem ofVal_int (c : Str) (h : (match ρ.get c with
                                   | .str _ => false
                                   | _ => true) = true) : SqlVal.ofVal (ρ.get c) = valI (ρ.int c) := by
  unfold Row.int
  cases hg : ρ.get c <;> simp [hg, SqlVal.ofVal] at h ⊢

theorem ofVal_str (c : Str) (h : (match ρ.get c with
                                   | .int _ => false
                                   | .str s => noNul s
                                   | .null => true) = true) : SqlVal.ofVal (ρ.get c) = valS (ρ.str c) := by
  unfold Row.str
  cases hg : ρ.get c <;> simp [hg, SqlVal.ofVal] at h ⊢

theorem nonnegO_of (x : Option Int) (h : (match x with
                                           | some k => decide (0 ≤ k)
                                           | none => true) = true) : nonnegO x = true := by
  cases x <;> simp [nonnegO] at h ⊢ <;> exact h

mutual
theorem soundI : (e : IntE) → wfI e = true → semOkI ρ e = true →
    ∃ t, mir isD e.toExpr = some t ∧ sqlEval ρ t = some (valI (evalI ρ e))
  | .lit neg ds, hw, _ => by
      refine ⟨numOf (if neg then '-' :: ds else ds), ?_, ?_⟩
      · rw [IntE.toExpr, mirror_lit]; rfl
      · rw [evalI]; exact eval_intLit ρ neg ds (by simpa [wfI] using hw)
  | .col c, _, hs => by
      refine ⟨.col none c, ?_, ?_⟩
      · rw [IntE.toExpr, mirror_ident]
      · simp only [semOkI] at hs
        rw [eval_col, evalI, ofVal_int ρ c hs]
  | .neg e, hw, hs => by
      obtain ⟨t, hm, he⟩ := soundI e (by simpa [wfI] using hw) (by simpa [semOkI] using hs)
      refine ⟨.un (S "-") t, ?_, ?_⟩
      · rw [IntE.toExpr, mirror_neg, hm]; rfl
      · rw [evalI]; exact eval_neg ρ t _ he
  | .arith k l r, hw, hs => by
      simp only [wfI, Bool.and_eq_true] at hw
      simp only [semOkI, Bool.and_eq_true] at hs
      obtain ⟨tl, hml, hel⟩ := soundI l hw.1 hs.1
      obtain ⟨tr, hmr, her⟩ := soundI r hw.2 hs.2
      refine ⟨.bin (arithName k.toOp) tl tr, ?_, ?_⟩
      · rw [IntE.toExpr, mirror_binop, hml, hmr]; rfl
      · have : evalI ρ (.arith k l r) = lift2 (arith k) (evalI ρ l) (evalI ρ r) := by
          rw [evalI]; cases evalI ρ l <;> cases evalI ρ r <;> rfl
        rw [this]; exact eval_arith ρ k tl tr _ _ hel her
  | .length s, hw, hs => by
      obtain ⟨t, hm, he⟩ := soundS s (by simpa [wfI] using hw) (by simpa [semOkI] using hs)
      refine ⟨.call (S "LENGTH") (one t), ?_, ?_⟩
      · rw [IntE.toExpr, mirror_length, hm]; rfl
      · rw [evalI]; exact eval_length ρ t _ he
  | .indexof a b, hw, hs => by
      simp only [wfI, Bool.and_eq_true] at hw
      simp only [semOkI, Bool.and_eq_true] at hs
      obtain ⟨ta, hma, hea⟩ := soundS a hw.1 hs.1
      obtain ⟨tb, hmb, heb⟩ := soundS b hw.2 hs.2
      refine ⟨.bin (S "-") (.call (S "INSTR") (two ta tb)) (.num ['1']), ?_, ?_⟩
      · rw [IntE.toExpr, mirror_indexof _ _ _ (strOverload_of_strTy (strTy_toExpr a) (strTy_toExpr b)), hma, hmb]; rfl
      · have : evalI ρ (.indexof a b) = lift2 (fun x y => some (indexOf x y)) (evalS ρ a) (evalS ρ b) := by
          rw [evalI]; cases evalS ρ a <;> cases evalS ρ b <;> rfl
        rw [this]; exact eval_indexof ρ ta tb _ _ hea heb
theorem soundS : (s : StrE) → wfS s = true → semOkS ρ s = true →
    ∃ t, mir isD s.toExpr = some t ∧ sqlEval ρ t = some (valS (evalS ρ s))
  | .lit s, _, _ => by
      refine ⟨.str s, ?_, ?_⟩
      · rw [StrE.toExpr, mirror_lit]; rfl
      · rw [eval_str, evalS]; rfl
  | .col c, _, hs => by
      refine ⟨.col none c, ?_, ?_⟩
      · rw [StrE.toExpr, mirror_ident]
      · simp only [semOkS] at hs
        rw [eval_col, evalS, ofVal_str ρ c hs]
  | .concat a b, hw, hs => by
      simp only [wfS, Bool.and_eq_true] at hw
      simp only [semOkS, Bool.and_eq_true] at hs
      obtain ⟨ta, hma, hea⟩ := soundS a hw.1 hs.1
      obtain ⟨tb, hmb, heb⟩ := soundS b hw.2 hs.2
      refine ⟨.bin (S "||") ta tb, ?_, ?_⟩
      · rw [StrE.toExpr, mirror_concat, hma, hmb]; rfl
      · have : evalS ρ (.concat a b) = lift2 (fun x y => some (x ++ y)) (evalS ρ a) (evalS ρ b) := by
          rw [evalS]; cases evalS ρ a <;> cases evalS ρ b <;> rfl
        rw [this]; exact eval_concat ρ ta tb _ _ hea heb
  | .substring s i, hw, hs => by
      simp only [wfS, Bool.and_eq_true] at hw
      simp only [semOkS, Bool.and_eq_true] at hs
      obtain ⟨ts, hms, hes⟩ := soundS s hw.1 hs.1.1
      obtain ⟨ti, hmi, hei⟩ := soundI i hw.2 hs.1.2
      refine ⟨.call (S "SUBSTR") (two ts (.bin (S "+") ti (.num ['1']))), ?_, ?_⟩
      · rw [StrE.toExpr, mirror_substring2 _ _ _ (isStrTy_or_none_of_strTy (strTy_toExpr s)), hms, hmi]; rfl
      · have : evalS ρ (.substring s i) = lift2 (fun x k => some (x.drop k.toNat)) (evalS ρ s) (evalI ρ i) := by
          rw [evalS]; cases evalS ρ s <;> cases evalI ρ i <;> rfl
        rw [this]; exact eval_substring2 ρ ts ti _ _ hes hei (nonnegO_of _ hs.2)
  | .substring3 s i n, hw, hs => by
      simp only [wfS, Bool.and_eq_true] at hw
      simp only [semOkS, Bool.and_eq_true] at hs
      obtain ⟨ts, hms, hes⟩ := soundS s hw.1.1 hs.1.1.1.1
      obtain ⟨ti, hmi, hei⟩ := soundI i hw.1.2 hs.1.1.1.2
      obtain ⟨tn, hmn, hen⟩ := soundI n hw.2 hs.1.1.2
      refine ⟨.call (S "SUBSTR") (three ts (.bin (S "+") ti (.num ['1'])) tn), ?_, ?_⟩
      · rw [StrE.toExpr, mirror_substring3 _ _ _ _ (isStrTy_or_none_of_strTy (strTy_toExpr s)), hms, hmi, hmn]; rfl
      · have : evalS ρ (.substring3 s i n) =
            lift3 (fun x k m => some ((x.drop k.toNat).take m.toNat)) (evalS ρ s) (evalI ρ i) (evalI ρ n) := by
          rw [evalS]; cases evalS ρ s <;> cases evalI ρ i <;> cases evalI ρ n <;> rfl
        rw [this]; exact eval_substring3 ρ ts ti tn _ _ _ hes hei hen (nonnegO_of _ hs.1.2) (nonnegO_of _ hs.2)
  | .tolower s, hw, hs => by
      obtain ⟨t, hm, he⟩ := soundS s (by simpa [wfS] using hw) (by simpa [semOkS] using hs)
      refine ⟨.call (S "LOWER") (one t), ?_, ?_⟩
      · rw [StrE.toExpr, mirror_tolower, hm]; rfl
      · rw [evalS]; exact eval_lower ρ t _ he
  | .toupper s, hw, hs => by
      obtain ⟨t, hm, he⟩ := soundS s (by simpa [wfS] using hw) (by simpa [semOkS] using hs)
      refine ⟨.call (S "UPPER") (one t), ?_, ?_⟩
      · rw [StrE.toExpr, mirror_toupper, hm]; rfl
      · rw [evalS]; exact eval_upper ρ t _ he
  | .trim s, hw, hs => by
      obtain ⟨t, hm, he⟩ := soundS s (by simpa [wfS] using hw) (by simpa [semOkS] using hs)
      refine ⟨.call (S "TRIM") (one t), ?_, ?_⟩
      · rw [StrE.toExpr, mirror_trim, hm]; rfl
      · rw [evalS]; exact eval_trim ρ t _ he
end

theorem isNullLit_I (e : IntE) : isNullLit e.toExpr = false := by
  cases e <;> simp [IntE.toExpr, idE, isNullLit]
theorem isNullLit_S (e : StrE) : isNullLit e.toExpr = false := by
  cases e <;> simp [StrE.toExpr, idE, isNullLit]
theorem isNullLit_B (e : BoolE) : isNullLit e.toExpr = false := by
  cases e <;> simp [BoolE.toExpr, idE, isNullLit]
theorem toOp_ne_in (k : CmpK) : k.toOp ≠ .in_ := by cases k <;> simp [CmpK.toOp]
theorem isStrLitE_of_not_lit (s : StrE) (h : isLitS s = false) : isStrLitE s.toExpr = false := by
  cases s <;> simp [StrE.toExpr, idE, isStrLitE, isLitS] at h ⊢

theorem soundIs : (xs : List IntE) → wfIs xs = true → semOkIs ρ xs = true →
    ∃ ts, mirrorList isD .sqlite none (intsToExprs xs) = some ts ∧
      sqlEvalList ρ ts = some ((evalIs ρ xs).map valI)
  | [], _, _ => ⟨.nil, rfl, by rw [sqlEvalList]; rfl⟩
  | e :: t, hw, hs => by
      simp only [wfIs, Bool.and_eq_true] at hw
      simp only [semOkIs, Bool.and_eq_true] at hs
      obtain ⟨te, hme, hee⟩ := soundI isD ρ e hw.1 hs.1
      obtain ⟨tt, hmt, het⟩ := soundIs t hw.2 hs.2
      refine ⟨.cons te tt, ?_, ?_⟩
      · rw [intsToExprs, mirrorList_cons, hme, hmt]; rfl
      · rw [sqlEvalList, hee, het]; rfl
theorem soundSs : (xs : List StrE) → wfSs xs = true → semOkSs ρ xs = true →
    ∃ ts, mirrorList isD .sqlite none (strsToExprs xs) = some ts ∧
      sqlEvalList ρ ts = some ((evalSs ρ xs).map valS)
  | [], _, _ => ⟨.nil, rfl, by rw [sqlEvalList]; rfl⟩
  | e :: t, hw, hs => by
      simp only [wfSs, Bool.and_eq_true] at hw
      simp only [semOkSs, Bool.and_eq_true] at hs
      obtain ⟨te, hme, hee⟩ := soundS isD ρ e hw.1 hs.1
      obtain ⟨tt, hmt, het⟩ := soundSs t hw.2 hs.2
      refine ⟨.cons te tt, ?_, ?_⟩
      · rw [strsToExprs, mirrorList_cons, hme, hmt]; rfl
      · rw [sqlEvalList, hee, het]; rfl

theorem ofVal_bool (c : Str) (h : semOkB ρ (.col c) = true) :
    SqlVal.ofVal (ρ.get c) = v3ToVal (evalB ρ (.col c)) := by
  simp only [semOkB] at h
  rw [evalB]
  unfold Row.int
  cases hg : ρ.get c with
  | null => rfl
  | str s => simp [hg] at h
  | int z =>
    simp only [hg, Bool.or_eq_true, beq_iff_eq] at h
    rcases h with h | h <;> subst h <;> rfl

theorem soundB : (b : BoolE) → wfB b = true → semOkB ρ b = true →
    ∃ t, mir isD b.toExpr = some t ∧ sqlEval ρ t = some (v3ToVal (evalB ρ b))
  | .cmpI k l r, hw, hs => by
      simp only [wfB, Bool.and_eq_true] at hw
      simp only [semOkB, Bool.and_eq_true] at hs
      obtain ⟨tl, hml, hel⟩ := soundI isD ρ l hw.1 hs.1
      obtain ⟨tr, hmr, her⟩ := soundI isD ρ r hw.2 hs.2
      refine ⟨.bin (cmpName k.toOp) tl tr, ?_, ?_⟩
      · rw [BoolE.toExpr, mirror_compare _ _ _ _ (toOp_ne_in k) (isNullLit_I l) (isNullLit_I r), hml, hmr]; rfl
      · have : evalB ρ (.cmpI k l r) = cmp2 (cmpInt k) (evalI ρ l) (evalI ρ r) := by
          rw [evalB]; cases evalI ρ l <;> cases evalI ρ r <;> rfl
        rw [this, eval_cmp ρ k tl tr _ _ hel her, cmpVals_int]
  | .cmpS k l r, hw, hs => by
      simp only [wfB, Bool.and_eq_true] at hw
      simp only [semOkB, Bool.and_eq_true] at hs
      obtain ⟨tl, hml, hel⟩ := soundS isD ρ l hw.1 hs.1
      obtain ⟨tr, hmr, her⟩ := soundS isD ρ r hw.2 hs.2
      refine ⟨.bin (cmpName k.toOp) tl tr, ?_, ?_⟩
      · rw [BoolE.toExpr, mirror_compare _ _ _ _ (toOp_ne_in k) (isNullLit_S l) (isNullLit_S r), hml, hmr]; rfl
      · have : evalB ρ (.cmpS k l r) = cmp2 (cmpStr k) (evalS ρ l) (evalS ρ r) := by
          rw [evalB]; cases evalS ρ l <;> cases evalS ρ r <;> rfl
        rw [this, eval_cmp ρ k tl tr _ _ hel her, cmpVals_str]
  | .cmpB k l r, hw, hs => by
      simp only [wfB, Bool.and_eq_true] at hw
      simp only [semOkB, Bool.and_eq_true] at hs
      obtain ⟨tl, hml, hel⟩ := soundB l hw.1.2 hs.1.2
      obtain ⟨tr, hmr, her⟩ := soundB r hw.2 hs.2
      refine ⟨.bin (cmpName k.toOp) tl tr, ?_, ?_⟩
      · rw [BoolE.toExpr, mirror_compare _ _ _ _ (toOp_ne_in k) (isNullLit_B l) (isNullLit_B r), hml, hmr]; rfl
      · have : evalB ρ (.cmpB k l r) = cmpB3 k (evalB ρ l) (evalB ρ r) := by
          rw [evalB]; cases evalB ρ l <;> cases evalB ρ r <;> rfl
        rw [this, eval_cmp ρ k tl tr _ _ hel her, cmpVals_bool k (by simpa using hw.1.1)]
  | .isNull _ c negated, _, _ => by
      cases negated
      · refine ⟨.bin (S "IS") (.col none c) (.kw (S "NULL")), ?_, ?_⟩
        · rw [BoolE.toExpr]; exact mirror_isNull isD c
        · rw [eval_isNull, evalB]; simp
      · refine ⟨.bin (S "ISNOT") (.col none c) (.kw (S "NULL")), ?_, ?_⟩
        · rw [BoolE.toExpr]; exact mirror_isNotNull isD c
        · rw [eval_isNotNull, evalB]; simp
  | .inI e xs, hw, hs => by
      simp only [wfB, Bool.and_eq_true] at hw
      simp only [semOkB, Bool.and_eq_true] at hs
      obtain ⟨te, hme, hee⟩ := soundI isD ρ e hw.1.1 hs.1.1
      obtain ⟨ts, hms, hes⟩ := soundIs isD ρ xs hw.1.2 hs.1.2
      refine ⟨.inl te ts, ?_, ?_⟩
      · rw [BoolE.toExpr, mirror_in, hme, hms]; rfl
      · rw [evalB]; exact eval_inI ρ te ts _ _ hee hes
  | .inS e xs, hw, hs => by
      simp only [wfB, Bool.and_eq_true] at hw
      simp only [semOkB, Bool.and_eq_true] at hs
      obtain ⟨te, hme, hee⟩ := soundS isD ρ e hw.1.1 hs.1.1
      obtain ⟨ts, hms, hes⟩ := soundSs isD ρ xs hw.1.2 hs.1.2
      refine ⟨.inl te ts, ?_, ?_⟩
      · rw [BoolE.toExpr, mirror_in, hme, hms]; rfl
      · rw [evalB]; exact eval_inS ρ te ts _ _ hee hes
  | .and l r, hw, hs => by
      simp only [wfB, Bool.and_eq_true] at hw
      simp only [semOkB, Bool.and_eq_true] at hs
      obtain ⟨tl, hml, hel⟩ := soundB l hw.1 hs.1
      obtain ⟨tr, hmr, her⟩ := soundB r hw.2 hs.2
      refine ⟨.bin (S "AND") tl tr, ?_, ?_⟩
      · rw [BoolE.toExpr, mirror_and, hml, hmr]; rfl
      · rw [evalB]; exact eval_and ρ tl tr _ _ hel her
  | .or l r, hw, hs => by
      simp only [wfB, Bool.and_eq_true] at hw
      simp only [semOkB, Bool.and_eq_true] at hs
      obtain ⟨tl, hml, hel⟩ := soundB l hw.1 hs.1
      obtain ⟨tr, hmr, her⟩ := soundB r hw.2 hs.2
      refine ⟨.bin (S "OR") tl tr, ?_, ?_⟩
      · rw [BoolE.toExpr, mirror_or, hml, hmr]; rfl
      · rw [evalB]; exact eval_or ρ tl tr _ _ hel her
  | .not e, hw, hs => by
      obtain ⟨t, hm, he⟩ := soundB e (by simpa [wfB] using hw) (by simpa [semOkB] using hs)
      refine ⟨.un (S "NOT") t, ?_, ?_⟩
      · rw [BoolE.toExpr, mirror_not, hm]; rfl
      · rw [evalB]; exact eval_not ρ t _ he
  | .like k a b, hw, hs => by
      simp only [wfB, Bool.and_eq_true] at hw
      simp only [semOkB, Bool.and_eq_true] at hs
      obtain ⟨ta, hma, hea⟩ := soundS isD ρ a hw.1 hs.1.1
      obtain ⟨tb, hmb, heb⟩ := soundS isD ρ b hw.2 hs.1.2
      have hcond : ∀ h n, evalS ρ a = some h → evalS ρ b = some n →
          likeCI k h n = likeSem k h n ∧ (isLitS b = true ∨ hasLikeMeta n = false) := by
        intro h n ha hb
        have := hs.2
        rw [ha, hb] at this
        simpa using this
      have hev : evalB ρ (.like k a b) = cmp2 (likeSem k) (evalS ρ a) (evalS ρ b) := by
        rw [evalB]; cases evalS ρ a <;> cases evalS ρ b <;> rfl
      have hci : cmp2 (likeCI k) (evalS ρ a) (evalS ρ b) = cmp2 (likeSem k) (evalS ρ a) (evalS ρ b) := by
        cases ha : evalS ρ a with
        | none => rfl
        | some h =>
          cases hb : evalS ρ b with
          | none => rfl
          | some n => simp only [cmp2, (hcond h n ha hb).1]
      refine ⟨.like ta (patternOf b.toExpr tb (preOf k) (sufOf k)).1 (patternOf b.toExpr tb (preOf k) (sufOf k)).2, ?_, ?_⟩
      · rw [BoolE.toExpr, mirror_like _ _ _ _ (strOverload_of_strTy (strTy_toExpr a) (strTy_toExpr b)), hma, hmb]; rfl
      · rw [hev, ← hci]
        cases hl : isLitS b with
        | true =>
          cases b with
          | lit n =>
            have hn : evalS ρ (.lit n) = some n := by rw [evalS]
            rw [hn, StrE.toExpr]
            exact eval_like_lit ρ k ta tb _ n hea
          | _ => simp [isLitS] at hl
        | false =>
          refine eval_like_computed ρ k _ ta tb _ _ (isStrLitE_of_not_lit b hl) hea heb ?_
          intro h n ha hb
          rcases (hcond h n ha hb).2 with h1 | h1
          · rw [hl] at h1; cases h1
          · exact h1
  | .col c, _, hs => by
      refine ⟨.col none c, ?_, ?_⟩
      · rw [BoolE.toExpr, mirror_ident]
      · rw [eval_col, ofVal_bool ρ c hs]
  | .lit b, _, _ => by
      refine ⟨.num (if b then ['1'] else ['0']), ?_, ?_⟩
      · rw [BoolE.toExpr]; exact mirror_boolLit isD b
      · rw [evalB]; exact eval_boolLit ρ b
end Sound

/-- MAIN THEOREM (C01, semantics): the expected SQL tree, evaluated by the SQLite model, selects the row iff the
    filter is true under OData's three-valued semantics -/
theorem sound (b : BoolE) (ρ : Row) (hw : wfB b = true) (h : semOkB ρ b = true) :
    ∃ t, mirror isD .sqlite none b.toExpr = some t ∧ sqliteSelects ρ t = some (selects ρ b) := by
  obtain ⟨t, hm, he⟩ := soundB isD ρ b hw h
  refine ⟨t, hm, ?_⟩
  unfold sqliteSelects selects
  rw [he]
  simp

end OQ.C01
