/-
  Props/C04.lean — "navigation paths and any/all lambdas mean what OData says on the ORM backends": the plans the two ORM
  visitors build (Model/OrmRel.lean), evaluated the way Django / SQLAlchemy evaluate them (Spec/OrmRelSem.lean), select
  exactly the parents the relational reference semantics (Spec/RelSem.lean) selects.

  * `reverse_reaches`   Django's `reverse_relationship`: from a child row, following the reversed remote names reaches the
                        outer row IFF the child is one of the rows the forward path leads to from that outer row —
                        "each parent is matched on its own related rows only"
  * `dj_sound_partial`  for every relational filter (to-one paths, any() / any(x: p) / all(x: p), nested, and / or / not) and every
                        database, the Django plan evaluates to the specification's value on every parent row
  * `sa_sound_partial`  the same for the SQLAlchemy plan, including: every path a leaf navigates is joined (no cross join)
  * `dj_sound_typed`, `sa_sound_typed`   the same with the static condition `relTyped sch root f` in place of `hdef`
  * `orms_agree`        both ORMs agree (original statement; proved directly, independent of the specification)
  * `dj_sound_original_false_toOne`, `dj_sound_original_false_ns`, `sa_sound_original_false_toOne`
                        the statements WITHOUT the two extra hypotheses are false
  * `dj_sound_false_without_keysOk`, `sa_sound_false_without_keysOk`
                        the soundness statements WITHOUT `keysOk` are false once a foreign key may reference a natural key
  Hypotheses: the schema is closed under inverses (`schemaOk`), primary keys are present and unique (`dbOk`), lambda bodies are
  two-valued on the related rows (`lambdaClean`: the property quantifies over bodies over non-null child columns); the filter
  has a value on the row (`hdef`, i.e. it is a filter over the schema; static form `relTyped`), lambda variables have no
  namespace (`lamVarsPlain`, Lemmas/RelStrip.lean).

  NATURAL KEYS (`RelKind.toOne fk key`: src.fk = dst.key, `key` not necessarily "id"): one more hypothesis, `keysOk sch db` — the
  key every to-one relation references is unique among the rows of its target table (NULL keys are exempt: such a row is related
  to nothing).  Who needs what:
    * `reverse_reaches`, `orms_agree`           `dbOk` only.  Django's back path ends in the comparison `<reached row>.pk = OuterRef("pk")`,
                                                so what identifies the outer row is its PRIMARY key; a relation and its inverse relate the
                                                same pairs of rows whatever the key is (`related_symm` needs no uniqueness at all).
    * `dj_sound_*`                              `dbOk` and `keysOk`: the specification's to-one step takes THE related row (`navTo`: the first
                                                one), the ORMs join ALL rows with that key; they coincide iff the key is unique.
    * `sa_sound_*`                              `keysOk` only (`dbOk` was used for nothing but the uniqueness of the referenced key "id").
  Under `schemaOk` the key of a `.toMany _ key` relation (a column of the SOURCE table) is unique as well, being the key its inverse
  references: `keysOk_toMany`.  When every to-one relation references "id", `dbOk` implies `keysOk`: `keysOk_of_dbOk`.
-/
import ODataVerif.Model.OrmRel
import ODataVerif.Spec.OrmRelSem
import ODataVerif.Lemmas.RelSound
import ODataVerif.Lemmas.RelSoundMain
namespace OQ.C04
open Spec RelSound
open RelStrip (lamVarsPlain lamVarsPlainList lamVarsPlainLam)

/-- every row has an id, and ids are unique within a table -/
def tableOk (rows : List Row) : Bool :=
  rows.all (fun r => (idOf r).isSome) &&
  rows.all (fun r => (rows.filter (fun r' => idOf r' == idOf r)).length == 1)
def dbOk (db : DB) : Bool := db.all (fun t => tableOk t.2) && db.all (fun t => (db.filter (fun t' => t'.1 == t.1)).length == 1)

/-! the Bool-valued hypotheses in the propositional form the lemmas of Lemmas/RelSound.lean use -/
theorem tableOk_table (db : DB) (hd : dbOk db = true) (t : Str) : tableOk (db.table t) = true := by
  unfold DB.table
  cases h : db.find? (fun p => p.1 == t) with
  | none => simp [tableOk]
  | some p =>
    have hm := List.mem_of_find?_eq_some h
    simp only [dbOk, Bool.and_eq_true, List.all_eq_true] at hd
    exact hd.1 p hm

theorem idsOk_of_dbOk (db : DB) (hd : dbOk db = true) : IdsOk db := by
  constructor
  · intro t r hr
    have := tableOk_table db hd t
    simp only [tableOk, Bool.and_eq_true, List.all_eq_true] at this
    have := this.1 r hr
    exact Option.isSome_iff_exists.mp this
  · intro t k
    have h := tableOk_table db hd t
    simp only [tableOk, Bool.and_eq_true, List.all_eq_true] at h
    cases hf : (db.table t).filter (fun x => idOf x == some k) with
    | nil => simp
    | cons x rest =>
      have hx : x ∈ (db.table t).filter (fun x => idOf x == some k) := by rw [hf]; simp
      rw [List.mem_filter] at hx
      have h2 := h.2 x hx.1
      have hk : idOf x = some k := by simpa using hx.2
      rw [hk] at h2
      rw [hf] at h2
      simpa using h2

/-- the non-NULL values of the column `key` are pairwise different -/
def colUnique (rows : List Row) (key : Str) : Bool :=
  rows.all (fun r => (r.int key).isNone || (rows.filter (fun r' => r'.int key == r.int key)).length == 1)

/-- referenced keys are unique: for every to-one relation `src.fk = dst.key` of the schema the rows of `dst` have pairwise
    different non-NULL values of `key` (a row whose key is NULL is related to nothing, so any number of them is harmless) -/
def keysOk (sch : Schema) (db : DB) : Bool :=
  sch.all (fun rel =>
    match rel.kind with
    | .toOne _ key => colUnique (db.table rel.dst) key
    | _ => true)

theorem colUnique_le (rows : List Row) (key : Str) (h : colUnique rows key = true) (k : Int) :
    (rows.filter (fun x => x.int key == some k)).length ≤ 1 := by
  simp only [colUnique, List.all_eq_true, Bool.or_eq_true] at h
  cases hf : rows.filter (fun x => x.int key == some k) with
  | nil => simp
  | cons x rest =>
    have hx : x ∈ rows.filter (fun x => x.int key == some k) := by rw [hf]; simp
    rw [List.mem_filter] at hx
    have hk : x.int key = some k := by simpa using hx.2
    have h2 := h x hx.1
    rw [hk] at h2
    simp only [Option.isNone_some, Bool.false_eq_true, false_or] at h2
    rw [hf] at h2
    simpa using h2

theorem keysOk_prop (sch : Schema) (db : DB) (hk : keysOk sch db = true) : KeysOk sch db := by
  intro rel fk key hm hkind k
  simp only [keysOk, List.all_eq_true] at hk
  have h := hk rel hm
  rw [hkind] at h
  exact colUnique_le _ _ h k

theorem schOk_of_schemaOk (sch : Schema) (hs : schemaOk sch = true) : SchOk sch := by
  intro r hr
  simp only [schemaOk, Bool.and_eq_true, List.all_eq_true] at hs
  have h := hs.2 r hr
  unfold Schema.rel
  cases hf : sch.filter (fun r' => r'.src == r.src && r'.name == r.name) with
  | nil => rw [hf] at h; simp at h
  | cons x rest =>
    rw [hf] at h
    have hrest : rest = [] := by simpa using h
    subst hrest
    have hr' : r ∈ sch.filter (fun r' => r'.src == r.src && r'.name == r.name) := by
      rw [List.mem_filter]; simp [hr]
    rw [hf] at hr'
    have : r = x := by simpa using hr'
    subst this
    rw [← List.head?_filter, hf]; rfl

/-- under `schemaOk` the key of a to-many relation (a column of its SOURCE table) is unique too: it is the key the inverse
    to-one relation references -/
theorem keysOk_toMany (sch : Schema) (db : DB) (hs : schemaOk sch = true) (hk : keysOk sch db = true)
    (rel : RelDef) (hm : rel ∈ sch) (cfk key : Str) (hkind : rel.kind = .toMany cfk key) :
    colUnique (db.table rel.src) key = true := by
  simp only [schemaOk, Bool.and_eq_true, List.all_eq_true] at hs
  obtain ⟨inv, hi⟩ := Option.isSome_iff_exists.mp (hs.1 rel hm)
  obtain ⟨him, _, hdst, hkk⟩ := inverseOf_some hi
  simp only [keysOk, List.all_eq_true] at hk
  have h := hk inv him
  rw [hkind] at hkk
  cases hik : inv.kind with
  | toOne fk key' =>
    rw [hik] at hkk h
    simp only at hkk h
    rw [← hdst, ← hkk.2]; exact h
  | toMany _ _ => rw [hik] at hkk; exact hkk.elim
  | m2m _ _ _ => rw [hik] at hkk; exact hkk.elim

/-- every to-one relation references the primary key -/
def idKeyed (sch : Schema) : Bool :=
  sch.all (fun rel =>
    match rel.kind with
    | .toOne _ key => key == "id".toList
    | _ => true)

/-- the situation before natural keys: when every foreign key references "id", `dbOk` is all that is needed -/
theorem keysOk_of_dbOk (sch : Schema) (db : DB) (hi : idKeyed sch = true) (hd : dbOk db = true) : keysOk sch db = true := by
  simp only [keysOk, List.all_eq_true]
  simp only [idKeyed, List.all_eq_true] at hi
  intro rel hm
  have h := hi rel hm
  cases hk : rel.kind with
  | toOne fk key =>
    rw [hk] at h
    simp only [beq_iff_eq] at h
    subst h
    have ht := tableOk_table db hd rel.dst
    simp only [tableOk, Bool.and_eq_true, List.all_eq_true] at ht
    simp only [colUnique, List.all_eq_true, Bool.or_eq_true]
    intro r hr
    exact Or.inr (ht.2 r hr)
  | toMany _ _ => rfl
  | m2m _ _ _ => rfl

/-- Django's back path is the inverse of the forward path.  No `keysOk`: the outer row is identified by its primary key
    (`dbOk`), and a relation and its inverse relate the same pairs of rows whatever key the foreign key references. -/
theorem reverse_reaches (sch : Schema) (db : DB) (hs : schemaOk sch = true) (hd : dbOk db = true)
    (root : Str) (segs back : List Str) (child : Str) (h : reverseRelationship sch root segs = some (back, child))
    (r c : Row) (pk : Int) (hr : r ∈ db.table root) (hc : c ∈ db.table child) (hpk : idOf r = some pk) :
    reachesBack sch db child c back pk = (rowsVia sch db root r segs).contains c :=
  reverse_reaches' sch db (schOk_of_schemaOk sch hs) (idsOk_of_dbOk db hd) root segs back child h r c pk hr hc hpk

/-! ### the two main theorems

  The statements first written here (`DjSoundOriginal`, `SaSoundOriginal` below: no `hns`, no `hdef`) are FALSE — see
  `dj_sound_original_false_toOne`, `dj_sound_original_false_ns`, `sa_sound_original_false_toOne`.  Two hypotheses are added:

  * `hdef : (evalR sch db root r f).isSome`   the filter IS a filter over the schema on this row (every lambda owner is a
        to-one path followed by a to-many / many-to-many relation).  Without it `evalR = none` while both visitors happily build
        a plan for e.g. `o/any()` (a to-one relation used as a collection) or `kids/p/kids/any()` (Django follows a multi-valued
        prefix).  `relTyped sch root f` (Lemmas/RelSound.lean) is a STATIC sufficient condition: `dj_sound_typed`, `sa_sound_typed`.
  * `hns : lamVarsPlain e`   every lambda variable has an empty namespace (the parser only builds such).  The specification's
        reading (`elabR`) looks at the variable's NAME only, whereas `IdentifierStripper` compares the whole `Identifier`
        (name and namespace) with the root of a path: for `kids/any(N.x: x/n eq 1)` the body is not stripped. -/

/-- MAIN THEOREM (C04, Django) -/
theorem dj_sound_partial (sch : Schema) (kindOf : Str → Option ColK) (db : DB) (hs : schemaOk sch = true) (hd : dbOk db = true)
    (hk : keysOk sch db = true) (fuel : Nat) (root : Str) (e : Expr) (f : RCond) (p : Plan)
    (he : elabR kindOf none e = some f) (hp : djPlan sch kindOf fuel root e = .ok p)
    (r : Row) (hr : r ∈ db.table root) (hc : lambdaClean sch db root r f = true)
    (hns : lamVarsPlain e = true) (hdef : (evalR sch db root r f).isSome = true) :
    evalR sch db root r f = some (evalDjPlan sch db root r p) :=
  dj_core sch kindOf db (schOk_of_schemaOk sch hs) (idsOk_of_dbOk db hd) (keysOk_prop sch db hk) fuel root e f p hns he hp r hr hc hdef

/-- MAIN THEOREM (C04, SQLAlchemy): in particular the result is never `none` — every navigated path is joined.
    (`_hs`, `_hd` are not used: `rel.any` is evaluated on the parent's own related rows, no primary key is compared) -/
theorem sa_sound_partial (sch : Schema) (kindOf : Str → Option ColK) (db : DB) (_hs : schemaOk sch = true) (_hd : dbOk db = true)
    (hk : keysOk sch db = true) (fuel : Nat) (root : Str) (e : Expr) (f : RCond) (p : SaPlan)
    (he : elabR kindOf none e = some f) (hp : saPlan sch kindOf fuel root e = .ok p)
    (r : Row) (_hr : r ∈ db.table root) (hc : lambdaClean sch db root r f = true)
    (hns : lamVarsPlain e = true) (hdef : (evalR sch db root r f).isSome = true) :
    evalSaPlan sch db p.joins root r p.clause = evalR sch db root r f := by
  unfold saPlan at hp
  cases hq : saPlanAux sch kindOf fuel root e with
  | error err => simp [hq, Except.map] at hp
  | ok jp =>
    obtain ⟨j, q⟩ := jp
    simp only [hq, Except.map, Except.ok.injEq] at hp
    subst hp
    exact sa_core sch kindOf db (keysOk_prop sch db hk) fuel root e f j q hns he hq r hc hdef j (fun _ hx => hx)

/-- both ORMs agree on every filter both translate (the ORIGINAL statement: it needs neither `hns` nor `hdef` — nor `he`, `hc`:
    the two plans are compared directly, `agree_core`) -/
theorem orms_agree (sch : Schema) (kindOf : Str → Option ColK) (db : DB) (hs : schemaOk sch = true) (hd : dbOk db = true)
    (fuel : Nat) (root : Str) (e : Expr) (f : RCond) (p : Plan) (q : SaPlan)
    (_he : elabR kindOf none e = some f) (hp : djPlan sch kindOf fuel root e = .ok p) (hq : saPlan sch kindOf fuel root e = .ok q)
    (r : Row) (hr : r ∈ db.table root) (_hc : lambdaClean sch db root r f = true) :
    evalSaPlan sch db q.joins root r q.clause = some (evalDjPlan sch db root r p) := by
  unfold saPlan at hq
  cases hq' : saPlanAux sch kindOf fuel root e with
  | error err => simp [hq', Except.map] at hq
  | ok jp =>
    obtain ⟨j, q'⟩ := jp
    simp only [hq', Except.map, Except.ok.injEq] at hq
    subst hq
    exact agree_core sch kindOf db (schOk_of_schemaOk sch hs) (idsOk_of_dbOk db hd) fuel root e p j q' hp hq' r hr j
      (fun _ hx => hx)

/-! the same with the STATIC well-formedness condition `relTyped` in place of `hdef` -/
theorem dj_sound_typed (sch : Schema) (kindOf : Str → Option ColK) (db : DB) (hs : schemaOk sch = true) (hd : dbOk db = true)
    (hk : keysOk sch db = true) (fuel : Nat) (root : Str) (e : Expr) (f : RCond) (p : Plan)
    (he : elabR kindOf none e = some f) (hp : djPlan sch kindOf fuel root e = .ok p)
    (r : Row) (hr : r ∈ db.table root) (hc : lambdaClean sch db root r f = true)
    (hns : lamVarsPlain e = true) (ht : relTyped sch root f = true) :
    evalR sch db root r f = some (evalDjPlan sch db root r p) :=
  dj_sound_partial sch kindOf db hs hd hk fuel root e f p he hp r hr hc hns (relTyped_isSome sch db f root r ht)

theorem sa_sound_typed (sch : Schema) (kindOf : Str → Option ColK) (db : DB) (hs : schemaOk sch = true) (hd : dbOk db = true)
    (hk : keysOk sch db = true) (fuel : Nat) (root : Str) (e : Expr) (f : RCond) (p : SaPlan)
    (he : elabR kindOf none e = some f) (hp : saPlan sch kindOf fuel root e = .ok p)
    (r : Row) (hr : r ∈ db.table root) (hc : lambdaClean sch db root r f = true)
    (hns : lamVarsPlain e = true) (ht : relTyped sch root f = true) :
    evalSaPlan sch db p.joins root r p.clause = evalR sch db root r f :=
  sa_sound_partial sch kindOf db hs hd hk fuel root e f p he hp r hr hc hns (relTyped_isSome sch db f root r ht)

/-! ### the original statements and their counterexamples -/

/-- the ORIGINAL statement of `dj_sound` (no `hns`, no `hdef`) -/
def DjSoundOriginal : Prop :=
  ∀ (sch : Schema) (kindOf : Str → Option ColK) (db : DB) (_ : schemaOk sch = true) (_ : dbOk db = true)
    (fuel : Nat) (root : Str) (e : Expr) (f : RCond) (p : Plan)
    (_ : elabR kindOf none e = some f) (_ : djPlan sch kindOf fuel root e = .ok p)
    (r : Row) (_ : r ∈ db.table root) (_ : lambdaClean sch db root r f = true),
    evalR sch db root r f = some (evalDjPlan sch db root r p)
/-- the ORIGINAL statement of `sa_sound` (no `hns`, no `hdef`) -/
def SaSoundOriginal : Prop :=
  ∀ (sch : Schema) (kindOf : Str → Option ColK) (db : DB) (_ : schemaOk sch = true) (_ : dbOk db = true)
    (fuel : Nat) (root : Str) (e : Expr) (f : RCond) (p : SaPlan)
    (_ : elabR kindOf none e = some f) (_ : saPlan sch kindOf fuel root e = .ok p)
    (r : Row) (_ : r ∈ db.table root) (_ : lambdaClean sch db root r f = true),
    evalSaPlan sch db p.joins root r p.clause = evalR sch db root r f

/-- counterexample 1: `o/any()` on table `p` — `o` is a TO-ONE relation: not a filter over the schema (`evalR = none`), but both
    visitors build a plan and the ORMs evaluate it (to `tt` here) -/
def cx1E : Expr := .coll (.ident ⟨T "o", []⟩) .any .none
def cx1Db : DB := [(T "p", [[(T "id", .int 1), (T "o_id", .int 1)]]), (T "o", [[(T "id", .int 1)]])]
def cx1R : Row := [(T "id", .int 1), (T "o_id", .int 1)]
/-- counterexample 2: `kids/any(N.x: x/n eq 1)` — a lambda variable WITH a namespace (the parser never builds one): the
    specification drops the leading `x`, `IdentifierStripper` does not (the identifiers differ), Django reads the column `x/n` -/
def cx2E : Expr :=
  .coll (.ident ⟨T "kids", []⟩) .any
    (.some ⟨T "x", [T "N"]⟩ (.compare .eq (.attr (.ident ⟨T "x", []⟩) (T "n")) (.lit .int (T "1"))))
def cx2Db : DB := [(T "p", [[(T "id", .int 1)]]), (T "k", [[(T "id", .int 1), (T "p_id", .int 1), (T "n", .int 1)]])]
def cx2R : Row := [(T "id", .int 1)]
def cx2F : RCond := .any [] (T "kids") (.scalar (.cmpI .eq (.col (T "n")) (.lit false (T "1"))))

theorem dj_sound_original_false_toOne : ¬ DjSoundOriginal := by
  intro H
  have := H vSchema vKind cx1Db (by decide +kernel) (by decide +kernel) 1 (T "p") cx1E
    (.nonEmpty [] (T "o")) (.exists_ (T "o") [T "ps"] none) rfl rfl cx1R (by decide +kernel) (by decide +kernel)
  have h2 : evalR vSchema cx1Db (T "p") cx1R (.nonEmpty [] (T "o")) = none := by decide +kernel
  rw [h2] at this
  cases this

theorem sa_sound_original_false_toOne : ¬ SaSoundOriginal := by
  intro H
  have := H vSchema vKind cx1Db (by decide +kernel) (by decide +kernel) 1 (T "p") cx1E
    (.nonEmpty [] (T "o")) ⟨[], .exists_ (T "o") [T "o"] none⟩ rfl rfl cx1R (by decide +kernel) (by decide +kernel)
  revert this
  decide +kernel

theorem dj_sound_original_false_ns : ¬ DjSoundOriginal := by
  intro H
  have := H vSchema vKind cx2Db (by decide +kernel) (by decide +kernel) 2 (T "p") cx2E cx2F
    (.exists_ (T "k") [T "p"] (some (.leaf (.cmpI .eq (.col (T "x/n")) (.lit false (T "1")))))) rfl rfl cx2R
    (by decide +kernel) (by decide +kernel)
  revert this
  decide +kernel

/-- non-vacuity: `kids/any(x: x/n eq 1)` satisfies every hypothesis of `dj_sound_partial` / `sa_sound_partial` -/
def okE : Expr :=
  .coll (.ident ⟨T "kids", []⟩) .any
    (.some ⟨T "x", []⟩ (.compare .eq (.attr (.ident ⟨T "x", []⟩) (T "n")) (.lit .int (T "1"))))
def okLeaf : BoolE := .cmpI .eq (.col (T "n")) (.lit false (T "1"))
example : evalR vSchema cx2Db (T "p") cx2R cx2F =
    some (evalDjPlan vSchema cx2Db (T "p") cx2R (.exists_ (T "k") [T "p"] (some (.leaf okLeaf)))) :=
  dj_sound_partial vSchema vKind cx2Db (by decide +kernel) (by decide +kernel) (by decide +kernel) 2 (T "p") okE cx2F _ rfl rfl cx2R
    (by decide +kernel) (by decide +kernel) (by decide +kernel) (by decide +kernel)
example : evalSaPlan vSchema cx2Db [] (T "p") cx2R (.exists_ (T "k") [T "kids"] (some (.leaf okLeaf))) =
    evalR vSchema cx2Db (T "p") cx2R cx2F :=
  sa_sound_partial vSchema vKind cx2Db (by decide +kernel) (by decide +kernel) (by decide +kernel) 2 (T "p") okE cx2F
    ⟨[], .exists_ (T "k") [T "kids"] (some (.leaf okLeaf))⟩ rfl rfl cx2R
    (by decide +kernel) (by decide +kernel) (by decide +kernel) (by decide +kernel)

/-! ### natural keys: `keysOk` is necessary, and the theorems are not vacuous on a natural-key relation -/

/-- `dj_sound_partial` without `keysOk` (all other hypotheses kept) -/
def DjSoundNoKeys : Prop :=
  ∀ (sch : Schema) (kindOf : Str → Option ColK) (db : DB) (_ : schemaOk sch = true) (_ : dbOk db = true)
    (fuel : Nat) (root : Str) (e : Expr) (f : RCond) (p : Plan)
    (_ : elabR kindOf none e = some f) (_ : djPlan sch kindOf fuel root e = .ok p)
    (r : Row) (_ : r ∈ db.table root) (_ : lambdaClean sch db root r f = true)
    (_ : lamVarsPlain e = true) (_ : (evalR sch db root r f).isSome = true),
    evalR sch db root r f = some (evalDjPlan sch db root r p)
/-- `sa_sound_partial` without `keysOk` (all other hypotheses kept) -/
def SaSoundNoKeys : Prop :=
  ∀ (sch : Schema) (kindOf : Str → Option ColK) (db : DB) (_ : schemaOk sch = true) (_ : dbOk db = true)
    (fuel : Nat) (root : Str) (e : Expr) (f : RCond) (p : SaPlan)
    (_ : elabR kindOf none e = some f) (_ : saPlan sch kindOf fuel root e = .ok p)
    (r : Row) (_ : r ∈ db.table root) (_ : lambdaClean sch db root r f = true)
    (_ : lamVarsPlain e = true) (_ : (evalR sch db root r f).isSome = true),
    evalSaPlan sch db p.joins root r p.clause = evalR sch db root r f

/-- counterexample 3: `a.b → b` references the natural key `b.number`, which is NOT unique: two rows of `b` carry number 5.
    `b/cs/any()` on the row of `a` with bn = 5: the specification follows the to-one step to THE related row (the first one, id 1,
    which has no `cs`): false; both ORMs join every row of `b` with number 5, and the one with id 2 has a `cs` row: true.
    Primary keys are unique in every table (`dbOk`), the schema is closed under inverses (`schemaOk`). -/
def cx3Sch : Schema :=
  [ ⟨T "a", T "b", T "b", .toOne (T "bn") (T "number")⟩, ⟨T "b", T "as", T "a", .toMany (T "bn") (T "number")⟩,
    ⟨T "b", T "cs", T "c", .toMany (T "b_id") (T "id")⟩, ⟨T "c", T "b", T "b", .toOne (T "b_id") (T "id")⟩ ]
def cx3Db : DB :=
  [ (T "a", [[(T "id", .int 1), (T "bn", .int 5)]]),
    (T "b", [[(T "id", .int 1), (T "number", .int 5)], [(T "id", .int 2), (T "number", .int 5)]]),
    (T "c", [[(T "id", .int 1), (T "b_id", .int 2)]]) ]
def cx3R : Row := [(T "id", .int 1), (T "bn", .int 5)]
def cx3E : Expr := .coll (.attr (.ident ⟨T "b", []⟩) (T "cs")) .any .none
def cx3F : RCond := .nonEmpty [T "b"] (T "cs")

example : keysOk cx3Sch cx3Db = false := by decide +kernel

theorem dj_sound_false_without_keysOk : ¬ DjSoundNoKeys := by
  intro H
  have := H cx3Sch vKind cx3Db (by decide +kernel) (by decide +kernel) 1 (T "a") cx3E cx3F
    (.exists_ (T "c") [T "b", T "as"] none) rfl rfl cx3R (by decide +kernel) (by decide +kernel) (by decide +kernel)
    (by decide +kernel)
  revert this
  decide +kernel

theorem sa_sound_false_without_keysOk : ¬ SaSoundNoKeys := by
  intro H
  have := H cx3Sch vKind cx3Db (by decide +kernel) (by decide +kernel) 1 (T "a") cx3E cx3F
    ⟨[[T "b"]], .exists_ (T "c") [T "b", T "cs"] none⟩ rfl rfl cx3R (by decide +kernel) (by decide +kernel) (by decide +kernel)
    (by decide +kernel)
  revert this
  decide +kernel

/-- … whereas the two ORMs still agree with each other on it (`orms_agree` needs no `keysOk`): both answer true -/
example : evalSaPlan cx3Sch cx3Db [[T "b"]] (T "a") cx3R (.exists_ (T "c") [T "b", T "cs"] none) =
    some (evalDjPlan cx3Sch cx3Db (T "a") cx3R (.exists_ (T "c") [T "b", T "as"] none)) :=
  orms_agree cx3Sch vKind cx3Db (by decide +kernel) (by decide +kernel) 1 (T "a") cx3E cx3F _
    ⟨[[T "b"]], .exists_ (T "c") [T "b", T "cs"] none⟩ rfl rfl rfl cx3R (by decide +kernel) (by decide +kernel)

/-- non-vacuity on the NATURAL-KEY relation of `vSchema` (`p.dept → d` keyed on `d.number`, inverse `d.emps`), with id ≠ number:
    department id 1 has number 7, department id 2 has number 1; employee 5 has dn = 1, i.e. belongs to department NUMBER 1
    (id 2), not to the department whose ID is 1 -/
def nkDb : DB :=
  [ (T "d", [[(T "id", .int 1), (T "number", .int 7), (T "title", .str (T "x"))],
             [(T "id", .int 2), (T "number", .int 1), (T "title", .str (T "y"))]]),
    (T "p", [[(T "id", .int 3), (T "dn", .int 7), (T "n", .int 1)], [(T "id", .int 4), (T "dn", .int 7), (T "n", .int 2)],
             [(T "id", .int 5), (T "dn", .int 1), (T "n", .int 2)], [(T "id", .int 6), (T "dn", .null), (T "n", .int 1)]]) ]
def nkD1 : Row := [(T "id", .int 1), (T "number", .int 7), (T "title", .str (T "x"))]
def nkD2 : Row := [(T "id", .int 2), (T "number", .int 1), (T "title", .str (T "y"))]
def nkP4 : Row := [(T "id", .int 4), (T "dn", .int 7), (T "n", .int 2)]
def nkP5 : Row := [(T "id", .int 5), (T "dn", .int 1), (T "n", .int 2)]
/-- `emps/any(x: x/n eq 1)` on `d` -/
def nkE1 : Expr :=
  .coll (.ident ⟨T "emps", []⟩) .any
    (.some ⟨T "x", []⟩ (.compare .eq (.attr (.ident ⟨T "x", []⟩) (T "n")) (.lit .int (T "1"))))
def nkF1 : RCond := .any [] (T "emps") (.scalar okLeaf)
/-- `dept/emps/all(x: x/n eq 2)` on `p`: a to-one step over the natural key, then the collection keyed on it -/
def nkE2 : Expr :=
  .coll (.attr (.ident ⟨T "dept", []⟩) (T "emps")) .all
    (.some ⟨T "x", []⟩ (.compare .eq (.attr (.ident ⟨T "x", []⟩) (T "n")) (.lit .int (T "2"))))
def nkLeaf2 : BoolE := .cmpI .eq (.col (T "n")) (.lit false (T "2"))
def nkF2 : RCond := .all [T "dept"] (T "emps") (.scalar nkLeaf2)

example : keysOk vSchema nkDb = true := by decide +kernel
-- Django, `emps/any(x: x/n eq 1)`: true for department id 1 (number 7: employees 3, 4), false for department id 2 (employee 5)
example : evalR vSchema nkDb (T "d") nkD1 nkF1 =
    some (evalDjPlan vSchema nkDb (T "d") nkD1 (.exists_ (T "p") [T "dept"] (some (.leaf okLeaf)))) :=
  dj_sound_partial vSchema vKind nkDb (by decide +kernel) (by decide +kernel) (by decide +kernel) 2 (T "d") nkE1 nkF1 _ rfl rfl
    nkD1 (by decide +kernel) (by decide +kernel) (by decide +kernel) (by decide +kernel)
example : evalR vSchema nkDb (T "d") nkD1 nkF1 = some .tt ∧ evalR vSchema nkDb (T "d") nkD2 nkF1 = some .ff := by
  decide +kernel
example : evalSaPlan vSchema nkDb [] (T "d") nkD2 (.exists_ (T "p") [T "emps"] (some (.leaf okLeaf))) =
    evalR vSchema nkDb (T "d") nkD2 nkF1 :=
  sa_sound_partial vSchema vKind nkDb (by decide +kernel) (by decide +kernel) (by decide +kernel) 2 (T "d") nkE1 nkF1
    ⟨[], .exists_ (T "p") [T "emps"] (some (.leaf okLeaf))⟩ rfl rfl nkD2
    (by decide +kernel) (by decide +kernel) (by decide +kernel) (by decide +kernel)
-- `dept/emps/all(x: x/n eq 2)`: false for employee 4 (department number 7 also has employee 3 with n = 1), true for employee 5
example : evalR vSchema nkDb (T "p") nkP4 nkF2 =
    some (evalDjPlan vSchema nkDb (T "p") nkP4 (.notExistsNot (T "p") [T "dept", T "emps"] (.leaf nkLeaf2))) :=
  dj_sound_partial vSchema vKind nkDb (by decide +kernel) (by decide +kernel) (by decide +kernel) 2 (T "p") nkE2 nkF2 _ rfl rfl
    nkP4 (by decide +kernel) (by decide +kernel) (by decide +kernel) (by decide +kernel)
example : evalSaPlan vSchema nkDb [[T "dept"]] (T "p") nkP5 (.notExistsNot (T "p") [T "dept", T "emps"] (.leaf nkLeaf2)) =
    evalR vSchema nkDb (T "p") nkP5 nkF2 :=
  sa_sound_partial vSchema vKind nkDb (by decide +kernel) (by decide +kernel) (by decide +kernel) 2 (T "p") nkE2 nkF2
    ⟨[[T "dept"]], .notExistsNot (T "p") [T "dept", T "emps"] (.leaf nkLeaf2)⟩ rfl rfl nkP5
    (by decide +kernel) (by decide +kernel) (by decide +kernel) (by decide +kernel)
example : evalR vSchema nkDb (T "p") nkP4 nkF2 = some .ff ∧ evalR vSchema nkDb (T "p") nkP5 nkF2 = some .tt := by
  decide +kernel
-- `reverse_reaches` on the natural-key relation: from employee 5, `dept` reaches the department whose PRIMARY key is 2 …
example : reachesBack vSchema nkDb (T "p") nkP5 [T "dept"] 2 = (rowsVia vSchema nkDb (T "d") nkD2 [T "emps"]).contains nkP5 :=
  reverse_reaches vSchema nkDb (by decide +kernel) (by decide +kernel) (T "d") [T "emps"] [T "dept"] (T "p") rfl nkD2 nkP5 2
    (by decide +kernel) (by decide +kernel) rfl
-- … and not the one whose primary key equals the foreign-key VALUE 1
example : reachesBack vSchema nkDb (T "p") nkP5 [T "dept"] 2 = true ∧ reachesBack vSchema nkDb (T "p") nkP5 [T "dept"] 1 = false := by
  decide +kernel

/-- the verification schema satisfies the schema hypothesis -/
theorem vSchema_ok : schemaOk vSchema = true := by decide +kernel

end OQ.C04
