/-
  Props/C04.lean — "navigation paths and any/all lambdas mean what OData says on the ORM backends": the plans the two ORM
  visitors build (Model/OrmRel.lean), evaluated the way Django / SQLAlchemy evaluate them (Spec/OrmRelSem.lean), select
  exactly the parents the relational reference semantics (Spec/RelSem.lean) selects.

  * `reverse_reaches`   Django's `reverse_relationship`: from a child row, following the reversed remote names reaches the
                        outer row IFF the child is one of the rows the forward path leads to from that outer row —
                        "each parent is matched on its own related rows only"
  * `dj_sound_partial`  for every relational filter (to-one paths, any() / any(x: p) / all(x: p), nested, and / or / not) and every
                        database, the Django plan evaluates to the specification's value on every parent row
  * `sa_sound_partial`  the same for the SQLAlchemy plan, including: every path a leaf navigates is joined (no cross join)
  * `dj_sound_typed`, `sa_sound_typed`   the same with the static condition `relTyped sch root f` in place of `hdef`
  * `orms_agree`        both ORMs agree (original statement; proved directly, independent of the specification)
  * `dj_sound_original_false_toOne`, `dj_sound_original_false_ns`, `sa_sound_original_false_toOne`
                        the statements WITHOUT the two extra hypotheses are false
  Hypotheses: the schema is closed under inverses (`schemaOk`), primary keys are unique (`dbOk`), lambda bodies are two-valued on
  the related rows (`lambdaClean`: the property quantifies over bodies over non-null child columns); NEW: the filter has a
  value on the row (`hdef`, i.e. it is a filter over the schema; static form `relTyped`), lambda variables have no namespace
  (`lamVarsPlain`, Lemmas/RelStrip.lean).
-/
import ODataVerif.Model.OrmRel
import ODataVerif.Spec.OrmRelSem
import ODataVerif.Lemmas.RelSound
import ODataVerif.Lemmas.RelSoundMain
namespace OQ.C04
open Spec RelSound
open RelStrip (lamVarsPlain lamVarsPlainList lamVarsPlainLam)

/-- every row has an id, and ids are unique within a table -/
def tableOk (rows : List Row) : Bool :=
  rows.all (fun r => (idOf r).isSome) &&
  rows.all (fun r => (rows.filter (fun r' => idOf r' == idOf r)).length == 1)
def dbOk (db : DB) : Bool := db.all (fun t => tableOk t.2) && db.all (fun t => (db.filter (fun t' => t'.1 == t.1)).length == 1)

/-! the Bool-valued hypotheses in the propositional form the lemmas of Lemmas/RelSound.lean use -/
theorem tableOk_table (db : DB) (hd : dbOk db = true) (t : Str) : tableOk (db.table t) = true := by
  unfold DB.table
  cases h : db.find? (fun p => p.1 == t) with
  | none => simp [tableOk]
  | some p =>
    have hm := List.mem_of_find?_eq_some h
    simp only [dbOk, Bool.and_eq_true, List.all_eq_true] at hd
    exact hd.1 p hm

theorem idsOk_of_dbOk (db : DB) (hd : dbOk db = true) : IdsOk db := by
  constructor
  · intro t r hr
    have := tableOk_table db hd t
    simp only [tableOk, Bool.and_eq_true, List.all_eq_true] at this
    have := this.1 r hr
    exact Option.isSome_iff_exists.mp this
  · intro t k
    have h := tableOk_table db hd t
    simp only [tableOk, Bool.and_eq_true, List.all_eq_true] at h
    cases hf : (db.table t).filter (fun x => idOf x == some k) with
    | nil => simp
    | cons x rest =>
      have hx : x ∈ (db.table t).filter (fun x => idOf x == some k) := by rw [hf]; simp
      rw [List.mem_filter] at hx
      have h2 := h.2 x hx.1
      have hk : idOf x = some k := by simpa using hx.2
      rw [hk] at h2
      rw [hf] at h2
      simpa using h2

theorem schOk_of_schemaOk (sch : Schema) (hs : schemaOk sch = true) : SchOk sch := by
  intro r hr
  simp only [schemaOk, Bool.and_eq_true, List.all_eq_true] at hs
  have h := hs.2 r hr
  unfold Schema.rel
  cases hf : sch.filter (fun r' => r'.src == r.src && r'.name == r.name) with
  | nil => rw [hf] at h; simp at h
  | cons x rest =>
    rw [hf] at h
    have hrest : rest = [] := by simpa using h
    subst hrest
    have hr' : r ∈ sch.filter (fun r' => r'.src == r.src && r'.name == r.name) := by
      rw [List.mem_filter]; simp [hr]
    rw [hf] at hr'
    have : r = x := by simpa using hr'
    subst this
    rw [← List.head?_filter, hf]; rfl

/-- Django's back path is the inverse of the forward path -/
theorem reverse_reaches (sch : Schema) (db : DB) (hs : schemaOk sch = true) (hd : dbOk db = true)
    (root : Str) (segs back : List Str) (child : Str) (h : reverseRelationship sch root segs = some (back, child))
    (r c : Row) (pk : Int) (hr : r ∈ db.table root) (hc : c ∈ db.table child) (hpk : idOf r = some pk) :
    reachesBack sch db child c back pk = (rowsVia sch db root r segs).contains c :=
  reverse_reaches' sch db (schOk_of_schemaOk sch hs) (idsOk_of_dbOk db hd) root segs back child h r c pk hr hc hpk

/-! ### the two main theorems

  The statements first written here (`DjSoundOriginal`, `SaSoundOriginal` below: no `hns`, no `hdef`) are FALSE — see
  `dj_sound_original_false_toOne`, `dj_sound_original_false_ns`, `sa_sound_original_false_toOne`.  Two hypotheses are added:

  * `hdef : (evalR sch db root r f).isSome`   the filter IS a filter over the schema on this row (every lambda owner is a
        to-one path followed by a to-many / many-to-many relation).  Without it `evalR = none` while both visitors happily build
        a plan for e.g. `o/any()` (a to-one relation used as a collection) or `kids/p/kids/any()` (Django follows a multi-valued
        prefix).  `relTyped sch root f` (Lemmas/RelSound.lean) is a STATIC sufficient condition: `dj_sound_typed`, `sa_sound_typed`.
  * `hns : lamVarsPlain e`   every lambda variable has an empty namespace (the parser only builds such).  The specification's
        reading (`elabR`) looks at the variable's NAME only, whereas `IdentifierStripper` compares the whole `Identifier`
        (name and namespace) with the root of a path: for `kids/any(N.x: x/n eq 1)` the body is not stripped. -/

/-- MAIN THEOREM (C04, Django) -/
theorem dj_sound_partial (sch : Schema) (kindOf : Str → Option ColK) (db : DB) (hs : schemaOk sch = true) (hd : dbOk db = true)
    (fuel : Nat) (root : Str) (e : Expr) (f : RCond) (p : Plan)
    (he : elabR kindOf none e = some f) (hp : djPlan sch kindOf fuel root e = .ok p)
    (r : Row) (hr : r ∈ db.table root) (hc : lambdaClean sch db root r f = true)
    (hns : lamVarsPlain e = true) (hdef : (evalR sch db root r f).isSome = true) :
    evalR sch db root r f = some (evalDjPlan sch db root r p) :=
  dj_core sch kindOf db (schOk_of_schemaOk sch hs) (idsOk_of_dbOk db hd) fuel root e f p hns he hp r hr hc hdef

/-- MAIN THEOREM (C04, SQLAlchemy): in particular the result is never `none` — every navigated path is joined -/
theorem sa_sound_partial (sch : Schema) (kindOf : Str → Option ColK) (db : DB) (_hs : schemaOk sch = true) (hd : dbOk db = true)
    (fuel : Nat) (root : Str) (e : Expr) (f : RCond) (p : SaPlan)
    (he : elabR kindOf none e = some f) (hp : saPlan sch kindOf fuel root e = .ok p)
    (r : Row) (_hr : r ∈ db.table root) (hc : lambdaClean sch db root r f = true)
    (hns : lamVarsPlain e = true) (hdef : (evalR sch db root r f).isSome = true) :
    evalSaPlan sch db p.joins root r p.clause = evalR sch db root r f := by
  unfold saPlan at hp
  cases hq : saPlanAux sch kindOf fuel root e with
  | error err => simp [hq, Except.map] at hp
  | ok jp =>
    obtain ⟨j, q⟩ := jp
    simp only [hq, Except.map, Except.ok.injEq] at hp
    subst hp
    exact sa_core sch kindOf db (idsOk_of_dbOk db hd) fuel root e f j q hns he hq r hc hdef j (fun _ hx => hx)

/-- both ORMs agree on every filter both translate (the ORIGINAL statement: it needs neither `hns` nor `hdef` — nor `he`, `hc`:
    the two plans are compared directly, `agree_core`) -/
theorem orms_agree (sch : Schema) (kindOf : Str → Option ColK) (db : DB) (hs : schemaOk sch = true) (hd : dbOk db = true)
    (fuel : Nat) (root : Str) (e : Expr) (f : RCond) (p : Plan) (q : SaPlan)
    (_he : elabR kindOf none e = some f) (hp : djPlan sch kindOf fuel root e = .ok p) (hq : saPlan sch kindOf fuel root e = .ok q)
    (r : Row) (hr : r ∈ db.table root) (_hc : lambdaClean sch db root r f = true) :
    evalSaPlan sch db q.joins root r q.clause = some (evalDjPlan sch db root r p) := by
  unfold saPlan at hq
  cases hq' : saPlanAux sch kindOf fuel root e with
  | error err => simp [hq', Except.map] at hq
  | ok jp =>
    obtain ⟨j, q'⟩ := jp
    simp only [hq', Except.map, Except.ok.injEq] at hq
    subst hq
    exact agree_core sch kindOf db (schOk_of_schemaOk sch hs) (idsOk_of_dbOk db hd) fuel root e p j q' hp hq' r hr j
      (fun _ hx => hx)

/-! the same with the STATIC well-formedness condition `relTyped` in place of `hdef` -/
theorem dj_sound_typed (sch : Schema) (kindOf : Str → Option ColK) (db : DB) (hs : schemaOk sch = true) (hd : dbOk db = true)
    (fuel : Nat) (root : Str) (e : Expr) (f : RCond) (p : Plan)
    (he : elabR kindOf none e = some f) (hp : djPlan sch kindOf fuel root e = .ok p)
    (r : Row) (hr : r ∈ db.table root) (hc : lambdaClean sch db root r f = true)
    (hns : lamVarsPlain e = true) (ht : relTyped sch root f = true) :
    evalR sch db root r f = some (evalDjPlan sch db root r p) :=
  dj_sound_partial sch kindOf db hs hd fuel root e f p he hp r hr hc hns (relTyped_isSome sch db f root r ht)

theorem sa_sound_typed (sch : Schema) (kindOf : Str → Option ColK) (db : DB) (hs : schemaOk sch = true) (hd : dbOk db = true)
    (fuel : Nat) (root : Str) (e : Expr) (f : RCond) (p : SaPlan)
    (he : elabR kindOf none e = some f) (hp : saPlan sch kindOf fuel root e = .ok p)
    (r : Row) (hr : r ∈ db.table root) (hc : lambdaClean sch db root r f = true)
    (hns : lamVarsPlain e = true) (ht : relTyped sch root f = true) :
    evalSaPlan sch db p.joins root r p.clause = evalR sch db root r f :=
  sa_sound_partial sch kindOf db hs hd fuel root e f p he hp r hr hc hns (relTyped_isSome sch db f root r ht)

/-! ### the original statements and their counterexamples -/

/-- the ORIGINAL statement of `dj_sound` (no `hns`, no `hdef`) -/
def DjSoundOriginal : Prop :=
  ∀ (sch : Schema) (kindOf : Str → Option ColK) (db : DB) (_ : schemaOk sch = true) (_ : dbOk db = true)
    (fuel : Nat) (root : Str) (e : Expr) (f : RCond) (p : Plan)
    (_ : elabR kindOf none e = some f) (_ : djPlan sch kindOf fuel root e = .ok p)
    (r : Row) (_ : r ∈ db.table root) (_ : lambdaClean sch db root r f = true),
    evalR sch db root r f = some (evalDjPlan sch db root r p)
/-- the ORIGINAL statement of `sa_sound` (no `hns`, no `hdef`) -/
def SaSoundOriginal : Prop :=
  ∀ (sch : Schema) (kindOf : Str → Option ColK) (db : DB) (_ : schemaOk sch = true) (_ : dbOk db = true)
    (fuel : Nat) (root : Str) (e : Expr) (f : RCond) (p : SaPlan)
    (_ : elabR kindOf none e = some f) (_ : saPlan sch kindOf fuel root e = .ok p)
    (r : Row) (_ : r ∈ db.table root) (_ : lambdaClean sch db root r f = true),
    evalSaPlan sch db p.joins root r p.clause = evalR sch db root r f

/-- counterexample 1: `o/any()` on table `p` — `o` is a TO-ONE relation: not a filter over the schema (`evalR = none`), but both
    visitors build a plan and the ORMs evaluate it (to `tt` here) -/
def cx1E : Expr := .coll (.ident ⟨T "o", []⟩) .any .none
def cx1Db : DB := [(T "p", [[(T "id", .int 1), (T "o_id", .int 1)]]), (T "o", [[(T "id", .int 1)]])]
def cx1R : Row := [(T "id", .int 1), (T "o_id", .int 1)]
/-- counterexample 2: `kids/any(N.x: x/n eq 1)` — a lambda variable WITH a namespace (the parser never builds one): the
    specification drops the leading `x`, `IdentifierStripper` does not (the identifiers differ), Django reads the column `x/n` -/
def cx2E : Expr :=
  .coll (.ident ⟨T "kids", []⟩) .any
    (.some ⟨T "x", [T "N"]⟩ (.compare .eq (.attr (.ident ⟨T "x", []⟩) (T "n")) (.lit .int (T "1"))))
def cx2Db : DB := [(T "p", [[(T "id", .int 1)]]), (T "k", [[(T "id", .int 1), (T "p_id", .int 1), (T "n", .int 1)]])]
def cx2R : Row := [(T "id", .int 1)]
def cx2F : RCond := .any [] (T "kids") (.scalar (.cmpI .eq (.col (T "n")) (.lit false (T "1"))))

theorem dj_sound_original_false_toOne : ¬ DjSoundOriginal := by
  intro H
  have := H vSchema vKind cx1Db (by decide +kernel) (by decide +kernel) 1 (T "p") cx1E
    (.nonEmpty [] (T "o")) (.exists_ (T "o") [T "ps"] none) rfl rfl cx1R (by decide +kernel) (by decide +kernel)
  have h2 : evalR vSchema cx1Db (T "p") cx1R (.nonEmpty [] (T "o")) = none := by decide +kernel
  rw [h2] at this
  cases this

theorem sa_sound_original_false_toOne : ¬ SaSoundOriginal := by
  intro H
  have := H vSchema vKind cx1Db (by decide +kernel) (by decide +kernel) 1 (T "p") cx1E
    (.nonEmpty [] (T "o")) ⟨[], .exists_ (T "o") [T "o"] none⟩ rfl rfl cx1R (by decide +kernel) (by decide +kernel)
  revert this
  decide +kernel

theorem dj_sound_original_false_ns : ¬ DjSoundOriginal := by
  intro H
  have := H vSchema vKind cx2Db (by decide +kernel) (by decide +kernel) 2 (T "p") cx2E cx2F
    (.exists_ (T "k") [T "p"] (some (.leaf (.cmpI .eq (.col (T "x/n")) (.lit false (T "1")))))) rfl rfl cx2R
    (by decide +kernel) (by decide +kernel)
  revert this
  decide +kernel

/-- non-vacuity: `kids/any(x: x/n eq 1)` satisfies every hypothesis of `dj_sound_partial` / `sa_sound_partial` -/
def okE : Expr :=
  .coll (.ident ⟨T "kids", []⟩) .any
    (.some ⟨T "x", []⟩ (.compare .eq (.attr (.ident ⟨T "x", []⟩) (T "n")) (.lit .int (T "1"))))
def okLeaf : BoolE := .cmpI .eq (.col (T "n")) (.lit false (T "1"))
example : evalR vSchema cx2Db (T "p") cx2R cx2F =
    some (evalDjPlan vSchema cx2Db (T "p") cx2R (.exists_ (T "k") [T "p"] (some (.leaf okLeaf)))) :=
  dj_sound_partial vSchema vKind cx2Db (by decide +kernel) (by decide +kernel) 2 (T "p") okE cx2F _ rfl rfl cx2R
    (by decide +kernel) (by decide +kernel) (by decide +kernel) (by decide +kernel)
example : evalSaPlan vSchema cx2Db [] (T "p") cx2R (.exists_ (T "k") [T "kids"] (some (.leaf okLeaf))) =
    evalR vSchema cx2Db (T "p") cx2R cx2F :=
  sa_sound_partial vSchema vKind cx2Db (by decide +kernel) (by decide +kernel) 2 (T "p") okE cx2F
    ⟨[], .exists_ (T "k") [T "kids"] (some (.leaf okLeaf))⟩ rfl rfl cx2R
    (by decide +kernel) (by decide +kernel) (by decide +kernel) (by decide +kernel)

/-- the verification schema satisfies the schema hypothesis -/
theorem vSchema_ok : schemaOk vSchema = true := by decide +kernel

end OQ.C04
