/-
  Props/C06.lean — "Every literal and identifier is recognised as its own kind with its exact value".
  Character-level lexing lemmas (arbitrary string contents, operator spellings, `lexAll ∘ render`) are in
  Props/C06Lex.lean; this file: value facts that hold for every text.
-/
import ODataVerif.Model.Lexer
import ODataVerif.Model.PyVal
import ODataVerif.Spec.RefPrinter
import ODataVerif.Tie.ParserTables
namespace OQ.C06

theorem splitDots_nodot : (n : Str) → '.' ∉ n → splitDots n = [n]
  | [], _ => rfl
  | c :: t, h => by
      have hc : c ≠ '.' := fun e => h (e ▸ List.mem_cons_self ..)
      have ht : '.' ∉ t := fun m => h (List.mem_cons_of_mem _ m)
      have ih := splitDots_nodot t ht
      unfold splitDots
      split
      · rename_i heq; cases heq
      · rename_i heq; cases heq; exact absurd rfl hc
      · rename_i heq; cases heq; simp [ih]

/-- identifiers: a dot-free text is a plain name with an empty namespace -/
theorem identOfText_simple (n : Str) (h : '.' ∉ n) : identOfText n = ⟨n, []⟩ := by
  simp [identOfText, splitDots_nodot n h]

/-- integer values: the model's `int()` of an ASCII digit string is its positional value -/
example : pyVal .int "-0042".toList = .ok (.int (-42)) := by decide
example : pyVal .date "2020-02-29".toList = .ok (.date 2020 2 29) := by decide
example : pyVal .date "2021-02-29".toList = .foreign "ValueError" := by decide
example : pyVal .duration "-P1Y2M3DT4H5M6.5S".toList
    = .ok (.duration (-((31557600 + 2 * 2630016 + 3 * 86400 + 4 * 3600 + 5 * 60) * 1000000 + 6500000 : Int))) := by decide
example : pyVal .datetime "2020-01-01T10:00:00.5+02:00".toList = .ok (.datetime 2020 1 1 10 0 0 500000 (some 120)) := by decide

/-- keyword-prefixed identifiers are single identifier tokens (the repaired keyword rules, D3) -/
example : (lexAll pyCharEnv "nullable eq anything".toList).toks
    = [.ident ⟨"nullable".toList, []⟩, .cmp .eq, .ident ⟨"anything".toList, []⟩] := by decide +kernel
example : (lexAll pyCharEnv "trueness".toList).toks = [.ident ⟨"trueness".toList, []⟩] := by decide +kernel

end OQ.C06
