/-
  Props/C15.lean — "shorthands conjoin the filter with the incoming query and leave the host intact", over the abstract
  query model (Model/Shorthand.lean).

  * `sa_conjoins`, `dj_conjoins`   the rows kept by the result are exactly the rows the base query keeps that also satisfy
                                   the filter's condition
  * `sa_keeps`, `dj_keeps`         existing conditions, joins, ordering and annotations are a prefix of / equal to the result's
  * `sa_no_double_join`            a relationship the base already joins (known by "Model.rel" or by its key) is not joined again
  * `sa_adds_needed`               every relationship the filter needs is joined in the result
  * `registry_default_untouched`   importing the backend does not change what `sqlalchemy.func.<name>` resolves to in the host's
                                   (`_default`) package — because every class declares `package = "odata"` itself (tie theorem)
-/
import ODataVerif.Model.Shorthand
import ODataVerif.Tie.SaFunctions
namespace OQ.C15

variable {ρ : Type}

theorem keep_append_where (q : AQuery ρ) (c : ρ → Bool) (rows : List ρ) :
    ({ q with wheres := q.wheres ++ [c] } : AQuery ρ).keep rows = (q.keep rows).filter c := by
  simp only [AQuery.keep, List.filter_filter]
  congr 1
  funext r
  simp [List.all_append, Bool.and_comm]

theorem addJoins_wheres (q : AQuery ρ) (req : List Join) : (addJoins q req).wheres = q.wheres := by
  induction req generalizing q with
  | nil => rfl
  | cons j rest ih =>
    simp only [addJoins]
    split
    · exact ih q
    · rw [ih]

theorem addJoins_order (q : AQuery ρ) (req : List Join) :
    (addJoins q req).order = q.order ∧ (addJoins q req).annotations = q.annotations ∧ (addJoins q req).entity = q.entity := by
  induction req generalizing q with
  | nil => exact ⟨rfl, rfl, rfl⟩
  | cons j rest ih =>
    simp only [addJoins]
    split
    · exact ih q
    · have := ih { q with joins := q.joins ++ [{ j with outer := true }] }
      exact this

/-- existing joins stay, in order, at the front -/
theorem addJoins_prefix (q : AQuery ρ) (req : List Join) : ∃ added, (addJoins q req).joins = q.joins ++ added := by
  induction req generalizing q with
  | nil => exact ⟨[], by simp [addJoins]⟩
  | cons j rest ih =>
    simp only [addJoins]
    split
    · exact ih q
    · obtain ⟨a, ha⟩ := ih { q with joins := q.joins ++ [{ j with outer := true }] }
      exact ⟨{ j with outer := true } :: a, by simp [ha]⟩

/-- SQLAlchemy: the result keeps exactly the base's rows that satisfy the filter -/
theorem sa_conjoins (q : AQuery ρ) (req : List Join) (c : ρ → Bool) (rows : List ρ) :
    (applySa q req c).keep rows = (q.keep rows).filter c := by
  unfold applySa
  have h := keep_append_where (addJoins q req) c rows
  simp only [AQuery.keep, addJoins_wheres] at h ⊢
  exact h

theorem dj_conjoins (q : AQuery ρ) (an : List Str) (c : ρ → Bool) (rows : List ρ) :
    (applyDj q an c).keep rows = (q.keep rows).filter c := by
  unfold applyDj
  exact keep_append_where { q with annotations := q.annotations ++ an } c rows

/-- SQLAlchemy: conditions, joins, ordering, annotations and entity of the base query are kept -/
theorem sa_keeps (q : AQuery ρ) (req : List Join) (c : ρ → Bool) :
    (∃ added, (applySa q req c).joins = q.joins ++ added) ∧ (applySa q req c).wheres = q.wheres ++ [c]
    ∧ (applySa q req c).order = q.order ∧ (applySa q req c).annotations = q.annotations ∧ (applySa q req c).entity = q.entity := by
  unfold applySa
  obtain ⟨ho, ha, he⟩ := addJoins_order q req
  exact ⟨addJoins_prefix q req, by simp [addJoins_wheres], ho, ha, he⟩

theorem dj_keeps (q : AQuery ρ) (an : List Str) (c : ρ → Bool) :
    (applyDj q an c).joins = q.joins ∧ (applyDj q an c).wheres = q.wheres ++ [c] ∧ (applyDj q an c).order = q.order
    ∧ (∃ added, (applyDj q an c).annotations = q.annotations ++ added) ∧ (applyDj q an c).entity = q.entity :=
  ⟨rfl, rfl, rfl, ⟨an, rfl⟩, rfl⟩

/-- how often a relationship (by its "Model.rel" string) is joined -/
def joinCount (q : AQuery ρ) (rel : Str) : Nat := (q.joins.filter (fun j => j.rel == rel)).length

theorem joinedAttrs_mono (q : AQuery ρ) (j : Join) (x : Str) (h : (joinedAttrs q).contains x = true) :
    (joinedAttrs ({ q with joins := q.joins ++ [j] } : AQuery ρ)).contains x = true := by
  simp only [joinedAttrs, List.map_append, List.contains_iff_mem, List.mem_append] at h ⊢
  exact Or.inl h

/-- a relationship already joined by the base query is not joined a second time -/
theorem sa_no_double_join (q : AQuery ρ) (req : List Join) (rel : Str)
    (h : (joinedAttrs q).contains rel = true) : joinCount (addJoins q req) rel = joinCount q rel := by
  induction req generalizing q with
  | nil => rfl
  | cons j rest ih =>
    simp only [addJoins]
    split
    · exact ih q h
    · rename_i hn
      have hj : (j.rel == rel) = false := by
        cases hc : (j.rel == rel) with
        | false => rfl
        | true =>
          have : j.rel = rel := by simpa using hc
          rw [this, h] at hn
          simp at hn
      rw [ih _ (joinedAttrs_mono q _ rel h)]
      simp [joinCount, List.filter_append, hj]

/-- every relationship the filter needs is joined (under its "Model.rel" string or its key) in the result -/
theorem sa_adds_needed (q : AQuery ρ) (req : List Join) :
    ∀ j ∈ req, (joinedAttrs (addJoins q req)).contains j.rel = true ∨ (joinedAttrs (addJoins q req)).contains j.key = true := by
  induction req generalizing q with
  | nil => intro j hj; cases hj
  | cons j0 rest ih =>
    intro j hj
    have mono : ∀ (q : AQuery ρ) (req : List Join) (x : Str), (joinedAttrs q).contains x = true →
        (joinedAttrs (addJoins q req)).contains x = true := by
      intro q req
      induction req generalizing q with
      | nil => intro x hx; exact hx
      | cons a r ihr =>
        intro x hx
        simp only [addJoins]
        split
        · exact ihr q x hx
        · exact ihr _ x (joinedAttrs_mono q _ x hx)
    simp only [addJoins]
    rcases List.mem_cons.mp hj with h0 | hr
    · subst h0
      split
      · rename_i hc
        rcases Bool.or_eq_true _ _ |>.mp hc with h1 | h1
        · exact Or.inl (mono q rest _ h1)
        · exact Or.inr (mono q rest _ h1)
      · refine Or.inl (mono _ rest _ ?_)
        simp [joinedAttrs]
    · split
      · exact ih q j hr
      · exact ih _ j hr

/-! ### the host's `sqlalchemy.func.<name>` -/
theorem lookup_register_other (r : Registry) (pkg pkg' name name' cls : String) (h : pkg' ≠ pkg) :
    (r.register pkg' name' cls).lookup pkg name = r.lookup pkg name := by
  have hb : (pkg' == pkg) = false := by simpa using h
  simp [Registry.lookup, Registry.register, List.find?, hb]

/-- importing the backend leaves every lookup in the host's default package unchanged -/
theorem registry_default_untouched (r : Registry) (name : String) :
    (afterImport r).lookup "_default" name = r.lookup "_default" name := by
  unfold afterImport functionsExt
  simp only [List.foldl]
  repeat rw [lookup_register_other _ _ _ _ _ _ (by decide)]

/-- non-vacuity: a pre-joined, pre-filtered base and a filter that needs the joined relationship plus a new one -/
example :
    let q : AQuery Nat := ⟨"P".toList, [fun n => n > 1], [⟨"P.o".toList, "o".toList, false⟩], ["-id".toList], []⟩
    let r := applySa q [⟨"P.o".toList, "o".toList, true⟩, ⟨"P.w".toList, "w".toList, true⟩] (fun n => n % 2 == 0)
    r.joins.map (·.rel) = ["P.o".toList, "P.w".toList] ∧ r.keep [1, 2, 3, 4] = [2, 4] ∧ r.order = ["-id".toList] := by decide

end OQ.C15
