/-
  Props/C01Date.lean — C01 for the DATE fragment (Spec/DateFilters.lean `DateF`): comparisons of a date column with date literals
  (either operand order), membership in a list of date literals, year / month / day of a date column compared with an integer,
  closed under and / or / not.

  For EVERY such filter f whose literals are valid calendar dates and EVERY row whose date cells are NULL or valid ISO dates, the
  SQLite dialect emits a WHERE text; read by the independent SQL tokeniser and parser it is a tree whose evaluation by the
  SQLite date model selects the row exactly when OData's three-valued semantics makes f true.
  Chain as in C01Full:  date_translates → C07.lex_pieces → C09.parse_mirror → date_sound  (the last uses DateOrder.cmp_iso:
  comparing ISO texts is comparing dates).
-/
import ODataVerif.Spec.DateFilters
import ODataVerif.Props.DateOrder
import ODataVerif.Props.C07Lex
import ODataVerif.Props.C09Parse
import ODataVerif.Lemmas.DateSound
namespace OQ.C01
open Spec

/-- the SQLite dialect translates every date filter -/
theorem date_translates (isD : Char → Bool) (al : Option Str) (f : DateF) :
    ∃ ps, sqlVisit isD .sqlite al f.toExpr = .ok ps :=
  DateSound.date_vis isD al f

/-- the tree the text denotes (Spec.mirror) evaluates, under the SQLite date model, to OData's meaning -/
theorem date_sound (isD : Char → Bool) (f : DateF) (ρ : Row) (hw : f.wf = true) (hr : f.rowOk ρ = true) :
    ∃ t, mirror isD .sqlite none f.toExpr = some t ∧ sqliteSelectsD ρ t = some (evalDF ρ f == .tt) := by
  obtain ⟨t, hm, he⟩ := DateSound.sound_v3 isD ρ f hw hr
  refine ⟨t, hm, ?_⟩
  unfold sqliteSelectsD
  rw [he]
  simp

/-- MAIN THEOREM: text → tokens → tree → rows, for the date fragment (for any digit class `isD`: it is consulted for durations only) -/
theorem date_where_selects (isD : Char → Bool)
    (f : DateF) (ρ : Row) (hw : f.wf = true) (hr : f.rowOk ρ = true) :
    ∃ s, sqlText isD .sqlite none f.toExpr = .ok s ∧
      ∃ t, sqlRead s = some t ∧ sqliteSelectsD ρ t = some (evalDF ρ f == .tt) := by
  obtain ⟨ps, hps⟩ := date_translates isD none f
  obtain ⟨t, hm, hsel⟩ := date_sound isD f ρ hw hr
  have hl := DateSound.date_litOk isD f hw
  have hlex := C07.lex_pieces isD .sqlite none f.toExpr ps hl rfl hps
  have hparse := C09.parse_mirror isD .sqlite none f.toExpr ps t hl (DateSound.date_sqlSafe f) hm hps
  refine ⟨renderPieces ps, ?_, t, ?_, hsel⟩
  · unfold sqlText; rw [hps]; rfl
  · unfold sqlRead; rw [hlex]; exact hparse

/-! non-vacuity -/
example : (DateF.and (.cmp .lt "d1".toList ⟨2020, 2, 29⟩) (.not (.part .year .ge "d1".toList 2000))).wf = true := by decide

end OQ.C01
