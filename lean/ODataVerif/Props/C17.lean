/-
  Props/C17.lean — "Making a lambda body relative strips exactly the lambda variable's prefix".
-/
import ODataVerif.Model.Rewrite
import ODataVerif.Model.Ast
import ODataVerif.Spec.Reroot
import ODataVerif.Spec.Traversal
import ODataVerif.Props.C16
namespace OQ.C17
open Spec

/-! helper facts about the shape test (kept here because they are about the statement's vocabulary) -/

theorem isAttr_mkAttr (o : Tree) (a : Str) : isAttr (mkAttr o a) = true := by
  simp [isAttr, mkAttr]

/-- a node either *is* `Attribute(owner, attr)` or fails the shape test -/
theorem attr_cases (k : String) (fs : TreeList) :
    (k = "Attribute" ∧ ∃ o a, fs = .cons o (.cons (.str a) .nil)) ∨ isAttr (.node k fs) = false := by
  by_cases hk : k = "Attribute"
  · subst hk
    match fs with
    | .cons o (.cons (.str a) .nil) => exact Or.inl ⟨rfl, o, a, rfl⟩
    | .nil => right; simp [isAttr]
    | .cons _ .nil => right; simp [isAttr]
    | .cons _ (.cons (.node _ _) _) => right; simp [isAttr]
    | .cons _ (.cons (.list _) _) => right; simp [isAttr]
    | .cons _ (.cons (.tuple _) _) => right; simp [isAttr]
    | .cons _ (.cons .none _) => right; simp [isAttr]
    | .cons _ (.cons (.str _) (.cons _ _)) => right; simp [isAttr]
  · right
    unfold isAttr
    split
    · rename_i h; cases h; exact absurd rfl hk
    · rfl

theorem pathView_nonAttr (t : Tree) (h : isAttr t = false) : pathView t = (t, []) := by
  match t with
  | .node k fs =>
      rcases attr_cases k fs with ⟨rfl, o, a, rfl⟩ | _
      · simp [isAttr] at h
      · match fs with
        | .cons o (.cons (.str a) .nil) =>
            have hk : ¬ k = "Attribute" := by
              intro e; subst e; simp [isAttr] at h
            simp [pathView, hk]
        | .nil => simp [pathView]
        | .cons _ .nil => simp [pathView]
        | .cons _ (.cons (.node _ _) _) => simp [pathView]
        | .cons _ (.cons (.list _) _) => simp [pathView]
        | .cons _ (.cons (.tuple _) _) => simp [pathView]
        | .cons _ (.cons .none _) => simp [pathView]
        | .cons _ (.cons (.str _) (.cons _ _)) => simp [pathView]
  | .list _ => simp [pathView]
  | .tuple _ => simp [pathView]
  | .str _ => simp [pathView]
  | .none => simp [pathView]

theorem pathView_mkAttr (o : Tree) (a : Str) :
    pathView (mkAttr o a) = ((pathView o).1, (pathView o).2 ++ [a]) := by
  simp [pathView, mkAttr]

theorem pathView_attr_ne_nil (t : Tree) (h : isAttr t = true) : (pathView t).2 ≠ [] := by
  match t with
  | .node k fs =>
      rcases attr_cases k fs with ⟨rfl, o, a, rfl⟩ | h'
      · have := pathView_mkAttr o a
        simp [mkAttr] at this
        simp [this]
      · rw [h'] at h; cases h
  | .list _ => simp [isAttr] at h
  | .tuple _ => simp [isAttr] at h
  | .str _ => simp [isAttr] at h
  | .none => simp [isAttr] at h

theorem buildPath_snoc (r : Tree) (ss : List Str) (a : Str) :
    buildPath r (ss ++ [a]) = mkAttr (buildPath r ss) a := by
  simp [buildPath, List.foldl_append]

theorem strip_mkAttr (x o : Tree) (a : Str) :
    strip x (mkAttr o a) =
      if o = x then mkIdent a else if isAttr o then mkAttr (strip x o) a else mkAttr o a := by
  simp [strip, mkAttr]

theorem strip_nonAttr (x : Tree) (k : String) (fs : TreeList) (h : isAttr (.node k fs) = false) :
    strip x (.node k fs) = .node k (stripFields x fs) := by
  rcases attr_cases k fs with ⟨rfl, o, a, rfl⟩ | _
  · simp [isAttr] at h
  · by_cases hk : k = "Attribute"
    · subst hk
      match fs, h with
      | .cons o (.cons (.str a) .nil), h => simp [isAttr] at h
      | .nil, _ => simp [strip]
      | .cons _ .nil, _ => simp [strip]
      | .cons _ (.cons (.node _ _) _), _ => simp [strip]
      | .cons _ (.cons (.list _) _), _ => simp [strip]
      | .cons _ (.cons (.tuple _) _), _ => simp [strip]
      | .cons _ (.cons .none _), _ => simp [strip]
      | .cons _ (.cons (.str _) (.cons _ _)), _ => simp [strip]
    · unfold strip; simp [hk]

/-- on a path, the stripper is re-rooting (by recursion along the owner chain) -/
theorem strip_path (x : Tree) (hx : isAttr x = false) :
    (t : Tree) → isAttr t = true → strip x t = rerootPath x t
  | .node k fs, ht => by
      rcases attr_cases k fs with ⟨rfl, o, a, rfl⟩ | h'
      · show strip x (mkAttr o a) = rerootPath x (mkAttr o a)
        rw [strip_mkAttr]
        unfold rerootPath
        rw [pathView_mkAttr]
        by_cases hox : o = x
        · subst hox
          simp [pathView_nonAttr o hx, buildPath]
        · simp only [hox, if_false]
          by_cases hoa : isAttr o = true
          · have ih := strip_path x hx o hoa
            simp only [hoa, if_true]
            rw [ih]; unfold rerootPath
            by_cases hr : (pathView o).1 = x
            · simp only [hr, if_true]
              cases hss : (pathView o).2 with
              | nil => exact absurd hss (pathView_attr_ne_nil o hoa)
              | cons s rest => simp [buildPath_snoc]
            · simp [hr]
          · have hoa' : isAttr o = false := by simpa using hoa
            simp [hoa', pathView_nonAttr o hoa', hox]
      · rw [h'] at ht; cases ht
  | .list _, ht => by simp [isAttr] at ht
  | .tuple _, ht => by simp [isAttr] at ht
  | .str _, ht => by simp [isAttr] at ht
  | .none, ht => by simp [isAttr] at ht

mutual
theorem strip_reroot (x : Tree) (hx : isAttr x = false) :
    (t : Tree) → wf t = true → strip x t = reroot x t
  | .node k fs, h => by
      by_cases ha : isAttr (.node k fs) = true
      · rw [strip_path x hx _ ha]; simp [reroot, ha]
      · have ha' : isAttr (.node k fs) = false := by simpa using ha
        rw [strip_nonAttr x k fs ha']
        simp [reroot, ha', stripFields_reroot x hx fs (by simpa [wf] using h)]
  | .list _, h => by simp [wf] at h
  | .tuple _, _ => by simp [strip, reroot]
  | .str _, _ => by simp [strip, reroot]
  | .none, _ => by simp [strip, reroot]
theorem stripFields_reroot (x : Tree) (hx : isAttr x = false) :
    (fs : TreeList) → wfFields fs = true → stripFields x fs = rerootList x fs
  | .nil, _ => by simp [stripFields, rerootList]
  | .cons (.list items) rest, h => by
      simp [wfFields] at h
      simp [stripFields, rerootList, reroot, stripItems_reroot x hx items h.1, stripFields_reroot x hx rest h.2]
  | .cons (.node k fs) rest, h => by
      simp [wfFields] at h
      simp [stripFields, rerootList, strip_reroot x hx (.node k fs) h.1, stripFields_reroot x hx rest h.2]
  | .cons (.tuple _) rest, h => by
      simp [wfFields] at h
      simp [stripFields, rerootList, reroot, stripFields_reroot x hx rest h]
  | .cons (.str _) rest, h => by
      simp [wfFields] at h
      simp [stripFields, rerootList, reroot, stripFields_reroot x hx rest h]
  | .cons .none rest, h => by
      simp [wfFields] at h
      simp [stripFields, rerootList, reroot, stripFields_reroot x hx rest h]
theorem stripItems_reroot (x : Tree) (hx : isAttr x = false) :
    (xs : TreeList) → wfItems xs = true → stripItems x xs = rerootList x xs
  | .nil, _ => by simp [stripItems, rerootList]
  | .cons (.node k fs) rest, h => by
      simp [wfItems] at h
      simp [stripItems, rerootList, strip_reroot x hx (.node k fs) h.1, stripItems_reroot x hx rest h.2]
  | .cons (.list _) _, h => by simp [wfItems] at h
  | .cons (.tuple _) _, h => by simp [wfItems] at h
  | .cons (.str _) _, h => by simp [wfItems] at h
  | .cons .none _, h => by simp [wfItems] at h
end

/-- **C17**: for every variable (any non-path node, in particular every `Identifier`) and every
    well-shaped tree, the expression made relative to the variable is the re-rooted expression. -/
theorem strip_eq_reroot (x t : Tree) (hx : isAttr x = false) (ht : wf t = true) :
    strip x t = reroot x t := strip_reroot x hx t ht

/-- … in particular for every AST the typed view embeds to and every identifier -/
theorem strip_eq_reroot_expr (v : Ident) (e : Expr) :
    strip v.toTree e.toTree = reroot v.toTree e.toTree :=
  strip_eq_reroot _ _ (by simp [Ident.toTree, isAttr]) (C16.wf_toTree e)

mutual
theorem reroot_absent (x : Tree) : (t : Tree) → mentions x t = false → reroot x t = t
  | .node k fs, h => by
      simp [mentions] at h
      by_cases ha : isAttr (.node k fs) = true
      · have : ¬ (pathView (.node k fs)).1 = x := h.1 ha
        simp [reroot, ha, rerootPath, this]
      · have ha' : isAttr (.node k fs) = false := by simpa using ha
        simp [reroot, ha', rerootList_absent x fs h.2]
  | .list items, h => by
      simp [mentions] at h
      simp [reroot, rerootList_absent x items h]
  | .tuple _, _ => by simp [reroot]
  | .str _, _ => by simp [reroot]
  | .none, _ => by simp [reroot]
theorem rerootList_absent (x : Tree) : (ts : TreeList) → mentionsList x ts = false → rerootList x ts = ts
  | .nil, _ => by simp [rerootList]
  | .cons h t, hh => by
      simp [mentionsList] at hh
      simp [rerootList, reroot_absent x h hh.1, rerootList_absent x t hh.2]
end

/-- **absent_id**: applied to an expression that does not mention the variable it is the identity -/
theorem absent_id (x t : Tree) (hx : isAttr x = false) (ht : wf t = true)
    (hm : mentions x t = false) : strip x t = t := by
  rw [strip_eq_reroot x t hx ht]; exact reroot_absent x t hm

/-! non-vacuity -/
def xv : Ident := ⟨['x'], []⟩
def body : Expr :=
  .boolop .and_
    (.compare .eq (.attr (.attr (.ident xv) ['a']) ['b']) (.attr (.ident ⟨['y'], []⟩) ['a']))
    (.compare .in_ (.attr (.ident xv) ['c']) (.list (.cons (.attr (.ident ⟨['x'], [['n']]⟩) ['c']) .nil)))
example : strip xv.toTree body.toTree =
    (Expr.boolop .and_
      (.compare .eq (.attr (.ident ⟨['a'], []⟩) ['b']) (.attr (.ident ⟨['y'], []⟩) ['a']))
      (.compare .in_ (.ident ⟨['c'], []⟩) (.list (.cons (.attr (.ident ⟨['x'], [['n']]⟩) ['c']) .nil)))).toTree := by
  decide
example : mentions xv.toTree body.toTree = true := by decide

end OQ.C17
