/-
  Props/C06Image.lean — what the lexer guarantees about the texts inside the AST of an ACCEPTED filter: the decidable
  side conditions `litOk` (C07 `lex_pieces`, C09 `parse_mirror`) and `durOk` (C12 `sql_never_leaks`) hold for every tree
  the lexer + parser return on an ASCII filter text — so those theorems apply to every accepted ASCII filter, with no
  hypothesis left about literal shapes.  (Non-ASCII digits are accepted by the lexer's `\d` and copied into numeric
  literals: for such filters `litOk` is false — a recorded limitation of the SQL dialects, see DESIGN §7 D10.)
-/
import ODataVerif.Model.Lexer
import ODataVerif.Model.Parser
import ODataVerif.Model.SqlPieces
import ODataVerif.Lemmas.SqlTotal
import ODataVerif.Lemmas.Totality
import ODataVerif.Lemmas.LexImage
import ODataVerif.Lemmas.LexRest
import ODataVerif.Lemmas.LexDur
import ODataVerif.Lemmas.ParseImage
namespace OQ.C06

def isAsciiChar (c : Char) : Bool := c.toNat < 128

/-- the payload of a token has the shape its rule's regular expression guarantees -/
def tokShapeOk : Tok → Bool
  | .lit k v => litTextOk pyCharEnv.isDigit k v && SqlTotal.durLitOk pyCharEnv.isDigit k v
  | .ident i => !i.name.contains '"' && i.ns.all (fun n => !n.contains '"')
  | _ => true

/-- a text that is `TRUE` / `FALSE` after upper-casing contains no double quote -/
theorem boolText_nodq (v : Str) (h : boolText v = true) : (!v.contains '"') = true := by
  cases hc : v.contains '"' with
  | false => rfl
  | true =>
    exfalso
    have hm : '"' ∈ v := by simpa using hc
    have hm' : pyUpperC '"' ∈ pyUpper v := List.mem_map_of_mem hm
    have e : pyUpperC '"' = '"' := by decide
    rw [e] at hm'
    simp only [boolText, Bool.or_eq_true, beq_iff_eq] at h
    rcases h with h | h <;> (rw [h] at hm'; revert hm'; decide)

/-- the token of the two BOOLEAN rules (`boolOrIdent`) has the guaranteed shape in both cases -/
theorem boolOrIdent_shape (v : Str) (h : boolText v = true) : tokShapeOk (boolOrIdent v) = true := by
  unfold boolOrIdent
  split
  · simp [tokShapeOk, litTextOk, SqlTotal.durLitOk, h]
  · simp only [tokShapeOk, boolText_nodq v h]; rfl

open LexImage in
/-- one lexer step on ASCII input yields a token of the guaranteed shape -/
theorem lexOne_shape (cs : List Char) (t : Tok) (r : List Char) (ha : cs.all isAsciiChar = true)
    (h : lexOne pyCharEnv cs = some (t, r)) : tokShapeOk t = true := by
  have ha' : cs.all LexImage.isAscii = true := ha
  unfold lexOne at h
  repeat' (split at h)
  all_goals first
    | (simp only [Option.some.injEq, Prod.mk.injEq] at h; obtain ⟨rfl, -⟩ := h
       first
        | rfl
        | (obtain ⟨p, hp, hok⟩ := scanDuration_ok _ _ _ ha' ‹_›
           simp only [D] at hp
           simp [tokShapeOk, litTextOk, SqlTotal.durLitOk, hp, hok]; done)
        | (have hq := scanGuid_noq _ _ _ ‹_›
           simpa [tokShapeOk, litTextOk, SqlTotal.durLitOk] using hq)
        | (have hq := scanDateTime_noq _ _ _ ‹_›
           simpa [tokShapeOk, litTextOk, SqlTotal.durLitOk] using hq)
        | (have hq := scanDatePart_noq _ _ _ ‹_›
           simpa [tokShapeOk, litTextOk, SqlTotal.durLitOk] using hq)
        | (have hq := scanTime_noq _ _ _ ‹_›
           simpa [tokShapeOk, litTextOk, SqlTotal.durLitOk] using hq)
        | (have hq := scanDecimal_num _ _ _ ha' ‹_›
           simp [tokShapeOk, litTextOk, SqlTotal.durLitOk, hq]; done)
        | (have hq := scanInteger_num _ _ _ ha' ‹_›
           simp [tokShapeOk, litTextOk, SqlTotal.durLitOk, hq]; done)
        | exact boolOrIdent_shape _ (scanWord_true _ _ _ ha' ‹_›)
        | exact boolOrIdent_shape _ (scanWord_false _ _ _ ha' ‹_›)
        | (have := scanIdent_nodq _ _ _ ‹_›
           simp only [tokShapeOk, this.1, this.2]; rfl))
    | simp at h

/-- … hence every token of an ASCII text -/
theorem lexFuel_shape : ∀ (f pos : Nat) (cs : List Char), cs.all isAsciiChar = true →
    (lexFuel pyCharEnv f pos cs).toks.all tokShapeOk = true
  | 0, _, _, _ => rfl
  | _ + 1, _, [], _ => rfl
  | f + 1, pos, c :: cs, ha => by
    simp only [lexFuel]
    cases hl : lexOne pyCharEnv (c :: cs) with
    | none => rfl
    | some p =>
      obtain ⟨t, r⟩ := p
      have h1 := lexOne_shape _ _ _ ha hl
      have h2 := LexImage.lexOne_rest pyCharEnv isAsciiChar _ _ _ hl ha
      simp only [List.all_cons, h1, Bool.true_and]
      exact lexFuel_shape f _ r h2

theorem lexAll_shape (s : Str) (ha : s.all isAsciiChar = true) :
    (lexAll pyCharEnv s).toks.all tokShapeOk = true :=
  lexFuel_shape _ _ _ ha

/-- MAIN THEOREM: for every accepted ASCII filter, the literal-shape hypotheses of the SQL theorems hold, for every dialect -/
theorem accepted_litOk (s : Str) (e : Expr) (d : Dialect) (ha : s.all isAsciiChar = true)
    (h : parseText pyCharEnv s = .ok e) :
    litOk pyCharEnv.isDigit d e = true ∧ SqlTotal.durOk pyCharEnv.isDigit e = true := by
  unfold parseText at h
  refine ParseImage.parseToks_litOk pyCharEnv.isDigit tokShapeOk ?_ ?_ d _ _ e (lexAll_shape s ha) h
  · intro k v hk
    simpa [tokShapeOk] using hk
  · intro i hi
    simp only [tokShapeOk, Bool.and_eq_true, Bool.not_eq_true'] at hi
    exact hi.1

end OQ.C06
