/-
  Props/C13Roundtrip.lean — "AST -> OData text -> AST is the identity", token level.
  The printer model (`rtRender`, Model/Printer.lean) writes exactly the spelling of the reference token
  list in the printer's own whitespace style and parenthesisation mode (`Spec.Mode.printer`), and those
  tokens parse back to the tree (instance of C05.parse_printToks).  Helper lemmas: Lemmas/Render.lean.
-/
import ODataVerif.Lemmas.Render
import ODataVerif.Props.C05Roundtrip
namespace OQ.C13
open Spec

/-- the printer's whitespace: "- x", "a, b", "v: body", nothing inside parentheses -/
def rtStyle : Spec.Style := { afterMinus := true, afterComma := true, afterColon := true }

/-! ### the printer's parenthesisation rule is exactly `needsParen .printer` on the specification's levels -/

theorem rtParen_arith (o : ArithOp) (l r c : Expr) (strict : Bool) :
    rtParenNeeded c o.className strict = Spec.needsParen .printer (Spec.level (.binop o l r)) strict c :=
  RT.rtParen_arith o l r c strict

theorem rtParen_bool (o : BoolOp) (l r c : Expr) (strict : Bool) :
    rtParenNeeded c o.className strict = Spec.needsParen .printer (Spec.level (.boolop o l r)) strict c :=
  RT.rtParen_bool o l r c strict

theorem rtParen_cmp (o : CmpOp) (ho : o ≠ .in_) (l r c : Expr) (strict : Bool) :
    rtParenNeeded c o.className strict = Spec.needsParen .printer (Spec.level (.compare o l r)) strict c :=
  RT.rtParen_cmp o ho l r c strict

theorem rtParen_in (c : Expr) : rtParenNeeded c "In" false = Spec.needsParen .printer 8 false c :=
  RT.rtParen_in c

theorem rtParen_unary (o : UnOp) (c : Expr) :
    rtParenNeeded c o.className false = Spec.needsParen .printer 7 false c :=
  RT.rtParen_unary o c

/-! ### text -/

/-- the printer's text is the spelling of the reference token list in its own style and mode —
    for every tree in which the right operand of each `in` is something the printer leaves
    un-parenthesised (`RT.rtOk`, decidable; weaker than `printable`) -/
theorem rtRender_eq_render_of_rtOk (e : Expr) (h : RT.rtOk e = true) :
    rtRender e = Spec.render (Spec.printToks rtStyle .printer e) :=
  RT.rtRender_eq_of_rtOk e h

/-- the printer's text is the spelling of the reference token list in its own style and mode -/
theorem rtRender_eq_render (e : Expr) (h : Spec.printable e = true) :
    rtRender e = Spec.render (Spec.printToks rtStyle .printer e) :=
  RT.rtRender_eq_of_rtOk e (RT.rtOk_of_printable e (Or.inl h))

/-- token-level C13: the tokens the printer's text spells parse back to the tree -/
theorem roundtrip_tokens (e : Expr) (h : Spec.printable e = true) :
    parseToks none (Spec.printToks rtStyle .printer e) = .ok e :=
  C05.parse_printToks rtStyle .printer e h

/-- both halves together: the printer's text *is* a spelling of a token list that parses back -/
theorem roundtrip_text_tokens (e : Expr) (h : Spec.printable e = true) :
    ∃ ts, rtRender e = Spec.render ts ∧ parseToks none ts = .ok e :=
  ⟨_, rtRender_eq_render e h, roundtrip_tokens e h⟩

/-! non-vacuity and the shapes singled out in the design notes -/

example : Spec.printable C05.sampleTree = true := by decide
example : RT.rtOk C05.sampleTree = true := by decide
/-- singleton list: `(1,)`, no blank before the closing parenthesis -/
example : Spec.render (Spec.printToks rtStyle .printer
      (.compare .in_ (.ident ⟨['a'], []⟩) (.list (.cons (.lit .int ['1']) .nil))))
    = "a in (1,)".toList := by
  rw [← rtRender_eq_render _ (by decide)]; decide
/-- a path on the left of `in` is parenthesised by the printer (and by `Mode.printer`) -/
example : rtRender (.compare .in_ (.attr (.ident ⟨['a'], []⟩) ['b'])
      (.list (.cons (.lit .int ['1']) (.cons (.lit .int ['2']) .nil))))
    = "(a/b) in (1, 2)".toList := by decide
/-- `rtOk` is needed: an `in` whose right operand is not a list is rendered with parentheses by the
    printer model, without by the reference printer (such trees are not printable / never parsed) -/
example : rtRender (.compare .in_ (.ident ⟨['a'], []⟩) (.binop .add (.ident ⟨['b'], []⟩) (.ident ⟨['c'], []⟩)))
    = "a in (b add c)".toList := by decide

end OQ.C13
