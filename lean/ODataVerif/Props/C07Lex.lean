/-
  Props/C07Lex.lean — the text the SQL visitors' model produces is read back by the independent SQL
  tokeniser as exactly the tokens its pieces stand for: whatever a string literal contains, it is ONE
  string-literal token; whatever a field is called, it is ONE quoted identifier.
-/
import ODataVerif.Model.SqlPieces
import ODataVerif.Lemmas.SqlLexing
namespace OQ.C07
open Spec

/-- MAIN THEOREM (C07, lexing): for every dialect, alias and filter whose literal texts have the shapes the
    lexer guarantees, the emitted characters tokenise to exactly `pieceToks` of the emitted pieces. -/
theorem lex_pieces (isD : Char → Bool) (d : Dialect) (al : Option Str) (e : Expr) (ps : List Piece)
    (hl : litOk isD d e = true) (ha : aliasOk al = true)
    (hv : sqlVisit isD d al e = .ok ps) :
    sqlLex (renderPieces ps) = some (pieceToks ps) := by
  have hg := SqlLexing.good_visit isD d al ha e ps hl hv
  have h := hg [] [] rfl rfl
  simpa [sqlLex] using h

/-- the same for the text `sqlText` returns: it is the rendering of the emitted pieces and tokenises to
    exactly their tokens -/
theorem lex_text (isD : Char → Bool) (d : Dialect) (al : Option Str) (e : Expr) (s : Str)
    (hl : litOk isD d e = true) (ha : aliasOk al = true)
    (ht : sqlText isD d al e = .ok s) :
    ∃ ps, sqlVisit isD d al e = .ok ps ∧ s = renderPieces ps ∧ sqlLex s = some (pieceToks ps) := by
  unfold sqlText at ht
  cases hv : sqlVisit isD d al e with
  | ok ps =>
    rw [hv] at ht
    simp only [Outcome.bind, Outcome.ok.injEq] at ht
    subst ht
    exact ⟨ps, rfl, rfl, lex_pieces isD d al e ps hl ha hv⟩
  | lib x => rw [hv] at ht; cases ht
  | notImplemented => rw [hv] at ht; cases ht
  | foreign c => rw [hv] at ht; cases ht

end OQ.C07
