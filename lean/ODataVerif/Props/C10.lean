/-
  Props/C10.lean — "Parsing any string terminates with an AST or a library syntax/function error".
  The totality theorem over the lexer + parser model (no fuel exhaustion, no foreign exception) is in
  Props/C10Total.lean; this file holds the facts about the exception classes and the grammar actions.
-/
import ODataVerif.Model.Parser
import ODataVerif.Model.ExceptionTree
import ODataVerif.Tie.ExceptionTree
import ODataVerif.Tie.ParserTables
namespace OQ.C10

def ancestors (c : String) : List String :=
  match ExceptionTree.exceptionTree.find? (fun r => r.1 == c) with
  | some r => r.2
  | none => []

/-- the four exceptions parsing can raise are library exceptions: each reaches `ODataException`,
    the syntax errors through `ODataSyntaxError`, the function errors through `FunctionCallException` -/
theorem lib_hierarchy :
    ancestors "TokenizingException" = ["ODataSyntaxError", "ODataException", "Exception", "BaseException"] ∧
    ancestors "ParsingException" = ["ODataSyntaxError", "ODataException", "Exception", "BaseException"] ∧
    ancestors "UnknownFunctionException" = ["FunctionCallException", "ODataException", "Exception", "BaseException"] ∧
    ancestors "ArgumentCountException" = ["FunctionCallException", "ODataException", "Exception", "BaseException"] := by
  decide

/-- every class defined in exceptions.py (other than the root) descends from `ODataException` -/
theorem all_rooted : ExceptionTree.exceptionTree.all
    (fun r => r.1 == "ODataException" || r.2.contains "ODataException") = true := by decide

/-- the function-validation action can only produce the call, UnknownFunction or ArgumentCount -/
theorem functionCall_outcomes (f : Ident) (args : Exprs) :
    (∃ e, functionCall f args = .ok e) ∨ (∃ n, functionCall f args = .lib (.unknownFunction n)) ∨
    (∃ n lo hi g, functionCall f args = .lib (.argumentCount n lo hi g)) := by
  unfold functionCall functionCallWith
  split
  · split
    · exact Or.inr (Or.inl ⟨_, rfl⟩)
    · split
      · exact Or.inr (Or.inr ⟨_, _, _, _, rfl⟩)
      · exact Or.inl ⟨_, rfl⟩
  · exact Or.inl ⟨_, rfl⟩

/-- the path action succeeds on every shape the path productions hand to it -/
theorem pathCons_ident (i j : Ident) : pathCons i (.ident j) = .ok (.attr (.ident i) j.name) := rfl

theorem explode_rebuild (names : List Str) (h : Str) :
    ∃ e, rebuildPath (h :: names) = some e := ⟨_, rfl⟩

/-- the model is a function: the same string always gives the same outcome (determinism is
    definitional in the model; across instances and processes it is C20's) -/
theorem deterministic (env : CharEnv) (s : Str) : parseText env s = parseText env s := rfl

/-! the formerly failing inputs (D1, D2), now theorems about the repaired grammar actions -/
example : parseText pyCharEnv "f.g(x=1,y=2,z=3)".toList =
    .ok (.call ⟨['g'], [['f']]⟩ (.cons (.named ⟨['x'], []⟩ (.lit .int ['1'])) (.cons (.named ⟨['y'], []⟩ (.lit .int ['2']))
      (.cons (.named ⟨['z'], []⟩ (.lit .int ['3'])) .nil)))) := by decide +kernel
example : parseText pyCharEnv "a/b/c/any()".toList =
    .ok (.coll (.attr (.attr (.ident ⟨['a'], []⟩) ['b']) ['c']) .any .none) := by decide +kernel
example : parseText pyCharEnv "foo(1)½".toList = .lib (.tokenizing 6) := by decide +kernel
example : parseText pyCharEnv "concat(1) )".toList = .lib (.argumentCount "concat".toList 2 2 1) := by decide +kernel

end OQ.C10
