/-
  Props/C10Image.lean — the image of the parser: every tree `parseText` returns is `Spec.printable` (lists are non-empty,
  the right operand of `in` is a list, paths hang off identifiers, lambda owners are paths, `all` has a lambda, named parameters
  occur only as call arguments, built-in calls have an admissible argument count).  This discharges, for EVERY ACCEPTED FILTER,
  the hypothesis `printable e` of the round-trip theorems (C05, C13, C19) and `callsOk e` of C12's `sql_never_leaks`.
-/
import ODataVerif.Model.Lexer
import ODataVerif.Model.Parser
import ODataVerif.Spec.RefPrinter
import ODataVerif.Lemmas.Totality
import ODataVerif.Lemmas.ParserImage
namespace OQ.C10
open Spec

/-- every tree the token-level parser returns is in the printable image -/
theorem parseToks_printable (lexErr : Option Nat) (ts : List Tok) (e : Expr) (h : parseToks lexErr ts = .ok e) :
    printable e = true := by
  unfold parseToks at h
  cases hp : parseExpr lexErr.isSome (parseFuel ts) 0 ts with
  | error err =>
    rw [hp] at h
    cases err with
    | exc o => cases o <;> simp at h
    | _ => simp at h
  | ok p =>
    obtain ⟨e', r⟩ := p
    rw [hp] at h
    cases r with
    | cons t r' => simp at h
    | nil =>
      cases lexErr with
      | some i => simp at h
      | none =>
        simp only [Outcome.ok.injEq] at h
        subst h
        exact ParserImage.parseExpr_printable _ _ _ _ _ _ hp

/-- every accepted filter text parses to a printable tree -/
theorem parse_image (env : CharEnv) (s : Str) (e : Expr) (h : parseText env s = .ok e) : printable e = true :=
  parseToks_printable _ _ e h

/-! non-vacuity: accepted inputs exercising the suspicious productions (namespaced root of a path, namespaced lambda owner,
    `any()` without lambda, singleton list, named parameters, a call whose only argument is a list) -/
example : ∃ e, parseToks none [.ident ⟨"a".toList, ["n".toList]⟩, .slash, .ident ⟨"b".toList, ["m".toList]⟩, .slash,
    .ident ⟨"c".toList, []⟩] = .ok e ∧ printable e = true := ⟨_, rfl, by decide⟩
example : ∃ e, parseToks none [.ident ⟨"a".toList, ["n".toList]⟩, .slash, .any, .lp, .rp] = .ok e ∧ printable e = true :=
  ⟨_, rfl, by decide⟩
example : ∃ e, parseToks none [.ident ⟨"f".toList, ["x".toList]⟩, .lp, .lp, .lit .int ['1'], .comma, .rp, .rp] = .ok e
    ∧ printable e = true := ⟨_, rfl, by decide⟩
example : ∃ e, parseToks none [.ident ⟨"f".toList, ["x".toList]⟩, .lp, .ident ⟨"p".toList, []⟩, .eqs, .lit .int ['1'],
    .comma, .ident ⟨"q".toList, []⟩, .eqs, .lit .int ['2'], .rp] = .ok e ∧ printable e = true := ⟨_, rfl, by decide⟩

end OQ.C10
