/-
  Props/C02.lean — "Django apply_odata_query returns exactly the objects the filter denotes", for the typed scalar
  fragment (Spec/ODataSem.lean), about the model of the Django visitor (Model/Orm.lean `djBuild`) composed with the
  environment model of Django's compiler on SQLite (Spec/OrmSql.lean `djSql`) and of SQLite (Spec/SqliteSem.lean).

  * `dj_never_leaks`   the visitor model returns a tree or a library exception for every typed filter
  * `dj_translates`    … and a tree for every filter of `djFrag` (no unary minus; no bare Boolean field / literal
                       as a condition — both are refused with the library's TypeException)
  * `sound`            for every typed filter b the visitor translates and every row ρ inside `semOkDj`, the SQL Django
                       compiles selects ρ iff OData's three-valued semantics makes b true on ρ
-/
import ODataVerif.Props.C01
import ODataVerif.Spec.OrmSql
import ODataVerif.Spec.OrmSemOk
import ODataVerif.Lemmas.DjangoSound
import ODataVerif.Lemmas.DjangoSoundB
import ODataVerif.Lemmas.SqlTotal
namespace OQ.C02
open Spec SqliteSound DjangoSound

mutual
def noNegI : IntE → Bool
  | .lit _ _ | .col _ => true
  | .neg _ => false
  | .arith _ l r => noNegI l && noNegI r
  | .length s => noNegS s
  | .indexof a b => noNegS a && noNegS b
def noNegS : StrE → Bool
  | .lit _ | .col _ => true
  | .concat a b => noNegS a && noNegS b
  | .substring s i => noNegS s && noNegI i
  | .substring3 s i n => noNegS s && noNegI i && noNegI n
  | .tolower s | .toupper s | .trim s => noNegS s
end
def noNegIs : List IntE → Bool
  | [] => true
  | e :: t => noNegI e && noNegIs t
def noNegSs : List StrE → Bool
  | [] => true
  | e :: t => noNegS e && noNegSs t

/-- a bare Boolean field or literal is not a condition the Django backend accepts -/
def isCond : BoolE → Bool
  | .col _ | .lit _ => false
  | _ => true

/-- the filters the Django visitor translates: `cond = true` for positions where a condition is required
    (top level, operands of and / or / not), `false` for operands of eq / ne -/
def djFragAux : Bool → BoolE → Bool
  | _, .cmpI _ l r => noNegI l && noNegI r
  | _, .cmpS _ l r => noNegS l && noNegS r
  | _, .cmpB k l r => (k == .eq || k == .ne) && djFragAux false l && djFragAux false r
  | _, .isNull _ _ _ => true
  | _, .inI e xs => noNegI e && noNegIs xs
  | _, .inS e xs => noNegS e && noNegSs xs
  | _, .and l r => djFragAux true l && djFragAux true r
  | _, .or l r => djFragAux true l && djFragAux true r
  | _, .not e => djFragAux true e
  | _, .like _ a b => noNegS a && noNegS b
  | cond, .col _ => !cond
  | cond, .lit _ => !cond
def djFrag (b : BoolE) : Bool := djFragAux true b

/-! ### what the visitor returns on the embedded terms: kinds, and no unary minus in a translated term -/
theorem bind_ok_eq {α β} (a : α) (f : α → Outcome β) : (Outcome.ok a).bind f = f a := rfl

theorem clean_bind' {α β} (x : Outcome α) (f : α → Outcome β) (hx : SqlTotal.clean x = true)
    (hf : ∀ a, x = .ok a → SqlTotal.clean (f a) = true) : SqlTotal.clean (x.bind f) = true := by
  cases x with
  | ok a => exact hf a rfl
  | lib e => rfl
  | notImplemented => cases hx
  | foreign c => cases hx

theorem substrTypecheck_ok (a b : Expr) (ha : strTy (inferType a)) (hb : strTy (inferType b)) :
    substrTypecheck a b = .ok () := by
  rcases ha with ha | ha <;> rcases hb with hb | hb <;> simp [substrTypecheck, ha, hb]

def valKind (k : OKind) : Prop := k = .field ∨ k = .value ∨ k = .expr
def condKind (k : OKind) : Prop := k = .cond ∨ k = .field ∨ k = .value

mutual
theorem okI : (e : IntE) → ∀ t k, djVisit e.toExpr = .ok (t, k) → noNegI e = true ∧ valKind k
  | .lit neg ds, t, k, hv => by
      rw [IntE.toExpr, visit_litInt] at hv
      cases hv
      exact ⟨rfl, .inr (.inl rfl)⟩
  | .col c, t, k, hv => by
      rw [IntE.toExpr, visit_ident] at hv
      cases hv
      exact ⟨rfl, .inl rfl⟩
  | .neg e, t, k, hv => by
      rw [IntE.toExpr] at hv
      exact (unary_neg_not_ok hv).elim
  | .arith op l r, t, k, hv => by
      rw [IntE.toExpr, visit_binop] at hv
      obtain ⟨⟨a, ka⟩, hp, hv⟩ := bind_eq_ok hv
      obtain ⟨⟨b, kb⟩, hq, hv⟩ := bind_eq_ok hv
      dsimp only at hv
      split at hv
      · cases hv
      · cases hv
        rw [noNegI, (okI l a ka hp).1, (okI r b kb hq).1]
        exact ⟨rfl, .inr (.inr rfl)⟩
  | .length s, t, k, hv => by
      rw [IntE.toExpr, visit_length] at hv
      obtain ⟨⟨a, ka⟩, hp, hv⟩ := bind_eq_ok hv
      cases hv
      rw [noNegI, okS s a ka hp]
      exact ⟨rfl, .inr (.inr rfl)⟩
  | .indexof x y, t, k, hv => by
      rw [IntE.toExpr, visit_indexof] at hv
      obtain ⟨⟨a, ka⟩, hp, hv⟩ := bind_eq_ok hv
      obtain ⟨⟨b, kb⟩, hq, hv⟩ := bind_eq_ok hv
      cases hv
      rw [noNegI, okS x a ka hp, okS y b kb hq]
      exact ⟨rfl, .inr (.inr rfl)⟩
theorem okS : (e : StrE) → ∀ t k, djVisit e.toExpr = .ok (t, k) → noNegS e = true
  | .lit s, _, _, _ => rfl
  | .col c, _, _, _ => rfl
  | .concat x y, t, k, hv => by
      rw [StrE.toExpr, visit_concat] at hv
      obtain ⟨⟨a, ka⟩, hp, hv⟩ := bind_eq_ok hv
      obtain ⟨⟨b, kb⟩, hq, hv⟩ := bind_eq_ok hv
      rw [noNegS, okS x a ka hp, okS y b kb hq]; rfl
  | .substring x i, t, k, hv => by
      rw [StrE.toExpr, visit_substring2] at hv
      obtain ⟨⟨a, ka⟩, hp, hv⟩ := bind_eq_ok hv
      obtain ⟨⟨b, kb⟩, hq, hv⟩ := bind_eq_ok hv
      rw [noNegS, okS x a ka hp, (okI i b kb hq).1]; rfl
  | .substring3 x i n, t, k, hv => by
      rw [StrE.toExpr, visit_substring3] at hv
      obtain ⟨⟨a, ka⟩, hp, hv⟩ := bind_eq_ok hv
      obtain ⟨⟨b, kb⟩, hq, hv⟩ := bind_eq_ok hv
      obtain ⟨⟨c, kc⟩, hr, hv⟩ := bind_eq_ok hv
      rw [noNegS, okS x a ka hp, (okI i b kb hq).1, (okI n c kc hr).1]; rfl
  | .tolower x, t, k, hv => by
      rw [StrE.toExpr, visit_tolower] at hv
      obtain ⟨⟨a, ka⟩, hp, hv⟩ := bind_eq_ok hv
      rw [noNegS, okS x a ka hp]
  | .toupper x, t, k, hv => by
      rw [StrE.toExpr, visit_toupper] at hv
      obtain ⟨⟨a, ka⟩, hp, hv⟩ := bind_eq_ok hv
      rw [noNegS, okS x a ka hp]
  | .trim x, t, k, hv => by
      rw [StrE.toExpr, visit_trim] at hv
      obtain ⟨⟨a, ka⟩, hp, hv⟩ := bind_eq_ok hv
      rw [noNegS, okS x a ka hp]
end

theorem okB : (b : BoolE) → ∀ t k, djVisit b.toExpr = .ok (t, k) → condKind k
  | .cmpI _ l r, t, k, hv => by
      rw [BoolE.toExpr, visit_compare _ _ _ (C01.isNullLit_I l) (C01.isNullLit_I r)] at hv
      obtain ⟨_, _, hv⟩ := bind_eq_ok hv
      obtain ⟨_, _, hv⟩ := bind_eq_ok hv
      cases hv; exact .inl rfl
  | .cmpS _ l r, t, k, hv => by
      rw [BoolE.toExpr, visit_compare _ _ _ (C01.isNullLit_S l) (C01.isNullLit_S r)] at hv
      obtain ⟨_, _, hv⟩ := bind_eq_ok hv
      obtain ⟨_, _, hv⟩ := bind_eq_ok hv
      cases hv; exact .inl rfl
  | .cmpB _ l r, t, k, hv => by
      rw [BoolE.toExpr, visit_compare _ _ _ (C01.isNullLit_B l) (C01.isNullLit_B r)] at hv
      obtain ⟨_, _, hv⟩ := bind_eq_ok hv
      obtain ⟨_, _, hv⟩ := bind_eq_ok hv
      cases hv; exact .inl rfl
  | .isNull _ c negated, t, k, hv => by
      rw [BoolE.toExpr, visit_isNull] at hv
      cases hv; exact .inl rfl
  | .inI e xs, t, k, hv => by
      rw [BoolE.toExpr, visit_compare _ _ _ (C01.isNullLit_I e) rfl] at hv
      obtain ⟨_, _, hv⟩ := bind_eq_ok hv
      obtain ⟨_, _, hv⟩ := bind_eq_ok hv
      cases hv; exact .inl rfl
  | .inS e xs, t, k, hv => by
      rw [BoolE.toExpr, visit_compare _ _ _ (C01.isNullLit_S e) rfl] at hv
      obtain ⟨_, _, hv⟩ := bind_eq_ok hv
      obtain ⟨_, _, hv⟩ := bind_eq_ok hv
      cases hv; exact .inl rfl
  | .and l r, t, k, hv => by
      rw [BoolE.toExpr, visit_boolop] at hv
      obtain ⟨_, _, hv⟩ := bind_eq_ok hv
      obtain ⟨_, _, hv⟩ := bind_eq_ok hv
      split at hv
      · cases hv
      · split at hv
        · cases hv
        · cases hv; exact .inl rfl
  | .or l r, t, k, hv => by
      rw [BoolE.toExpr, visit_boolop] at hv
      obtain ⟨_, _, hv⟩ := bind_eq_ok hv
      obtain ⟨_, _, hv⟩ := bind_eq_ok hv
      split at hv
      · cases hv
      · split at hv
        · cases hv
        · cases hv; exact .inl rfl
  | .not e, t, k, hv => by
      rw [BoolE.toExpr, visit_unary] at hv
      obtain ⟨_, _, hv⟩ := bind_eq_ok hv
      split at hv
      · cases hv
      · rw [if_neg (by decide)] at hv
        split at hv
        · cases hv
        · cases hv; exact .inl rfl
  | .like k x y, t, kk, hv => by
      rw [BoolE.toExpr, visit_like] at hv
      obtain ⟨_, _, hv⟩ := bind_eq_ok hv
      obtain ⟨_, _, hv⟩ := bind_eq_ok hv
      obtain ⟨_, _, hv⟩ := bind_eq_ok hv
      cases hv; exact .inl rfl
  | .col c, t, k, hv => by
      rw [BoolE.toExpr, visit_ident] at hv
      cases hv; exact .inr (.inl rfl)
  | .lit b, t, k, hv => by
      rw [BoolE.toExpr, visit_litBool] at hv
      cases hv; exact .inr (.inr rfl)

/-! ### the visitor never leaks on the embedded terms -/
open SqlTotal in
mutual
theorem cleanI : (e : IntE) → clean (djVisit e.toExpr) = true
  | .lit neg ds => by rw [IntE.toExpr, visit_litInt]; rfl
  | .col c => by rw [IntE.toExpr, visit_ident]; rfl
  | .neg e => by
      rw [IntE.toExpr, visit_unary]
      refine clean_bind' _ _ (cleanI e) ?_
      intro p _
      split
      · rfl
      · rw [if_pos (by decide)]; rfl
  | .arith op l r => by
      rw [IntE.toExpr, visit_binop]
      refine clean_bind' _ _ (cleanI l) ?_
      intro ⟨a, ka⟩ hp
      refine clean_bind' _ _ (cleanI r) ?_
      intro ⟨b, kb⟩ hq
      rcases (okI l a ka hp).2 with rfl | rfl | rfl <;> rcases (okI r b kb hq).2 with rfl | rfl | rfl <;> rfl
  | .length s => by
      rw [IntE.toExpr, visit_length]
      exact clean_bind' _ _ (cleanS s) (fun _ _ => rfl)
  | .indexof x y => by
      rw [IntE.toExpr, visit_indexof]
      exact clean_bind' _ _ (cleanS x) (fun _ _ => clean_bind' _ _ (cleanS y) (fun _ _ => rfl))
theorem cleanS : (e : StrE) → clean (djVisit e.toExpr) = true
  | .lit s => by rw [StrE.toExpr, visit_litStr]; rfl
  | .col c => by rw [StrE.toExpr, visit_ident]; rfl
  | .concat x y => by
      rw [StrE.toExpr, visit_concat]
      exact clean_bind' _ _ (cleanS x) (fun _ _ => clean_bind' _ _ (cleanS y) (fun _ _ => rfl))
  | .substring x i => by
      rw [StrE.toExpr, visit_substring2]
      exact clean_bind' _ _ (cleanS x) (fun _ _ => clean_bind' _ _ (cleanI i) (fun _ _ => rfl))
  | .substring3 x i n => by
      rw [StrE.toExpr, visit_substring3]
      exact clean_bind' _ _ (cleanS x) (fun _ _ => clean_bind' _ _ (cleanI i) (fun _ _ =>
        clean_bind' _ _ (cleanI n) (fun _ _ => rfl)))
  | .tolower x => by
      rw [StrE.toExpr, visit_tolower]
      exact clean_bind' _ _ (cleanS x) (fun _ _ => rfl)
  | .toupper x => by
      rw [StrE.toExpr, visit_toupper]
      exact clean_bind' _ _ (cleanS x) (fun _ _ => rfl)
  | .trim x => by
      rw [StrE.toExpr, visit_trim]
      exact clean_bind' _ _ (cleanS x) (fun _ _ => rfl)
end

open SqlTotal in
theorem cleanIs : (xs : List IntE) → clean (djVisitList (intsToExprs xs)) = true
  | [] => by rw [intsToExprs, visitList_nil]; rfl
  | e :: r => by
      rw [intsToExprs, visitList_cons]
      exact clean_bind' _ _ (cleanI e) (fun _ _ => clean_bind' _ _ (cleanIs r) (fun _ _ => rfl))
open SqlTotal in
theorem cleanSs : (xs : List StrE) → clean (djVisitList (strsToExprs xs)) = true
  | [] => by rw [strsToExprs, visitList_nil]; rfl
  | e :: r => by
      rw [strsToExprs, visitList_cons]
      exact clean_bind' _ _ (cleanS e) (fun _ _ => clean_bind' _ _ (cleanSs r) (fun _ _ => rfl))

open SqlTotal in
theorem cleanB : (b : BoolE) → clean (djVisit b.toExpr) = true
  | .cmpI _ l r => by
      rw [BoolE.toExpr, visit_compare _ _ _ (C01.isNullLit_I l) (C01.isNullLit_I r)]
      exact clean_bind' _ _ (cleanI l) (fun _ _ => clean_bind' _ _ (cleanI r) (fun _ _ => rfl))
  | .cmpS _ l r => by
      rw [BoolE.toExpr, visit_compare _ _ _ (C01.isNullLit_S l) (C01.isNullLit_S r)]
      exact clean_bind' _ _ (cleanS l) (fun _ _ => clean_bind' _ _ (cleanS r) (fun _ _ => rfl))
  | .cmpB _ l r => by
      rw [BoolE.toExpr, visit_compare _ _ _ (C01.isNullLit_B l) (C01.isNullLit_B r)]
      exact clean_bind' _ _ (cleanB l) (fun _ _ => clean_bind' _ _ (cleanB r) (fun _ _ => rfl))
  | .isNull _ c negated => by rw [BoolE.toExpr, visit_isNull]; rfl
  | .inI e xs => by
      rw [BoolE.toExpr, visit_compare _ _ _ (C01.isNullLit_I e) rfl, visit_list]
      exact clean_bind' _ _ (cleanI e) (fun _ _ =>
        clean_bind' _ _ (clean_bind' _ _ (cleanIs xs) (fun _ _ => rfl)) (fun _ _ => rfl))
  | .inS e xs => by
      rw [BoolE.toExpr, visit_compare _ _ _ (C01.isNullLit_S e) rfl, visit_list]
      exact clean_bind' _ _ (cleanS e) (fun _ _ =>
        clean_bind' _ _ (clean_bind' _ _ (cleanSs xs) (fun _ _ => rfl)) (fun _ _ => rfl))
  | .and l r => by
      rw [BoolE.toExpr, visit_boolop]
      refine clean_bind' _ _ (cleanB l) ?_
      intro ⟨a, ka⟩ hp
      refine clean_bind' _ _ (cleanB r) ?_
      intro ⟨b, kb⟩ hq
      rcases okB l a ka hp with rfl | rfl | rfl <;> rcases okB r b kb hq with rfl | rfl | rfl <;> rfl
  | .or l r => by
      rw [BoolE.toExpr, visit_boolop]
      refine clean_bind' _ _ (cleanB l) ?_
      intro ⟨a, ka⟩ hp
      refine clean_bind' _ _ (cleanB r) ?_
      intro ⟨b, kb⟩ hq
      rcases okB l a ka hp with rfl | rfl | rfl <;> rcases okB r b kb hq with rfl | rfl | rfl <;> rfl
  | .not e => by
      rw [BoolE.toExpr, visit_unary]
      refine clean_bind' _ _ (cleanB e) ?_
      intro ⟨a, ka⟩ hp
      rcases okB e a ka hp with rfl | rfl | rfl <;> rfl
  | .like k x y => by
      rw [BoolE.toExpr, visit_like, substrTypecheck_ok _ _ (strTy_toExpr x) (strTy_toExpr y), bind_ok_eq]
      exact clean_bind' _ _ (cleanS x) (fun _ _ => clean_bind' _ _ (cleanS y) (fun _ _ => rfl))
  | .col c => by rw [BoolE.toExpr, visit_ident]; rfl
  | .lit b => by rw [BoolE.toExpr, visit_litBool]; rfl

/-- the Django visitor model never leaks an internal error on a typed filter -/
theorem dj_never_leaks (b : BoolE) : SqlTotal.clean (djBuild b.toExpr) = true := by
  have hc := cleanB b
  rw [djBuild]
  cases hv : djVisit b.toExpr with
  | ok p =>
    obtain ⟨t, k⟩ := p
    rcases okB b t k hv with rfl | rfl | rfl <;> rfl
  | lib e => rfl
  | notImplemented => rw [hv] at hc; cases hc
  | foreign c => rw [hv] at hc; cases hc

/-! ### translation of the `djFrag` filters -/
mutual
theorem transI : (e : IntE) → noNegI e = true → ∃ t k, djVisit e.toExpr = .ok (t, k)
  | .lit neg ds, _ => ⟨_, _, by rw [IntE.toExpr, visit_litInt]⟩
  | .col c, _ => ⟨_, _, by rw [IntE.toExpr, visit_ident]⟩
  | .neg e, h => by simp [noNegI] at h
  | .arith op l r, h => by
      simp only [noNegI, Bool.and_eq_true] at h
      obtain ⟨a, ka, ha⟩ := transI l h.1
      obtain ⟨b, kb, hb⟩ := transI r h.2
      rw [IntE.toExpr, visit_binop, ha, hb, bind_ok_eq, bind_ok_eq]
      rcases (okI l a ka ha).2 with rfl | rfl | rfl <;> rcases (okI r b kb hb).2 with rfl | rfl | rfl <;>
        exact ⟨_, _, rfl⟩
  | .length s, h => by
      simp only [noNegI] at h
      obtain ⟨a, ka, ha⟩ := transS s h
      exact ⟨_, _, by rw [IntE.toExpr, visit_length, ha, bind_ok_eq]⟩
  | .indexof x y, h => by
      simp only [noNegI, Bool.and_eq_true] at h
      obtain ⟨a, ka, ha⟩ := transS x h.1
      obtain ⟨b, kb, hb⟩ := transS y h.2
      exact ⟨_, _, by rw [IntE.toExpr, visit_indexof, ha, hb, bind_ok_eq, bind_ok_eq]⟩
theorem transS : (e : StrE) → noNegS e = true → ∃ t k, djVisit e.toExpr = .ok (t, k)
  | .lit s, _ => ⟨_, _, by rw [StrE.toExpr, visit_litStr]⟩
  | .col c, _ => ⟨_, _, by rw [StrE.toExpr, visit_ident]⟩
  | .concat x y, h => by
      simp only [noNegS, Bool.and_eq_true] at h
      obtain ⟨a, ka, ha⟩ := transS x h.1
      obtain ⟨b, kb, hb⟩ := transS y h.2
      exact ⟨_, _, by rw [StrE.toExpr, visit_concat, ha, hb, bind_ok_eq, bind_ok_eq]⟩
  | .substring x i, h => by
      simp only [noNegS, Bool.and_eq_true] at h
      obtain ⟨a, ka, ha⟩ := transS x h.1
      obtain ⟨b, kb, hb⟩ := transI i h.2
      exact ⟨_, _, by rw [StrE.toExpr, visit_substring2, ha, hb, bind_ok_eq, bind_ok_eq]⟩
  | .substring3 x i n, h => by
      simp only [noNegS, Bool.and_eq_true] at h
      obtain ⟨a, ka, ha⟩ := transS x h.1.1
      obtain ⟨b, kb, hb⟩ := transI i h.1.2
      obtain ⟨c, kc, hc⟩ := transI n h.2
      exact ⟨_, _, by rw [StrE.toExpr, visit_substring3, ha, hb, hc, bind_ok_eq, bind_ok_eq, bind_ok_eq]⟩
  | .tolower x, h => by
      simp only [noNegS] at h
      obtain ⟨a, ka, ha⟩ := transS x h
      exact ⟨_, _, by rw [StrE.toExpr, visit_tolower, ha, bind_ok_eq]⟩
  | .toupper x, h => by
      simp only [noNegS] at h
      obtain ⟨a, ka, ha⟩ := transS x h
      exact ⟨_, _, by rw [StrE.toExpr, visit_toupper, ha, bind_ok_eq]⟩
  | .trim x, h => by
      simp only [noNegS] at h
      obtain ⟨a, ka, ha⟩ := transS x h
      exact ⟨_, _, by rw [StrE.toExpr, visit_trim, ha, bind_ok_eq]⟩
end

theorem transIs : (xs : List IntE) → noNegIs xs = true → ∃ items, djVisitList (intsToExprs xs) = .ok items
  | [], _ => ⟨[], by rw [intsToExprs, visitList_nil]⟩
  | e :: r, h => by
      simp only [noNegIs, Bool.and_eq_true] at h
      obtain ⟨a, ka, ha⟩ := transI e h.1
      obtain ⟨rest, hr⟩ := transIs r h.2
      exact ⟨_, by rw [intsToExprs, visitList_cons, ha, hr, bind_ok_eq, bind_ok_eq]⟩
theorem transSs : (xs : List StrE) → noNegSs xs = true → ∃ items, djVisitList (strsToExprs xs) = .ok items
  | [], _ => ⟨[], by rw [strsToExprs, visitList_nil]⟩
  | e :: r, h => by
      simp only [noNegSs, Bool.and_eq_true] at h
      obtain ⟨a, ka, ha⟩ := transS e h.1
      obtain ⟨rest, hr⟩ := transSs r h.2
      exact ⟨_, by rw [strsToExprs, visitList_cons, ha, hr, bind_ok_eq, bind_ok_eq]⟩

theorem transB : (b : BoolE) → (c : Bool) → djFragAux c b = true →
    ∃ t k, djVisit b.toExpr = .ok (t, k) ∧ (c = true → k = .cond)
  | .cmpI _ l r, c, h => by
      simp only [djFragAux, Bool.and_eq_true] at h
      obtain ⟨a, ka, ha⟩ := transI l h.1
      obtain ⟨b, kb, hb⟩ := transI r h.2
      exact ⟨_, _, by rw [BoolE.toExpr, visit_compare _ _ _ (C01.isNullLit_I l) (C01.isNullLit_I r), ha, hb,
        bind_ok_eq, bind_ok_eq], fun _ => rfl⟩
  | .cmpS _ l r, c, h => by
      simp only [djFragAux, Bool.and_eq_true] at h
      obtain ⟨a, ka, ha⟩ := transS l h.1
      obtain ⟨b, kb, hb⟩ := transS r h.2
      exact ⟨_, _, by rw [BoolE.toExpr, visit_compare _ _ _ (C01.isNullLit_S l) (C01.isNullLit_S r), ha, hb,
        bind_ok_eq, bind_ok_eq], fun _ => rfl⟩
  | .cmpB _ l r, c, h => by
      simp only [djFragAux, Bool.and_eq_true] at h
      obtain ⟨a, ka, ha, _⟩ := transB l false h.1.2
      obtain ⟨b, kb, hb, _⟩ := transB r false h.2
      exact ⟨_, _, by rw [BoolE.toExpr, visit_compare _ _ _ (C01.isNullLit_B l) (C01.isNullLit_B r), ha, hb,
        bind_ok_eq, bind_ok_eq], fun _ => rfl⟩
  | .isNull _ x negated, c, _ => ⟨_, _, by rw [BoolE.toExpr, visit_isNull], fun _ => rfl⟩
  | .inI e xs, c, h => by
      simp only [djFragAux, Bool.and_eq_true] at h
      obtain ⟨a, ka, ha⟩ := transI e h.1
      obtain ⟨items, hi⟩ := transIs xs h.2
      exact ⟨_, _, by rw [BoolE.toExpr, visit_compare _ _ _ (C01.isNullLit_I e) rfl, ha, visit_list, hi,
        bind_ok_eq, bind_ok_eq, bind_ok_eq], fun _ => rfl⟩
  | .inS e xs, c, h => by
      simp only [djFragAux, Bool.and_eq_true] at h
      obtain ⟨a, ka, ha⟩ := transS e h.1
      obtain ⟨items, hi⟩ := transSs xs h.2
      exact ⟨_, _, by rw [BoolE.toExpr, visit_compare _ _ _ (C01.isNullLit_S e) rfl, ha, visit_list, hi,
        bind_ok_eq, bind_ok_eq, bind_ok_eq], fun _ => rfl⟩
  | .and l r, c, h => by
      simp only [djFragAux, Bool.and_eq_true] at h
      obtain ⟨a, ka, ha, hka⟩ := transB l true h.1
      obtain ⟨b, kb, hb, hkb⟩ := transB r true h.2
      cases hka rfl
      cases hkb rfl
      exact ⟨_, _, by rw [BoolE.toExpr, visit_boolop, ha, hb, bind_ok_eq, bind_ok_eq]; rfl, fun _ => rfl⟩
  | .or l r, c, h => by
      simp only [djFragAux, Bool.and_eq_true] at h
      obtain ⟨a, ka, ha, hka⟩ := transB l true h.1
      obtain ⟨b, kb, hb, hkb⟩ := transB r true h.2
      cases hka rfl
      cases hkb rfl
      exact ⟨_, _, by rw [BoolE.toExpr, visit_boolop, ha, hb, bind_ok_eq, bind_ok_eq]; rfl, fun _ => rfl⟩
  | .not e, c, h => by
      simp only [djFragAux] at h
      obtain ⟨a, ka, ha, hka⟩ := transB e true h
      cases hka rfl
      exact ⟨_, _, by rw [BoolE.toExpr, visit_unary, ha, bind_ok_eq]; rfl, fun _ => rfl⟩
  | .like k x y, c, h => by
      simp only [djFragAux, Bool.and_eq_true] at h
      obtain ⟨a, ka, ha⟩ := transS x h.1
      obtain ⟨b, kb, hb⟩ := transS y h.2
      exact ⟨_, _, by rw [BoolE.toExpr, visit_like, substrTypecheck_ok _ _ (strTy_toExpr x) (strTy_toExpr y), ha, hb,
        bind_ok_eq, bind_ok_eq, bind_ok_eq], fun _ => rfl⟩
  | .col x, c, h => by
      simp only [djFragAux, Bool.not_eq_true'] at h
      exact ⟨_, _, by rw [BoolE.toExpr, visit_ident], fun hc => by rw [h] at hc; cases hc⟩
  | .lit x, c, h => by
      simp only [djFragAux, Bool.not_eq_true'] at h
      exact ⟨_, _, by rw [BoolE.toExpr, visit_litBool], fun hc => by rw [h] at hc; cases hc⟩

/-- every filter of `djFrag` is translated -/
theorem dj_translates (b : BoolE) (h : djFrag b = true) : ∃ t, djBuild b.toExpr = .ok t := by
  obtain ⟨t, k, hv, hk⟩ := transB b true h
  cases hk rfl
  exact ⟨t, by rw [djBuild, hv]; rfl⟩

/-- MAIN THEOREM (C02, semantics) -/
theorem sound (b : BoolE) (ρ : Row) (t : OTree) (hw : C01.wfB b = true) (h : semOkDj ρ b = true)
    (hb : djBuild b.toExpr = .ok t) :
    ∃ s, djSql t = some s ∧ sqliteSelects ρ s = some (selects ρ b) := by
  have _ := hw    -- not needed: `semOkDj` already carries the digit condition; field names are irrelevant here
  have hv : ∃ k, djVisit b.toExpr = .ok (t, k) := by
    unfold djBuild at hb
    split at hb
    · rename_i t' k' heq
      split at hb
      · cases hb
      · split at hb
        · cases hb
        · cases hb; exact ⟨k', heq⟩
    · cases hb
    · cases hb
    · cases hb
  obtain ⟨k, hv⟩ := hv
  obtain ⟨s, h1, h2⟩ := djSoundB ρ b h t k hv
  refine ⟨s, h1, ?_⟩
  unfold sqliteSelects selects
  rw [h2]
  simp

end OQ.C02
