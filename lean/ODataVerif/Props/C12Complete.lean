/-
  Props/C12Complete.lean — C12, "a complete translation: every field, literal, operator and call of the filter is represented", on the ORM backends.
  Literals: C08.dj_params / sa_params (the bound parameters are exactly the filter's literals, in order).  This file: FIELDS — the columns of the tree a
  successful translation returns are exactly the filter's field references (identifiers and paths), in document order; nothing is dropped, duplicated or invented.
-/
import ODataVerif.Model.Orm
import ODataVerif.Props.C08
namespace OQ.C12Orm

mutual
/-- the columns of a translated tree, left to right -/
def cols : OTree → List (List Str)
  | .col p => [p]
  | .node _ args => colsL args
  | _ => []
def colsL : OTrees → List (List Str)
  | .nil => []
  | .cons h t => cols h ++ colsL t
end

/-- an identifier path `a/b/c` as the list of its segment names (`none`: not a path) -/
def pathOf : Expr → Option (List Str)
  | .ident i => some [i.name]
  | .attr o n => (pathOf o).map (· ++ [n])
  | _ => none

mutual
/-- the filter's field references in document order: maximal identifier paths -/
def fieldRefs : Expr → List (List Str)
  | .ident i => [[i.name]]
  | .attr o n => (match pathOf (.attr o n) with
                  | some p => [p]
                  | none => fieldRefs o)
  | .lit _ _ => []
  | .list xs => fieldRefsL xs
  | .binop _ l r => fieldRefs l ++ fieldRefs r
  | .compare _ l r => fieldRefs l ++ fieldRefs r
  | .boolop _ l r => fieldRefs l ++ fieldRefs r
  | .unary _ e => fieldRefs e
  | .named _ e => fieldRefs e
  | .call _ args => fieldRefsL args
  | .coll o _ l => fieldRefs o ++ fieldRefsLam l
def fieldRefsL : Exprs → List (List Str)
  | .nil => []
  | .cons h t => fieldRefs h ++ fieldRefsL t
def fieldRefsLam : OptLam → List (List Str)
  | .none => []
  | .some _ b => fieldRefs b
end

open OQ.OrmParams

/-! ### columns of the tree builders -/
@[simp] theorem cols_on1 (op a) : cols (on1 op a) = cols a := by simp [on1, cols, colsL]
@[simp] theorem cols_on2 (op a b) : cols (on2 op a b) = cols a ++ cols b := by simp [on2, cols, colsL]
@[simp] theorem cols_on3 (op a b c) : cols (on3 op a b c) = cols a ++ (cols b ++ cols c) := by simp [on3, cols, colsL]
@[simp] theorem cols_pint (z) : cols (.pint z) = [] := by simp [cols]
@[simp] theorem cols_const (z) : cols (.const z) = [] := by simp [cols]
@[simp] theorem cols_col (z) : cols (.col z) = [z] := by simp [cols]
@[simp] theorem cols_param (k v) : cols (.param k v) = [] := by simp [cols]
@[simp] theorem cols_node (op a) : cols (.node op a) = colsL a := by simp [cols]
@[simp] theorem colsL_nil : colsL .nil = [] := by simp [colsL]
@[simp] theorem colsL_cons (h t) : colsL (.cons h t) = cols h ++ colsL t := by simp [colsL]
@[simp] theorem colsL_ofList_nil : colsL (OTrees.ofList []) = [] := by simp [OTrees.ofList]
@[simp] theorem colsL_ofList_cons (h t) : colsL (OTrees.ofList (h :: t)) = cols h ++ colsL (OTrees.ofList t) := by
  simp [OTrees.ofList]

/-! ### the handlers (both backends, as plans) -/
def ColP (visit : Expr → Outcome (OTree × OKind)) (e : Expr) : Prop :=
  ∀ t k, visit e = .ok (t, k) → cols t = fieldRefs e

theorem visitAll_cols (visit) : (xs : Exprs) → (∀ a ∈ xs.toList, ColP visit a) → ∀ items,
    visitAll visit xs = .ok items → colsL (OTrees.ofList items) = fieldRefsL xs
  | .nil, _, items, h => by
      rw [visitAll] at h; cases h; simp [fieldRefsL]
  | .cons a t, ih, items, h => by
      rw [visitAll] at h
      simp only [bind_eq_ok, Prod.exists, Outcome.pure_eq] at h
      obtain ⟨x, kx, hx, rest, hr, h⟩ := h
      cases h
      have h1 := ih a (by simp [Exprs.toList]) _ _ hx
      have h2 := visitAll_cols visit t (fun b hb => ih b (by simp [Exprs.toList, hb])) _ hr
      simp [fieldRefsL, h1, h2]

theorem runPlan_cols (visit) (plan : FPlan) (args : Exprs) (ih : ∀ a ∈ args.toList, ColP visit a) (t k)
    (h : runPlan visit (visitAll visit) plan args = .ok (t, k)) : cols t = fieldRefsL args := by
  cases plan
  case concat2 name =>
    simp only [runPlan, bind_eq_ok] at h
    obtain ⟨items, hi, h⟩ := h
    have := visitAll_cols visit args ih _ hi
    split at h <;> cases h
    simpa using this
  case concatN name =>
    simp only [runPlan, bind_eq_ok, Outcome.pure_eq] at h
    obtain ⟨items, hi, h⟩ := h
    have := visitAll_cols visit args ih _ hi
    cases h
    simpa using this
  case bad key =>
    simp [runPlan] at h
  all_goals
    rcases args with _ | ⟨a, _ | ⟨b, _ | ⟨c, _ | ⟨d, r⟩⟩⟩⟩
    all_goals try (simp [runPlan] at h; done)
  all_goals
    try simp only [Exprs.toList, List.mem_cons, List.not_mem_nil, or_false, forall_eq_or_imp, forall_eq, ColP] at ih
    simp only [runPlan, bind_eq_ok, Prod.exists, Outcome.pure_eq, Outcome.ok.injEq, Prod.mk.injEq] at h
    grind [fieldRefsL, cols_on1, cols_on2, cols_on3, cols_pint, cols_node, colsL_nil]

/-- no handler returns a bare column -/
theorem runPlan_not_col (visit visitList) (plan : FPlan) (args : Exprs) (p k) :
    runPlan visit visitList plan args ≠ .ok (.col p, k) := by
  intro h
  cases plan
  case concat2 name =>
    simp only [runPlan, bind_eq_ok] at h
    obtain ⟨items, _, h⟩ := h
    split at h <;> cases h
  case concatN name =>
    simp only [runPlan, bind_eq_ok, Outcome.pure_eq] at h
    obtain ⟨items, _, h⟩ := h
    cases h
  case bad key =>
    simp [runPlan] at h
  all_goals
    rcases args with _ | ⟨a, _ | ⟨b, _ | ⟨c, _ | ⟨d, r⟩⟩⟩⟩
    all_goals try (simp [runPlan] at h; done)
  all_goals
    simp [runPlan, bind_eq_ok, on1, on2, on3] at h

/-! ### Django -/

/-- only an identifier path is visited to a column reference, and the column is that path -/
theorem dj_col_path (e : Expr) : ∀ p k, djVisit e = .ok (.col p, k) → pathOf e = some p := by
  refine expr_ind (P := fun e => ∀ p k, djVisit e = .ok (.col p, k) → pathOf e = some p) ?_ ?_ ?_ ?_ ?_ ?_ ?_ ?_ ?_ ?_ ?_ e
  · intro i p k h
    rw [djVisit] at h; cases h; rfl
  · intro o n ih p k h
    rw [djVisit] at h
    simp only [bind_eq_ok, Prod.exists, Outcome.pure_eq] at h
    obtain ⟨x, kx, hx, h⟩ := h
    split at h
    · rename_i q
      cases h
      simp [pathOf, ih _ _ hx]
    · cases h
  · intro kd v p k h
    by_cases hk : kd = .null
    · subst hk; rw [djVisit] at h; cases h
    · rw [djVisit.eq_4 _ _ hk] at h
      simp only [bind_eq_ok, Outcome.pure_eq] at h
      obtain ⟨q, hq, h⟩ := h
      rw [litParam_ok _ _ _ hq] at h
      cases h
  · intro xs _ p k h
    rw [djVisit] at h
    simp only [bind_eq_ok, Outcome.pure_eq] at h
    obtain ⟨items, _, h⟩ := h
    cases h
  · intro op l r _ _ p k h
    rw [djVisit] at h
    simp only [bind_eq_ok, Prod.exists, Outcome.pure_eq] at h
    obtain ⟨a, ka, _, b, kb, _, h⟩ := h
    split at h <;> cases h
  · intro op l r _ _ p k h
    rw [djVisit] at h
    repeat' split at h
    all_goals simp only [bind_eq_ok, Prod.exists, Outcome.pure_eq] at h
    all_goals obtain ⟨a, ka, _, h⟩ := h
    all_goals repeat' split at h
    all_goals try (obtain ⟨b, kb, _, h⟩ := h)
    all_goals cases h
  · intro op l r _ _ p k h
    rw [djVisit] at h
    simp only [bind_eq_ok, Prod.exists, Outcome.pure_eq] at h
    obtain ⟨a, ka, _, b, kb, _, h⟩ := h
    repeat' split at h
    all_goals cases h
  · intro op e _ p k h
    rw [djVisit] at h
    simp only [bind_eq_ok, Prod.exists, Outcome.pure_eq] at h
    obtain ⟨a, ka, _, h⟩ := h
    repeat' split at h
    all_goals cases h
  · intro n e p k h
    rw [djVisit] at h; cases h
  · intro f args _ p k h
    rw [djVisit] at h
    repeat' split at h
    · cases h
    · cases h
    · cases h
    · cases h
    · rw [djFunc_eq] at h
      exact absurd h (runPlan_not_col _ _ _ _ _ _)
  · intro o op l p k h
    rw [djVisit] at h; cases h

theorem fieldRefs_null_of (e) (h : isNullLit e = true) : fieldRefs e = [] := by
  obtain ⟨v, rfl⟩ := (isNullLit_iff e).1 h
  simp [fieldRefs]

theorem dj_cols_visit (e : Expr) : ColP djVisit e := by
  refine expr_ind (P := ColP djVisit) ?_ ?_ ?_ ?_ ?_ ?_ ?_ ?_ ?_ ?_ ?_ e
  · intro i t k h
    rw [djVisit] at h; cases h; simp [fieldRefs]
  · intro o n _ t k h
    have h0 := h
    rw [djVisit] at h
    simp only [bind_eq_ok, Prod.exists, Outcome.pure_eq] at h
    obtain ⟨x, kx, hx, h⟩ := h
    split at h
    · rename_i q
      cases h
      have := dj_col_path _ _ _ h0
      simp [fieldRefs, this]
    · cases h
  · intro kd v t k h
    by_cases hk : kd = .null
    · subst hk; rw [djVisit] at h; cases h; simp [fieldRefs]
    · rw [djVisit.eq_4 _ _ hk] at h
      simp only [bind_eq_ok, Outcome.pure_eq] at h
      obtain ⟨p, hp, h⟩ := h
      cases h
      rw [litParam_ok _ _ _ hp]
      simp [fieldRefs]
  · intro xs ih t k h
    rw [djVisit, djVisitList_eq] at h
    simp only [bind_eq_ok, Outcome.pure_eq] at h
    obtain ⟨items, hi, h⟩ := h
    cases h
    simpa [fieldRefs] using visitAll_cols _ xs ih items hi
  · intro op l r ihl ihr t k h
    rw [djVisit] at h
    simp only [bind_eq_ok, Prod.exists, Outcome.pure_eq] at h
    obtain ⟨a, ka, ha, b, kb, hb, h⟩ := h
    split at h
    · cases h
    · cases h; simp [fieldRefs, ihl _ _ ha, ihr _ _ hb]
  · intro op l r ihl ihr t k h
    rw [djVisit] at h
    split at h
    · rename_i hc
      simp only [Bool.and_eq_true] at hc
      simp only [bind_eq_ok, Prod.exists, Outcome.pure_eq] at h
      obtain ⟨a, ka, ha, h⟩ := h
      have := ihr _ _ ha
      split at h <;> cases h <;> simp [fieldRefs, fieldRefs_null_of _ hc.1, this]
    · split at h
      · rename_i hc
        simp only [bind_eq_ok, Prod.exists, Outcome.pure_eq] at h
        obtain ⟨a, ka, ha, h⟩ := h
        have := ihl _ _ ha
        repeat' split at h
        all_goals cases h
        all_goals simp [fieldRefs, fieldRefs_null_of _ hc, this]
      · simp only [bind_eq_ok, Prod.exists, Outcome.pure_eq] at h
        obtain ⟨a, ka, ha, b, kb, hb, h⟩ := h
        cases h; simp [fieldRefs, ihl _ _ ha, ihr _ _ hb]
  · intro op l r ihl ihr t k h
    rw [djVisit] at h
    simp only [bind_eq_ok, Prod.exists, Outcome.pure_eq] at h
    obtain ⟨a, ka, ha, b, kb, hb, h⟩ := h
    repeat' split at h
    all_goals cases h
    all_goals simp [fieldRefs, ihl _ _ ha, ihr _ _ hb]
  · intro op e ih t k h
    rw [djVisit] at h
    simp only [bind_eq_ok, Prod.exists, Outcome.pure_eq] at h
    obtain ⟨a, ka, ha, h⟩ := h
    repeat' split at h
    all_goals cases h
    all_goals simp [fieldRefs, ih _ _ ha]
  · intro n e t k h
    rw [djVisit] at h; cases h
  · intro f args ih t k h
    rw [djVisit] at h
    repeat' split at h
    · cases h
    · cases h
    · cases h
    · cases h
    · rw [djFunc_eq, show djVisitList = visitAll djVisit from funext djVisitList_eq] at h
      simpa [fieldRefs] using runPlan_cols _ _ args ih t k h
  · intro o op l t k h
    rw [djVisit] at h; cases h

/-- Django: the columns of a successful translation are exactly the filter's field references, in order -/
theorem dj_columns (e : Expr) (t : OTree) (h : djBuild e = .ok t) : cols t = fieldRefs e := by
  unfold djBuild at h
  split at h
  · rename_i t' k hv
    repeat' split at h
    all_goals cases h
    exact dj_cols_visit e _ _ hv
  all_goals cases h

/-! ### SQLAlchemy -/
section
variable (fields : List Str) (core : Bool)

theorem sa_cols_visit (e : Expr) : ColP (saVisit fields core) e := by
  refine expr_ind (P := ColP (saVisit fields core)) ?_ ?_ ?_ ?_ ?_ ?_ ?_ ?_ ?_ ?_ ?_ e
  · intro i t k h
    rw [saVisit] at h
    split at h <;> cases h
    simp [fieldRefs]
  · intro o n ih t k h
    rw [saVisit] at h
    split at h <;> cases h
  · intro kd v t k h
    by_cases h1 : kd = .null
    · subst h1; rw [saVisit] at h; cases h; simp [fieldRefs]
    by_cases h2 : kd = .bool
    · subst h2; rw [saVisit] at h; cases h; simp [fieldRefs]
    by_cases h3 : kd = .guid
    · subst h3; rw [saVisit] at h; cases h; simp [fieldRefs]
    rw [saVisit.eq_7 _ _ _ _ h1 h2 h3] at h
    simp only [bind_eq_ok, Outcome.pure_eq] at h
    obtain ⟨p, hp, h⟩ := h
    cases h
    rw [litParam_ok _ _ _ hp]
    simp [fieldRefs]
  · intro xs ih t k h
    rw [saVisit, saVisitList_eq] at h
    simp only [bind_eq_ok, Outcome.pure_eq] at h
    obtain ⟨items, hi, h⟩ := h
    cases h
    simpa [fieldRefs] using visitAll_cols _ xs ih items hi
  · intro op l r ihl ihr t k h
    rw [saVisit] at h
    simp only [bind_eq_ok, Prod.exists, Outcome.pure_eq] at h
    obtain ⟨a, ka, ha, b, kb, hb, h⟩ := h
    split at h
    · cases h
    · cases h; simp [fieldRefs, ihl _ _ ha, ihr _ _ hb]
  · intro op l r ihl ihr t k h
    rw [saVisit] at h
    simp only [bind_eq_ok, Prod.exists, Outcome.pure_eq] at h
    obtain ⟨a, ka, ha, b, kb, hb, h⟩ := h
    by_cases hsw : (isNullLit l && (op == .eq || op == .ne)) = true
    · -- `null eq x`: the operands are swapped; the null literal has no column
      have hl0 : fieldRefs l = [] := fieldRefs_null_of l (by simp only [Bool.and_eq_true] at hsw; exact hsw.1)
      have pa := ihl _ _ ha
      rw [hl0] at pa
      simp only [hsw, ↓reduceIte] at h
      repeat' split at h
      all_goals cases h
      all_goals simp [fieldRefs, hl0, pa, ihr _ _ hb]
    · simp only [hsw, Bool.false_eq_true, ↓reduceIte] at h
      repeat' split at h
      all_goals cases h
      all_goals simp [fieldRefs, ihl _ _ ha, ihr _ _ hb]
  · intro op l r ihl ihr t k h
    rw [saVisit] at h
    simp only [bind_eq_ok, Prod.exists, Outcome.pure_eq] at h
    obtain ⟨a, ka, ha, b, kb, hb, h⟩ := h
    cases h
    simp [fieldRefs, ihl _ _ ha, ihr _ _ hb]
  · intro op e ih t k h
    rw [saVisit] at h
    simp only [bind_eq_ok, Prod.exists, Outcome.pure_eq] at h
    obtain ⟨a, ka, ha, h⟩ := h
    repeat' split at h
    all_goals cases h
    all_goals simp [fieldRefs, ih _ _ ha]
  · intro n e t k h
    rw [saVisit] at h; cases h
  · intro f args ih t k h
    rw [saVisit] at h
    repeat' split at h
    · cases h
    · rw [saFunc_eq'] at h
      simpa [fieldRefs] using runPlan_cols _ _ args ih t k h
  · intro o op l t k h
    rw [saVisit] at h
    split at h <;> cases h
end

/-- SQLAlchemy (ORM and Core): likewise -/
theorem sa_columns (fields : List Str) (core : Bool) (e : Expr) (t : OTree) (h : saBuild fields core e = .ok t) :
    cols t = fieldRefs e := by
  unfold saBuild at h
  rw [bind_eq_ok'] at h
  obtain ⟨⟨t', k⟩, hv, h⟩ := h
  cases h
  exact sa_cols_visit fields core e _ _ hv

end OQ.C12Orm
