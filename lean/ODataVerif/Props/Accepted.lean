/-
  Props/Accepted.lean — the character-level theorems of C05 and C19 stated for ACCEPTED TEXTS: their hypotheses `printable` and `lexableE'` are
  discharged for every tree the parser returns on an ASCII text (C10.parse_image, C13A.accepted_lexable), so the statements quantify over
  what a user can write rather than over trees.
-/
import ODataVerif.Props.C05Text
import ODataVerif.Props.C19Text
import ODataVerif.Props.C13Accepted
import ODataVerif.Props.C07Lex
import ODataVerif.Props.C09Parse
import ODataVerif.Props.C12
import ODataVerif.Props.C06Image
import ODataVerif.Props.C10Image
namespace OQ.Accepted
open OQ.Spec OQ.C06 OQ.C13A OQ.Respelling OQ.ParseNorm

/-- C19 for accepted texts: take ANY accepted ASCII filter, print the tree it parses to in any whitespace style and parenthesisation mode, and
    re-spell that text in any admissible way (any non-empty whitespace run for a blank, optional whitespace where the grammar allows it, any ASCII
    letter case of the operator and literal keywords): the result parses to the same tree up to the letter case of Boolean / Float literal texts -/
theorem respell_accepted (s0 : Str) (e : Expr) (ha : s0.all isAsciiChar = true) (h : parseText pyCharEnv s0 = .ok e)
    (hk : opFree e = true) (hn : kwFree e = true) (sty : Style) (mode : Mode) (s : Str)
    (hs : Respell pyCharEnv (printToks sty mode e) s) :
    ∃ e', parseText pyCharEnv s = .ok e' ∧ normE e' = normE e :=
  C19.parse_respell sty mode e (C10.parse_image pyCharEnv s0 e h) (accepted_lexable s0 e ha h hk hn) s hs

/-- C05 for accepted texts: the minimally parenthesised and the fully parenthesised rendering (any whitespace styles) of the tree ANY accepted
    ASCII filter parses to both parse back to that tree -/
theorem grouping_accepted (s0 : Str) (e : Expr) (ha : s0.all isAsciiChar = true) (h : parseText pyCharEnv s0 = .ok e)
    (hk : opFree e = true) (hn : kwFree e = true) (s1 s2 : Style) :
    parseText pyCharEnv (render (printToks s1 .minimal e)) = .ok e ∧ parseText pyCharEnv (render (printToks s2 .full e)) = .ok e :=
  ⟨C13.parse_text s1 .minimal e (C10.parse_image pyCharEnv s0 e h) (accepted_lexable s0 e ha h hk hn),
   C13.parse_text s2 .full e (C10.parse_image pyCharEnv s0 e h) (accepted_lexable s0 e ha h hk hn)⟩

/-- C07 for accepted texts: for EVERY ASCII filter text the parser accepts, every dialect and every alias without a double quote, if the dialect model
    emits pieces then the emitted CHARACTERS are read by the independent SQL tokeniser as exactly the tokens of those pieces - every string of the filter
    inside one string-literal token, every field inside one quoted identifier; the side condition `litOk` of `C07.lex_pieces` is discharged by the lexer's image -/
theorem injection_free_accepted (s0 : Str) (e : Expr) (d : Dialect) (al : Option Str) (ps : List Piece) (ha : s0.all isAsciiChar = true)
    (h : parseText pyCharEnv s0 = .ok e) (hal : aliasOk al = true) (hv : sqlVisit pyCharEnv.isDigit d al e = .ok ps) :
    sqlLex (renderPieces ps) = some (pieceToks ps) :=
  C07.lex_pieces pyCharEnv.isDigit d al e ps (C06.accepted_litOk s0 e d ha h).1 hal hv

/-- C09 for accepted texts: … and if the filter has a mirror tree and is inside the SQL-expressible fragment, the emitted tokens parse to that tree -/
theorem mirror_accepted (s0 : Str) (e : Expr) (d : Dialect) (al : Option Str) (ps : List Piece) (t : SqlTree) (ha : s0.all isAsciiChar = true)
    (h : parseText pyCharEnv s0 = .ok e) (hs : sqlSafe d e = true) (hm : mirror pyCharEnv.isDigit d al e = some t)
    (hv : sqlVisit pyCharEnv.isDigit d al e = .ok ps) :
    sqlParse (pieceToks ps) = some t :=
  C09.parse_mirror pyCharEnv.isDigit d al e ps t (C06.accepted_litOk s0 e d ha h).1 hs hm hv

/-- non-vacuity: an accepted text with a keyword-prefixed field, a namespaced call with named parameters, a lambda and every hypothesis satisfied -/
example : (match parseText pyCharEnv "nullable eq 1 or ns.f(p=x/a.b) ne 'it''s' and k/any(v: v/w lt -2.5e3)".toList with
           | .ok e => opFree e && kwFree e
           | _ => false) = true := by decide +kernel

end OQ.Accepted
