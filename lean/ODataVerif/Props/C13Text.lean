/-
  Props/C13Text.lean — the character-level half of the OData round trip: the TEXT the reference printer (and hence
  odata_query's own printer) produces is tokenised by the lexer model into exactly the tokens it was spelled from,
  so the token-level theorems (`C05.parse_printToks`, `C13.roundtrip_tokens`, `C19.layout_invariant`) hold for TEXT.

  `tokLexable env t` — the token, spelled on its own, is read back as itself (a decidable, executable condition on each
  literal text / identifier: the number looks like a number, the identifier is not a keyword, …).
  `tokLexable' env t` — additionally it is read back as itself in front of a blank and between blanks (`spaced`): this
  excludes identifiers named like an operator keyword (`not`, `add`, `eq` …), which `tokLexable` lets through and which
  do NOT survive the round trip (counterexamples below).

  Helper lemmas: Lemmas/LexRender.lean (scanners and delimiters), Lemmas/LexChars.lean (the concrete character classes),
  Lemmas/LexOne.lean (`lexOne` as a rule list), Lemmas/LexTok.lean (per token), Lemmas/LexChain.lean (token lists),
  Lemmas/ParseSep.lean (the parser ignores the WS token read between a unary minus and a number).
-/
import ODataVerif.Model.Lexer
import ODataVerif.Model.Parser
import ODataVerif.Spec.RefPrinter
import ODataVerif.Props.C05Roundtrip
import ODataVerif.Props.C13Roundtrip
import ODataVerif.Lemmas.LexRender
import ODataVerif.Lemmas.LexChain
import ODataVerif.Lemmas.ParseSep
namespace OQ.C13
open Spec LexRender
set_option linter.unusedSimpArgs false
set_option linter.unusedVariables false

/-- the token, spelled alone, lexes to itself -/
def tokLexable (env : CharEnv) (t : Tok) : Bool :=
  let r := lexAll env (spellTok t)
  r.toks == [t] && r.err == none

mutual
/-- every literal and identifier of the tree is lexable on its own -/
def lexableE (env : CharEnv) : Expr → Bool
  | .ident i => tokLexable env (.ident i)
  | .attr o n => lexableE env o && tokLexable env (.ident ⟨n, []⟩)
  | .lit k v => tokLexable env (.lit k v)
  | .list xs => lexableEs env xs
  | .binop _ l r | .compare _ l r | .boolop _ l r => lexableE env l && lexableE env r
  | .unary _ e => lexableE env e
  | .named n e => tokLexable env (.ident n) && lexableE env e
  | .call f args => tokLexable env (.ident f) && lexableEs env args
  | .coll o _ l => lexableE env o && lexableLam env l
def lexableEs (env : CharEnv) : Exprs → Bool
  | .nil => true
  | .cons h t => lexableE env h && lexableEs env t
def lexableLam (env : CharEnv) : OptLam → Bool
  | .none => true
  | .some v b => tokLexable env (.ident v) && lexableE env b
end

/-- the token keeps lexing to itself in front of a blank and between blanks -/
def spaced (env : CharEnv) (t : Tok) : Bool :=
  (lexAll env (spellTok t ++ [' '])).toks == [t, .ws] &&
  (lexAll env (' ' :: spellTok t ++ [' '])).toks == [.ws, t, .ws]

def tokLexable' (env : CharEnv) (t : Tok) : Bool := tokLexable env t && spaced env t

theorem lexAll_head {cs : List Char} {t : Tok} {ts : List Tok} (h : (lexAll E cs).toks = t :: ts) :
    ∃ r, lexOne E cs = some (t, r) := by
  unfold lexAll at h
  cases cs with
  | nil => simp [lexFuel] at h
  | cons c x =>
    simp only [lexFuel] at h
    cases hl : lexOne E (c :: x) with
    | none => rw [hl] at h; simp at h
    | some p =>
      obtain ⟨t', r⟩ := p
      rw [hl] at h
      simp at h
      exact ⟨r, by rw [h.1]⟩

theorem lexAll_single {cs : List Char} {t : Tok} (h : lexAll E cs = ⟨[t], none⟩) : lexOne E cs = some (t, []) := by
  unfold lexAll at h
  cases cs with
  | nil => simp [lexFuel] at h
  | cons c x =>
    simp only [lexFuel] at h
    cases hl : lexOne E (c :: x) with
    | none => rw [hl] at h; simp at h
    | some p =>
      obtain ⟨t', r⟩ := p
      rw [hl] at h
      simp only [LexResult.mk.injEq, List.cons.injEq] at h
      obtain ⟨⟨rfl, htoks⟩, herr⟩ := h
      cases r with
      | nil => rfl
      | cons c' r' =>
        exfalso
        have hlen := lexOne_len E _ _ _ hl
        obtain ⟨n, hn⟩ : ∃ n, (c :: x).length = n + 1 := ⟨x.length, rfl⟩
        rw [hn] at htoks herr
        simp only [lexFuel] at htoks herr
        cases hl2 : lexOne E (c' :: r') with
        | none => rw [hl2] at herr; simp at herr
        | some q => rw [hl2] at htoks; simp at htoks

theorem tokOk_of_lexable {t : Tok} (h : tokLexable' E t = true) : TokOk t := by
  simp only [tokLexable', tokLexable, spaced, Bool.and_eq_true, beq_iff_eq] at h
  obtain ⟨⟨h1, h2⟩, h3, h4⟩ := h
  refine ⟨lexAll_single ?_, lexAll_head h3, lexAll_head h4⟩
  cases hr : lexAll E (spellTok t) with
  | mk toks err =>
    rw [hr] at h1 h2
    simp at h1 h2
    rw [h1, h2]


mutual
/-- every literal and identifier of the tree is lexable on its own, in front of a blank and between blanks -/
def lexableE' (env : CharEnv) : Expr → Bool
  | .ident i => tokLexable' env (.ident i)
  | .attr o n => lexableE' env o && tokLexable' env (.ident ⟨n, []⟩)
  | .lit k v => tokLexable' env (.lit k v)
  | .list xs => lexableEs' env xs
  | .binop _ l r | .compare _ l r | .boolop _ l r => lexableE' env l && lexableE' env r
  | .unary _ e => lexableE' env e
  | .named n e => tokLexable' env (.ident n) && lexableE' env e
  | .call f args => tokLexable' env (.ident f) && lexableEs' env args
  | .coll o _ l => lexableE' env o && lexableLam' env l
def lexableEs' (env : CharEnv) : Exprs → Bool
  | .nil => true
  | .cons h t => lexableE' env h && lexableEs' env t
def lexableLam' (env : CharEnv) : OptLam → Bool
  | .none => true
  | .some v b => tokLexable' env (.ident v) && lexableE' env b
end

/-! ### the printer's token lists satisfy the adjacency condition -/

def closeHead (rest : List Tok) : Bool := match rest.head? with | none => true | some u => closeT u
def identHead (rest : List Tok) : Bool := match rest.head? with | none => true | some u => identFollowT u
def isPathE : Expr → Bool
  | .ident _ => true
  | .attr _ _ => true
  | _ => false

theorem identHead_of_close {rest : List Tok} (h : closeHead rest = true) : identHead rest = true := by
  unfold closeHead at h; unfold identHead
  cases hh : rest.head? with
  | none => rfl
  | some u => rw [hh] at h; exact closeT_identFollow h

theorem head_of_headStart {ts : List Tok} (h : Pratt.headStart ts = true) (rest : List Tok) :
    ∃ u r, ts ++ rest = u :: r ∧ startT u = true := by
  cases ts with
  | nil => simp [Pratt.headStart] at h
  | cons t r =>
    refine ⟨t, r ++ rest, rfl, ?_⟩
    cases t <;> simp_all [Pratt.headStart, Pratt.startTok, startT]

theorem chain_nl {b : Bool} {t : Tok} {r : List Tok} (ht : isLI t = false) (ha : adj b t r.head? = true)
    (hr : chainOk b r) : chainOk b (t :: r) := ⟨fun h => by simp [ht] at h, ha, hr⟩

theorem chain_li {b : Bool} {t : Tok} {r : List Tok} (hok : TokOk t) (ha : adj b t r.head? = true)
    (hr : chainOk b r) : chainOk b (t :: r) := ⟨fun _ => hok, ha, hr⟩

theorem chain_ws {b : Bool} (c : Bool) {r : List Tok} (hr : chainOk b r) (h : adj b .ws r.head? = true) :
    chainOk b (ws? c ++ r) := by
  cases c
  · simpa [ws?] using hr
  · simpa [ws?] using chain_nl (t := .ws) rfl h hr

theorem adj_ws_start {b : Bool} {X rest : List Tok} (h : Pratt.headStart X = true) :
    adj b .ws (X ++ rest).head? = true := by
  obtain ⟨u, r, hu, hs⟩ := head_of_headStart h rest
  rw [hu]; simp [adj, hs]


section printer
variable (sty : Style) (mode : Mode)

def GoodTs (X : List Tok) : Prop :=
  ∀ rest, chainOk sty.afterMinus rest → closeHead rest = true → chainOk sty.afterMinus (X ++ rest)

def GoodE (e : Expr) : Prop :=
  ∀ rest, chainOk sty.afterMinus rest → (closeHead rest = true ∨ (isPathE e = true ∧ identHead rest = true)) →
    chainOk sty.afterMinus (printToks sty mode e ++ rest)

variable {sty mode}

theorem GoodE.ts {e : Expr} (h : GoodE sty mode e) : GoodTs sty (printToks sty mode e) :=
  fun rest hr hc => h rest hr (Or.inl hc)

theorem goodE_of_ts {e : Expr} (hnp : isPathE e = false) (h : GoodTs sty (printToks sty mode e)) : GoodE sty mode e := by
  intro rest hr hcl
  rcases hcl with h1 | ⟨h2, _⟩
  · exact h rest hr h1
  · simp [hnp] at h2

theorem closeHead_ws_rp (c : Bool) (rest : List Tok) : closeHead (ws? c ++ .rp :: rest) = true := by
  cases c <;> rfl
theorem closeHead_ws_comma (c : Bool) (rest : List Tok) : closeHead (ws? c ++ .comma :: rest) = true := by
  cases c <;> rfl

/-- parentheses around a block that starts an operand -/
theorem good_paren {X : List Tok} (hX : GoodTs sty X) (hs : Pratt.headStart X = true) (rest : List Tok)
    (hr : chainOk sty.afterMinus rest) : chainOk sty.afterMinus (paren sty X ++ rest) := by
  have e : paren sty X ++ rest = .lp :: (ws? sty.insideParens ++ (X ++ (ws? sty.insideParens ++ .rp :: rest))) := by
    simp [paren]
  rw [e]
  refine chain_nl rfl rfl (chain_ws _ ?_ (adj_ws_start hs))
  exact hX _ (chain_ws _ (chain_nl rfl rfl hr) rfl) (closeHead_ws_rp _ _)

theorem good_operand {e : Expr} (he : GoodE sty mode e) (pl : Nat) (strict : Bool) :
    GoodTs sty (operand sty mode pl strict e) := by
  intro rest hr hc
  rw [operand]; split
  · exact good_paren he.ts (Pratt.headStart_printToks sty mode e) rest hr
  · exact he rest hr (Or.inl hc)

theorem good_binary {l r : Expr} (t : Tok) (hb : isBinT t = true) (L : Nat) (hl : GoodE sty mode l) (hr : GoodE sty mode r) :
    GoodTs sty (operand sty mode L false l ++ [t] ++ operand sty mode L true r) := by
  intro rest hrest hc
  simp only [List.append_assoc, List.cons_append, List.nil_append]
  refine good_operand hl L false _ ?_ (by cases t <;> simp_all [isBinT, closeHead, closeT])
  refine chain_nl (by cases t <;> simp_all [isBinT, isLI]) ?_ (good_operand hr L true rest hrest hc)
  obtain ⟨u, r', hu, hs⟩ := head_of_headStart (Pratt.headStart_operand sty mode L true r) rest
  rw [hu]
  cases t <;> simp_all [isBinT, adj]


theorem adj_ident_head {b : Bool} {i : Ident} {rest : List Tok} (h : identHead rest = true) :
    adj b (.ident i) rest.head? = true := by
  unfold identHead at h
  cases hh : rest.head? with
  | none => rfl
  | some u => rw [hh] at h; simpa [adj] using h

theorem adj_lit_head {b : Bool} {k : LitKind} {v : Str} {rest : List Tok} (h : closeHead rest = true) :
    adj b (.lit k v) rest.head? = true := by
  unfold closeHead at h
  cases hh : rest.head? with
  | none => rfl
  | some u => rw [hh] at h; simpa [adj] using h

theorem good_ident {i : Ident} (hok : TokOk (.ident i)) : GoodE sty mode (.ident i) := by
  intro rest hr hcl
  have hi : identHead rest = true := by
    rcases hcl with h | ⟨-, h⟩
    · exact identHead_of_close h
    · exact h
  simp only [printToks, List.cons_append, List.nil_append]
  exact chain_li hok (adj_ident_head hi) hr

theorem good_lit {k : LitKind} {v : Str} (hok : TokOk (.lit k v)) : GoodE sty mode (.lit k v) := by
  apply goodE_of_ts rfl
  intro rest hr hc
  simp only [printToks, List.cons_append, List.nil_append]
  exact chain_li hok (adj_lit_head hc) hr

theorem good_attr {o : Expr} {n : Str} (ho : GoodE sty mode o) (hp : isPathE o = true) (hok : TokOk (.ident ⟨n, []⟩)) :
    GoodE sty mode (.attr o n) := by
  intro rest hr hcl
  have hi : identHead rest = true := by
    rcases hcl with h | ⟨-, h⟩
    · exact identHead_of_close h
    · exact h
  rw [printToks]
  simp only [List.append_assoc, List.cons_append, List.nil_append]
  exact ho _ (chain_nl rfl rfl (chain_li hok (adj_ident_head hi) hr)) (Or.inr ⟨hp, rfl⟩)

theorem good_binop {o : ArithOp} {l r : Expr} (hl : GoodE sty mode l) (hr : GoodE sty mode r) :
    GoodE sty mode (.binop o l r) := by
  apply goodE_of_ts rfl
  rw [printToks]
  exact good_binary (.arith o) rfl _ hl hr

theorem good_boolop {o : BoolOp} {l r : Expr} (hl : GoodE sty mode l) (hr : GoodE sty mode r) :
    GoodE sty mode (.boolop o l r) := by
  apply goodE_of_ts rfl
  rw [printToks]
  exact good_binary (.bool o) rfl _ hl hr

theorem good_compare {o : CmpOp} (ho : o ≠ .in_) {l r : Expr} (hl : GoodE sty mode l) (hr : GoodE sty mode r) :
    GoodE sty mode (.compare o l r) := by
  apply goodE_of_ts rfl
  cases o <;> first | exact absurd rfl ho | (rw [printToks] <;> first | exact ho | exact good_binary (.cmp _) rfl _ hl hr)

theorem good_in {l r : Expr} (hl : GoodE sty mode l) (hr : GoodE sty mode r) :
    GoodE sty mode (.compare .in_ l r) := by
  apply goodE_of_ts rfl
  intro rest hrest hc
  rw [printToks]
  simp only [List.append_assoc, List.cons_append, List.nil_append]
  refine good_operand hl 8 false _ ?_ rfl
  refine chain_nl rfl ?_ (hr rest hrest (Or.inl hc))
  obtain ⟨u, r', hu, hs⟩ := head_of_headStart (Pratt.headStart_printToks sty mode r) rest
  rw [hu]; simpa [adj] using hs

theorem good_not {e : Expr} (he : GoodE sty mode e) : GoodE sty mode (.unary .not_ e) := by
  apply goodE_of_ts rfl
  intro rest hrest hc
  rw [printToks]
  simp only [List.append_assoc, List.cons_append, List.nil_append]
  refine chain_nl rfl ?_ (good_operand he 7 false rest hrest hc)
  obtain ⟨u, r', hu, hs⟩ := head_of_headStart (Pratt.headStart_operand sty mode 7 false e) rest
  rw [hu]; simpa [adj] using hs

theorem good_neg {e : Expr} (he : GoodE sty mode e) : GoodE sty mode (.unary .neg e) := by
  apply goodE_of_ts rfl
  intro rest hrest hc
  rw [printToks]
  simp only [List.append_assoc, List.cons_append, List.nil_append]
  have hop := good_operand he 7 false rest hrest hc
  obtain ⟨u, r', hu, hs⟩ := head_of_headStart (Pratt.headStart_operand sty mode 7 false e) rest
  cases hb : sty.afterMinus with
  | false =>
    rw [hb] at hop
    simp only [ws?, Bool.false_eq_true, if_false, List.nil_append]
    refine chain_nl rfl ?_ hop
    rw [hu]; simp [adj, hs]
  | true =>
    rw [hb] at hop
    simp only [ws?, if_true, List.cons_append, List.nil_append]
    refine chain_nl rfl (by simp [adj, isUnsignedNumber]) (chain_nl rfl ?_ hop)
    rw [hu]; simp [adj, hs]

theorem good_named {n : Ident} {e : Expr} (hok : TokOk (.ident n)) (he : GoodE sty mode e) :
    GoodE sty mode (.named n e) := by
  apply goodE_of_ts rfl
  intro rest hrest hc
  rw [printToks]
  simp only [List.append_assoc, List.cons_append, List.nil_append]
  exact chain_li hok rfl (chain_nl rfl rfl (he rest hrest (Or.inl hc)))


theorem good_args_one {a : Expr} (ha : GoodE sty mode a) : GoodTs sty (printArgs sty mode (.cons a .nil)) := by
  simpa [printArgs] using ha.ts

theorem good_args_cons {a b : Expr} {t : Exprs} (ha : GoodE sty mode a)
    (ht : GoodTs sty (printArgs sty mode (.cons b t))) : GoodTs sty (printArgs sty mode (.cons a (.cons b t))) := by
  intro rest hr hc
  rw [Pratt.printArgs_cons2]
  simp only [commaToks, List.append_assoc, List.cons_append, List.nil_append]
  refine ha.ts _ (chain_ws _ (chain_nl rfl rfl (chain_ws _ (ht rest hr hc) ?_)) rfl) (closeHead_ws_comma _ _)
  exact adj_ws_start (Pratt.headStart_printArgs sty mode b t)

theorem good_list_one {a : Expr} (ha : GoodE sty mode a) : GoodE sty mode (.list (.cons a .nil)) := by
  apply goodE_of_ts rfl
  intro rest hr hc
  rw [printToks, printList]
  simp only [List.append_assoc, List.cons_append, List.nil_append]
  refine chain_nl rfl rfl (chain_ws _ ?_ (adj_ws_start (Pratt.headStart_printToks sty mode a)))
  exact ha.ts _ (chain_ws _ (chain_nl rfl rfl (chain_ws _ (chain_nl rfl rfl hr) rfl)) rfl) (closeHead_ws_comma _ _)

theorem good_list_many {a b : Expr} {t : Exprs} (h : GoodTs sty (printArgs sty mode (.cons a (.cons b t)))) :
    GoodE sty mode (.list (.cons a (.cons b t))) := by
  apply goodE_of_ts rfl
  intro rest hr hc
  have e : printToks sty mode (.list (.cons a (.cons b t))) = paren sty (printArgs sty mode (.cons a (.cons b t))) := by
    simp [printToks, printList]
  rw [e]
  exact good_paren h (Pratt.headStart_printArgs sty mode a _) rest hr

theorem good_call_nil {f : Ident} (hok : TokOk (.ident f)) : GoodE sty mode (.call f .nil) := by
  apply goodE_of_ts rfl
  intro rest hr hc
  rw [printToks]
  simp only [List.cons_append, List.nil_append]
  exact chain_li hok rfl (chain_nl rfl rfl (chain_nl rfl rfl hr))

theorem good_call {f : Ident} {a : Expr} {t : Exprs} (hok : TokOk (.ident f))
    (h : GoodTs sty (printArgs sty mode (.cons a t))) : GoodE sty mode (.call f (.cons a t)) := by
  apply goodE_of_ts rfl
  intro rest hr hc
  have e : printToks sty mode (.call f (.cons a t)) = [.ident f] ++ paren sty (printArgs sty mode (.cons a t)) := by
    cases t <;> simp [printToks, printArgs]
  rw [e]
  simp only [List.append_assoc, List.cons_append, List.nil_append]
  refine chain_li hok ?_ (good_paren h (Pratt.headStart_printArgs sty mode a t) rest hr)
  simp [paren, adj, identFollowT]

theorem good_coll_none {ow : Expr} {op : CollOp} (how : GoodE sty mode ow) (hp : isPathE ow = true) :
    GoodE sty mode (.coll ow op .none) := by
  apply goodE_of_ts rfl
  intro rest hr hc
  rw [printToks]
  simp only [List.append_assoc, List.cons_append, List.nil_append]
  refine how _ (chain_nl rfl rfl ?_) (Or.inr ⟨hp, rfl⟩)
  have hin : chainOk sty.afterMinus (.lp :: (ws? sty.insideParens ++ .rp :: rest)) :=
    chain_nl rfl rfl (chain_ws _ (chain_nl rfl rfl hr) rfl)
  by_cases hop : op = .any
  · simp only [hop, if_true]; exact chain_nl rfl rfl hin
  · simp only [hop, if_false]; exact chain_nl rfl rfl hin

theorem good_coll_some {ow : Expr} {op : CollOp} {v : Ident} {b : Expr} (how : GoodE sty mode ow)
    (hp : isPathE ow = true) (hv : TokOk (.ident v)) (hb : GoodE sty mode b) :
    GoodE sty mode (.coll ow op (.some v b)) := by
  apply goodE_of_ts rfl
  intro rest hr hc
  rw [printToks]
  simp only [paren, List.append_assoc, List.cons_append, List.nil_append]
  refine how _ (chain_nl rfl rfl ?_) (Or.inr ⟨hp, rfl⟩)
  have hbody : chainOk sty.afterMinus (printToks sty mode b ++ (ws? sty.insideParens ++ .rp :: rest)) :=
    hb.ts _ (chain_ws _ (chain_nl rfl rfl hr) rfl) (closeHead_ws_rp _ _)
  have hcolon : chainOk sty.afterMinus (.colon :: (ws? sty.afterColon ++ (printToks sty mode b ++ (ws? sty.insideParens ++ .rp :: rest)))) :=
    chain_nl rfl rfl (chain_ws _ hbody (adj_ws_start (Pratt.headStart_printToks sty mode b)))
  have hvar : chainOk sty.afterMinus (.ident v :: (ws? sty.beforeColon ++ .colon :: (ws? sty.afterColon ++ (printToks sty mode b ++ (ws? sty.insideParens ++ .rp :: rest))))) := by
    refine chain_li hv ?_ (chain_ws _ hcolon rfl)
    cases sty.beforeColon <;> rfl
  have hin : chainOk sty.afterMinus (.lp :: (ws? sty.insideParens ++ .ident v :: (ws? sty.beforeColon ++ .colon :: (ws? sty.afterColon ++ (printToks sty mode b ++ (ws? sty.insideParens ++ .rp :: rest)))))) :=
    chain_nl rfl rfl (chain_ws _ hvar rfl)
  by_cases hop : op = .any
  · simp only [hop, if_true]; exact chain_nl rfl rfl hin
  · simp only [hop, if_false]; exact chain_nl rfl rfl hin


variable (sty mode)

theorem goodPath : (e : Expr) → pathOk e = true → lexableE' E e = true → GoodE sty mode e ∧ isPathE e = true
  | .ident i, _, hl => ⟨good_ident (tokOk_of_lexable (by simpa [lexableE'] using hl)), rfl⟩
  | .attr (.ident i) n, _, hl => by
      simp only [lexableE', Bool.and_eq_true] at hl
      exact ⟨good_attr (good_ident (tokOk_of_lexable hl.1)) rfl (tokOk_of_lexable hl.2), rfl⟩
  | .attr (.attr o n) n2, h, hl => by
      simp only [pathOk, Bool.and_eq_true] at h
      have hl' : lexableE' E (.attr o n) = true ∧ tokLexable' E (.ident ⟨n2, []⟩) = true := by
        rw [lexableE'] at hl; simpa using hl
      have ih := goodPath (.attr o n) h.2 hl'.1
      exact ⟨good_attr ih.1 rfl (tokOk_of_lexable hl'.2), rfl⟩
  | .attr (.lit _ _) _, h, _ => by simp [pathOk] at h
  | .attr (.list _) _, h, _ => by simp [pathOk] at h
  | .attr (.binop _ _ _) _, h, _ => by simp [pathOk] at h
  | .attr (.compare _ _ _) _, h, _ => by simp [pathOk] at h
  | .attr (.boolop _ _ _) _, h, _ => by simp [pathOk] at h
  | .attr (.unary _ _) _, h, _ => by simp [pathOk] at h
  | .attr (.named _ _) _, h, _ => by simp [pathOk] at h
  | .attr (.call _ _) _, h, _ => by simp [pathOk] at h
  | .attr (.coll _ _ _) _, h, _ => by simp [pathOk] at h
  | .lit _ _, h, _ => by simp [pathOk] at h
  | .list _, h, _ => by simp [pathOk] at h
  | .binop _ _ _, h, _ => by simp [pathOk] at h
  | .compare _ _ _, h, _ => by simp [pathOk] at h
  | .boolop _ _ _, h, _ => by simp [pathOk] at h
  | .unary _ _, h, _ => by simp [pathOk] at h
  | .named _ _, h, _ => by simp [pathOk] at h
  | .call _ _, h, _ => by simp [pathOk] at h
  | .coll _ _ _, h, _ => by simp [pathOk] at h

theorem printable_compare {o : CmpOp} {l r : Expr} (h : printable (.compare o l r) = true) :
    printable l = true ∧ printable r = true := by
  cases o
  case in_ => cases r <;> simp_all [printable]
  all_goals simpa [printable] using h

mutual
theorem goodE : (e : Expr) → printable e = true → lexableE' E e = true → GoodE sty mode e
  | .ident i, _, hl => (goodPath sty mode _ rfl hl).1
  | .attr o n, h, hl => (goodPath sty mode _ (by simpa [printable] using h) hl).1
  | .lit k v, _, hl => good_lit (tokOk_of_lexable (by simpa [lexableE'] using hl))
  | .list .nil, h, _ => by simp [printable, Exprs.length] at h
  | .list (.cons a .nil), h, hl => by
      simp only [printable, printableArgs, Bool.and_eq_true, Bool.and_true] at h
      simp only [lexableE', lexableEs', Bool.and_true] at hl
      exact good_list_one (goodE a h.2 hl)
  | .list (.cons a (.cons b t)), h, hl => by
      simp only [printable, Bool.and_eq_true] at h
      rw [lexableE'] at hl
      exact good_list_many (goodArgs (.cons a (.cons b t)) h.2 hl (by simp))
  | .binop o l r, h, hl => by
      simp only [printable, Bool.and_eq_true] at h
      simp only [lexableE', Bool.and_eq_true] at hl
      exact good_binop (goodE l h.1 hl.1) (goodE r h.2 hl.2)
  | .boolop o l r, h, hl => by
      simp only [printable, Bool.and_eq_true] at h
      simp only [lexableE', Bool.and_eq_true] at hl
      exact good_boolop (goodE l h.1 hl.1) (goodE r h.2 hl.2)
  | .compare o l r, h, hl => by
      have h' := printable_compare h
      simp only [lexableE', Bool.and_eq_true] at hl
      by_cases ho : o = .in_
      · subst ho; exact good_in (goodE l h'.1 hl.1) (goodE r h'.2 hl.2)
      · exact good_compare ho (goodE l h'.1 hl.1) (goodE r h'.2 hl.2)
  | .unary .not_ e, h, hl => good_not (goodE e (by simpa [printable] using h) (by simpa [lexableE'] using hl))
  | .unary .neg e, h, hl => good_neg (goodE e (by simpa [printable] using h) (by simpa [lexableE'] using hl))
  | .named _ _, h, _ => by simp [printable] at h
  | .call f .nil, _, hl => by
      simp only [lexableE', Bool.and_eq_true] at hl
      exact good_call_nil (tokOk_of_lexable hl.1)
  | .call f (.cons a t), h, hl => by
      simp only [printable, Bool.and_eq_true, Bool.or_eq_true] at h
      simp only [lexableE', Bool.and_eq_true] at hl
      rcases h.2 with h1 | h1
      · exact good_call (tokOk_of_lexable hl.1) (goodArgs (.cons a t) h1 hl.2 (by simp))
      · exact good_call (tokOk_of_lexable hl.1) (goodNamed (.cons a t) h1 hl.2)
  | .coll ow op .none, h, hl => by
      simp only [printable, Bool.and_eq_true] at h
      simp only [lexableE', lexableLam', Bool.and_true] at hl
      have := goodPath sty mode ow h.1 hl
      exact good_coll_none this.1 this.2
  | .coll ow op (.some v b), h, hl => by
      simp only [printable, Bool.and_eq_true] at h
      simp only [lexableE', lexableLam', Bool.and_eq_true] at hl
      have := goodPath sty mode ow h.1 hl.1
      exact good_coll_some this.1 this.2 (tokOk_of_lexable hl.2.1) (goodE b h.2 hl.2.2)
theorem goodArgs : (xs : Exprs) → printableArgs xs = true → lexableEs' E xs = true → xs ≠ .nil →
    GoodTs sty (printArgs sty mode xs)
  | .nil, _, _, hne => absurd rfl hne
  | .cons a .nil, h, hl, _ => by
      simp only [printableArgs, Bool.and_true] at h
      simp only [lexableEs', Bool.and_true] at hl
      exact good_args_one (goodE a h hl)
  | .cons a (.cons b t), h, hl, _ => by
      rw [printableArgs, Bool.and_eq_true] at h
      rw [lexableEs', Bool.and_eq_true] at hl
      exact good_args_cons (goodE a h.1 hl.1) (goodArgs (.cons b t) h.2 hl.2 (by simp))
theorem goodNamed : (xs : Exprs) → printableNamed xs = true → lexableEs' E xs = true →
    GoodTs sty (printArgs sty mode xs)
  | .nil, h, _ => by simp [printableNamed] at h
  | .cons (.named n e) .nil, h, hl => by
      simp only [printableNamed] at h
      simp only [lexableEs', lexableE', Bool.and_true, Bool.and_eq_true] at hl
      exact good_args_one (good_named (tokOk_of_lexable hl.1) (goodE e h hl.2))
  | .cons (.named n e) (.cons b t), h, hl => by
      simp only [printableNamed, Bool.and_eq_true] at h
      rw [lexableEs', Bool.and_eq_true, lexableE', Bool.and_eq_true] at hl
      exact good_args_cons (good_named (tokOk_of_lexable hl.1.1) (goodE e h.1 hl.1.2)) (goodNamed (.cons b t) h.2 hl.2)
  | .cons (.ident _) _, h, _ => by simp [printableNamed] at h
  | .cons (.attr _ _) _, h, _ => by simp [printableNamed] at h
  | .cons (.lit _ _) _, h, _ => by simp [printableNamed] at h
  | .cons (.list _) _, h, _ => by simp [printableNamed] at h
  | .cons (.binop _ _ _) _, h, _ => by simp [printableNamed] at h
  | .cons (.compare _ _ _) _, h, _ => by simp [printableNamed] at h
  | .cons (.boolop _ _ _) _, h, _ => by simp [printableNamed] at h
  | .cons (.unary _ _) _, h, _ => by simp [printableNamed] at h
  | .cons (.call _ _) _, h, _ => by simp [printableNamed] at h
  | .cons (.coll _ _ _) _, h, _ => by simp [printableNamed] at h
end

end printer

/-- the reference printer's token list satisfies the adjacency condition of `LexRender.lex_chain`
    (strictly — no unary minus directly before a number — when the style writes a blank after unary minus) -/
theorem chain_printToks (sty : Style) (mode : Mode) (e : Expr)
    (hp : printable e = true) (hl : lexableE' pyCharEnv e = true) :
    chainOk sty.afterMinus (printToks sty mode e) := by
  have := goodE sty mode e hp hl [] trivial (Or.inl rfl)
  simpa using this

/-- MAIN LEMMA (corrected): the rendering of the reference printer's tokens lexes back, without error, to those tokens —
    with a WS token wherever `render` kept a unary minus apart from an unsigned number (`LexRender.sep`) -/
theorem lex_render_printToks_sep (sty : Style) (mode : Mode) (e : Expr)
    (hp : printable e = true) (hl : lexableE' pyCharEnv e = true) :
    lexAll pyCharEnv (render (printToks sty mode e)) = ⟨sep (printToks sty mode e), none⟩ := by
  have hc := chain_printToks sty mode e hp hl
  refine lexAll_chain _ ?_
  cases hb : sty.afterMinus with
  | false => rw [hb] at hc; exact hc
  | true => rw [hb] at hc; exact chainOk_mono _ hc

/-- MAIN LEMMA, as originally stated, for the styles that write a blank after unary minus (among them the printer's own) -/
theorem lex_render_printToks (sty : Style) (mode : Mode) (e : Expr) (hs : sty.afterMinus = true)
    (hp : printable e = true) (hl : lexableE' pyCharEnv e = true) :
    lexAll pyCharEnv (render (printToks sty mode e)) = ⟨printToks sty mode e, none⟩ := by
  have hc := chain_printToks sty mode e hp hl
  rw [hs] at hc
  rw [lex_render_printToks_sep sty mode e hp hl, sep_strict _ hc]

theorem sep_length : ∀ ts : List Tok, ts.length ≤ (sep ts).length
  | [] => Nat.le_refl _
  | [t] => by cases t <;> simp [sep]
  | t :: u :: r => by
      have ih := sep_length (u :: r)
      by_cases ht : t = .uminus
      · subst ht
        simp only [sep]
        split <;> simp at ih ⊢ <;> omega
      · rw [ParseSep.sep_cons_ne ht]; simp at ih ⊢; omega

/-- the tokens the lexer reads from a rendering (`sep`) parse back to the tree, for every style -/
theorem parse_sep_printToks (sty : Style) (mode : Mode) (e : Expr) (h : printable e = true) :
    parseToks none (sep (printToks sty mode e)) = .ok e := by
  have hlen := sep_length (printToks sty mode e)
  have hc := Pratt.core sty mode e h 0 [] (e, []) 1 (Nat.le_refl 1) (fun _ => Nat.zero_le _) rfl rfl
    (fun f hf => by
      obtain ⟨f', rfl⟩ : ∃ f', f = f' + 1 := ⟨f - 1, by omega⟩
      exact Pratt.loop_stop _ _ _ _ rfl)
    (parseFuel (sep (printToks sty mode e))) (by simp only [parseFuel]; omega)
  rw [List.append_nil] at hc
  have hs := (ParseSep.sepInv _).expr _ _ _ _ hc
  simp [parseToks, hs]

/-- C05 / C19 at the level of TEXT: every rendering (any style, any mode) of a printable, lexable tree parses back -/
theorem parse_text (sty : Style) (mode : Mode) (e : Expr)
    (hp : printable e = true) (hl : lexableE' pyCharEnv e = true) :
    parseText pyCharEnv (render (printToks sty mode e)) = .ok e := by
  simp only [parseText, lex_render_printToks_sep sty mode e hp hl]
  exact parse_sep_printToks sty mode e hp

/-- the same through the original conclusion of the MAIN LEMMA, for styles with a blank after unary minus -/
theorem parse_text_afterMinus (sty : Style) (mode : Mode) (e : Expr) (hs : sty.afterMinus = true)
    (hp : printable e = true) (hl : lexableE' pyCharEnv e = true) :
    parseText pyCharEnv (render (printToks sty mode e)) = .ok e := by
  simp only [parseText, lex_render_printToks sty mode e hs hp hl]
  exact C05.parse_printToks sty mode e hp

/-- C13 at the level of TEXT: what odata_query's printer model emits parses back to the tree -/
theorem roundtrip_text (e : Expr) (hp : printable e = true) (hl : lexableE' pyCharEnv e = true) :
    parseText pyCharEnv (rtRender e) = .ok e := by
  rw [rtRender_eq_render e hp]
  exact parse_text rtStyle .printer e hp hl

/-! ### why the statements were corrected -/

/-- `-1` as a tree: unary minus applied to the integer literal `1` -/
def cexNeg : Expr := .unary .neg (.lit .int ['1'])
/-- a field called `not` -/
def cexNot : Expr := .compare .eq (.ident ⟨"not".toList, []⟩) (.lit .int ['1'])
/-- a field called `add` in a list -/
def cexAdd : Expr := .list (.cons (.ident ⟨"add".toList, []⟩) (.cons (.lit .int ['1']) .nil))

theorem cexNeg_toks : printToks {} .minimal cexNeg = [.uminus, .lit .int ['1']] := by
  simp [printToks, cexNeg, operand, needsParen, level, ws?]
theorem cexNot_toks : printToks {} .minimal cexNot = [.ident ⟨"not".toList, []⟩, .cmp .eq, .lit .int ['1']] := by
  simp [printToks, cexNot, operand, needsParen, level]
theorem cexAdd_toks : printToks { insideParens := true, beforeComma := true } .minimal cexAdd
    = [.lp, .ws, .ident ⟨"add".toList, []⟩, .ws, .comma, .lit .int ['1'], .ws, .rp] := by
  simp [printToks, printList, printArgs, cexAdd, paren, commaToks, ws?]

/-- the MAIN LEMMA as first stated (`lexAll … = ⟨printToks …, none⟩` for every style) is false, also under the stronger
    hypothesis `lexableE'`: without a blank after unary minus the text of `-1` is `- 1` (see `render`) and lexes to
    `[uminus, ws, 1]`, one WS token more than was printed -/
theorem lex_render_printToks_original_false :
    printable cexNeg = true ∧ lexableE pyCharEnv cexNeg = true ∧ lexableE' pyCharEnv cexNeg = true ∧
    lexAll pyCharEnv (render (printToks {} .minimal cexNeg)) ≠ ⟨printToks {} .minimal cexNeg, none⟩ := by
  rw [cexNeg_toks]
  decide +kernel

/-- `tokLexable` is too weak: the identifier `not` lexes to itself when alone, but `not eq 1` is read as the operator
    `not` applied to …; neither the reference rendering nor the printer's own text parses back -/
theorem parse_text_original_false :
    printable cexNot = true ∧ lexableE pyCharEnv cexNot = true ∧
    parseText pyCharEnv (render (printToks {} .minimal cexNot)) ≠ .ok cexNot ∧
    parseText pyCharEnv (rtRender cexNot) ≠ .ok cexNot ∧ lexableE' pyCharEnv cexNot = false := by
  rw [cexNot_toks]
  decide +kernel

/-- the same for an identifier named like a binary operator, between optional blanks: `( add , 1 )` -/
theorem parse_text_original_false' :
    printable cexAdd = true ∧ lexableE pyCharEnv cexAdd = true ∧
    parseText pyCharEnv (render (printToks { insideParens := true, beforeComma := true } .minimal cexAdd)) ≠ .ok cexAdd ∧
    lexableE' pyCharEnv cexAdd = false := by
  rw [cexAdd_toks]
  decide +kernel


end OQ.C13
