/-
  Driver.lean — line protocol between the harness and the executable model / specification
  (DESIGN §2.3).  One request per line:  cmd <TAB> arg …  ; one answer per line.
  Strings travel as hex of UTF-8, trees as S-expressions (Wire.lean).
-/
import ODataVerif.Wire
import ODataVerif.Model.Lexer
import ODataVerif.Model.Parser
import ODataVerif.Spec.Builtins
import ODataVerif.Model.Typing
import ODataVerif.Spec.Types
import ODataVerif.Spec.TypesStrict
import ODataVerif.Model.Visitor
import ODataVerif.Model.Rewrite
import ODataVerif.Spec.Traversal
import ODataVerif.Spec.Reroot
import ODataVerif.Spec.Subst
import ODataVerif.Spec.RefPrinter
import ODataVerif.Model.Printer
import ODataVerif.Model.PyVal
import ODataVerif.Model.Sql
import ODataVerif.Spec.SqlLex
import ODataVerif.Spec.SqlParse
import ODataVerif.Spec.SqlMirror
import ODataVerif.Model.SqlPieces
import ODataVerif.Spec.ODataSem
import ODataVerif.Spec.SqliteSem
import ODataVerif.Spec.ODataElab
import ODataVerif.Model.Orm
import ODataVerif.Spec.OrmSql
import ODataVerif.Spec.OrmSemOk
import ODataVerif.Spec.RelSem
import ODataVerif.Spec.RelElab
import ODataVerif.Model.OrmRel
import ODataVerif.Spec.OrmRelSem
import ODataVerif.Spec.LitSpell
import ODataVerif.Spec.NumFn
import ODataVerif.Spec.DateSem
import ODataVerif.Spec.DateFilters
open OQ OQ.Wire

def encTok : Tok → String
  | .lit k v => s!"(lit {k.className} {encStr v})"
  | .ident i => s!"(ident {encTree i.toTree})"
  | .arith o => o.className
  | .cmp o => o.className
  | .bool o => o.className
  | .not_ => "Not" | .uminus => "USub" | .any => "Any" | .all => "All" | .ws => "WS"
  | .lp => "(" | .rp => ")" | .comma => "," | .slash => "/" | .colon => ":" | .eqs => "="

/-- field typing by naming convention (harness/gens_typed.py) -/
def gammaOfName (n : Str) : Option Spec.OTy :=
  let s := String.ofList n
  if s.startsWith "geo" then some (.prim .geo)
  else if s.startsWith "dt" then some (.prim .datetime)
  else if s.startsWith "du" then some (.prim .duration)
  else if s.startsWith "tm" then some (.prim .time)
  else if s.startsWith "s" then some (.prim .str)
  else if s.startsWith "i" then some (.prim .int)
  else if s.startsWith "f" then some (.prim .float)
  else if s.startsWith "b" then some (.prim .bool)
  else if s.startsWith "d" then some (.prim .date)
  else if s.startsWith "g" then some (.prim .guid)
  else if s.startsWith "c" then some .coll
  else none

def gamma : Expr → Option Spec.OTy
  | .ident i => gammaOfName i.name
  | .attr _ n => gammaOfName n
  | _ => none

def encOTy : Option Spec.OTy → String
  | some (.prim k) => k.className
  | some .coll => "List"
  | none => "None"

def parseTys (s : String) : List Ty :=
  (s.splitOn ",").filterMap (fun w =>
    if w == "List" then some Ty.list else (LitKind.ofClassName w).map Ty.lit)

def withExpr (w : String) (f : Expr → String) : String :=
  match decTree w with
  | some t => (match Expr.ofTree t with
               | some e => f e
               | none => "not-expr")
  | none => "bad-arg"

def withTree (w : String) (f : Tree → String) : String :=
  match decTree w with
  | some t => f t
  | none => "bad-arg"

/-- the wrapper used as override `g` on both sides: `Call(Identifier("W"), [n])` -/
def wrapW (n : Tree) : Tree :=
  .node "Call" (.cons (mkIdent ['W']) (.cons (.list (.cons n .nil)) .nil))

def pairsOf : TreeList → List (Tree × Tree)
  | .cons k (.cons v rest) => (k, v) :: pairsOf rest
  | _ => []

def encTrace (ts : List Tree) : String :=
  " ".intercalate (ts.map (fun t => handlerName t ++ ":" ++ encTree t))

def encPyValue : PyValue → String
  | .none => "None"
  | .int n => s!"int {n}"
  | .bool b => if b then "bool True" else "bool False"
  | .str s => "str " ++ encStr s
  | .date y m d => s!"date {y} {m} {d}"
  | .time h mi s us => s!"time {h} {mi} {s} {us}"
  | .datetime y m d h mi s us off =>
      s!"datetime {y} {m} {d} {h} {mi} {s} {us} " ++ (match off with | some o => s!"{o}" | none => "naive")
  | .guid n => s!"guid {n}"
  | .duration us => s!"duration {us}"
  | .unmodelled => "unmodelled"

def dialectOf : String → Option Dialect
  | "std" => some .std | "sqlite" => some .sqlite | "athena" => some .athena | _ => none

def encSqlTok : Spec.SqlTok → String
  | .str s => "S" ++ encStr s
  | .qid s => "Q" ++ encStr s
  | .num s => "N" ++ encStr s
  | .word s => "W" ++ encStr s
  | .op s => "O" ++ encStr s
  | .lp => "(" | .rp => ")" | .comma => "," | .dot => "."

def encSqlToks : Option (List Spec.SqlTok) → String
  | some ts => "ok " ++ " ".intercalate (ts.map encSqlTok)
  | none => "reject"

mutual
partial def encSql : Spec.SqlTree → String
  | .col none n => s!"(col {encStr n})"
  | .col (some q) n => s!"(col {encStr q} {encStr n})"
  | .str v => s!"(str {encStr v})"
  | .num v => s!"(num {String.ofList v})"
  | .kw v => s!"(kw {String.ofList v})"
  | .typed k v => s!"(typed {String.ofList k} {encStr v})"
  | .interval n u => s!"(interval {encStr n} {String.ofList u})"
  | .un op e => s!"(un {String.ofList op} {encSql e})"
  | .bin op l r => s!"(bin {String.ofList op} {encSql l} {encSql r})"
  | .like l p none => s!"(like {encSql l} {encSql p})"
  | .like l p (some c) => s!"(like {encSql l} {encSql p} escape {encStr c})"
  | .inl e xs => s!"(in {encSql e} [{encSqls xs}])"
  | .row xs => s!"(row [{encSqls xs}])"
  | .call n xs => s!"(call {String.ofList n} [{encSqls xs}])"
  | .cast e t => s!"(cast {encSql e} {String.ofList t})"
  | .extract p e => s!"(extract {String.ofList p} {encSql e})"
  | .position a b => s!"(position {encSql a} {encSql b})"
  | .substring a b .none => s!"(substring {encSql a} {encSql b})"
  | .substring a b (.some c) => s!"(substring {encSql a} {encSql b} {encSql c})"
partial def encSqls : Spec.SqlTrees → String
  | .nil => ""
  | .cons h .nil => encSql h
  | .cons h t => encSql h ++ " " ++ encSqls t
end

def encOptSql : Option Spec.SqlTree → String
  | some t => "ok " ++ encSql t
  | none => "none"

/-- rows on the wire: rows separated by `|`, cells by `;`, a cell is `name:n` (NULL) | `name:i<int>` | `name:s<hex>` -/
def decCell (c : String) : Option (Str × Spec.Val) :=
  match c.splitOn ":" with
  | [n, v] =>
      if v == "n" then some (n.toList, .null)
      else if v.startsWith "i" then (v.drop 1).toString.toInt?.map (fun z => (n.toList, Spec.Val.int z))
      else if v.startsWith "s" then (stringOfHex (v.drop 1).toString).map (fun s => (n.toList, Spec.Val.str s.toList))
      else none
  | _ => none

def decRow (r : String) : Option Spec.Row :=
  if r.isEmpty then some [] else (r.splitOn ";").mapM decCell

def decRows (rs : String) : Option (List Spec.Row) :=
  if rs.isEmpty then some [] else (rs.splitOn "|").mapM decRow

/-- database on the wire: tables separated by `~`, each `name=<rows>` (rows as in `decRows`) -/
def decDB (s : String) : Option Spec.DB :=
  if s.isEmpty then some [] else
  (s.splitOn "~").mapM (fun t =>
    match t.splitOn "=" with
    | [n, rs] => (decRows rs).map (fun rows => (n.toList, rows))
    | _ => none)

def encV3 : Spec.V3 → String
  | .tt => "T" | .ff => "F" | .unk => "U"

/-- alias argument: "-" = no alias, otherwise hex of the alias -/
def decAlias (a : String) : Option (Option Str) :=
  if a == "-" then some none else (decStr a).map some

def encOParams (t : OTree) : String :=
  " ".intercalate (t.params.map (fun p => p.1.className ++ ":" ++ encStr p.2))

mutual
partial def encOTree : OTree → String
  | .col p => "(col " ++ " ".intercalate (p.map encStr) ++ ")"
  | .param k v => s!"(param {k.className} {encStr v})"
  | .pint z => s!"(pint {z})"
  | .const c => s!"(const {c})"
  | .node op args => s!"({op} {encOTrees args})"
partial def encOTrees : OTrees → String
  | .nil => ""
  | .cons h .nil => encOTree h
  | .cons h t => encOTree h ++ " " ++ encOTrees t
end

def encOrmOutcome (o : Outcome OTree) : String :=
  match o with
  | .foreign "unmodelled" => "unmodelled"
  | o => encOutcome (fun t => "P " ++ encOParams t ++ " T " ++ encOTree t.skeleton) o

def decCmpK (cmp : String) : Option Spec.CmpK :=
  match cmp with | "eq" => some .eq | "ne" => some .ne | "lt" => some .lt | "le" => some .le | "gt" => some .gt | "ge" => some .ge | _ => none
/-- a date cell: `n` = NULL, else `YYYY-MM-DD`; outer none = malformed -/
def decDateCell (c : String) : Option (Option Spec.DateV) :=
  if c == "n" then some none else (Spec.DateV.ofIso c.toList).map some
/-- a clock cell: `n` or `h:m:s` in decimal -/
def decClockCell (c : String) : Option (Option Spec.ClockV) :=
  if c == "n" then some none
  else match (c.splitOn ":").map String.toNat? with
       | [some h, some m, some s] => some (some ⟨h, m, s⟩)
       | _ => none
def perCell {α} (cells : String) (dec : String → Option α) (f : α → Spec.V3) : String :=
  " ".intercalate ((cells.splitOn ",").map (fun c => match dec c with | some v => encV3 (f v) | none => "bad-cell"))

/-- DateF on the wire, prefix notation, space separated:  and X Y | or X Y | not X | cmp k c lit | cmpr k lit c | in c n l1 … ln | part p k c n -/
partial def decDateF : List String → Option (Spec.DateF × List String)
  | "and" :: r => do let (a, r) ← decDateF r; let (b, r) ← decDateF r; pure (.and a b, r)
  | "or" :: r => do let (a, r) ← decDateF r; let (b, r) ← decDateF r; pure (.or a b, r)
  | "not" :: r => do let (a, r) ← decDateF r; pure (.not a, r)
  | "cmp" :: k :: c :: l :: r => do pure (.cmp (← decCmpK k) c.toList (← Spec.DateV.ofIso l.toList), r)
  | "cmpr" :: k :: l :: c :: r => do pure (.cmpR (← decCmpK k) (← Spec.DateV.ofIso l.toList) c.toList, r)
  | "in" :: c :: n :: r => do
      let k ← n.toNat?
      let ls ← (r.take k).mapM (fun l => Spec.DateV.ofIso l.toList)
      if ls.length == k then pure (.inl c.toList ls, r.drop k) else none
  | "part" :: p :: k :: c :: n :: r => do
      let pp ← (match p with | "year" => some Spec.DatePart.year | "month" => some .month | "day" => some .day | _ => none)
      pure (.part pp (← decCmpK k) c.toList (← n.toNat?), r)
  | _ => none
def withDateF (w : String) (f : Spec.DateF → String) : String :=
  match decDateF (w.splitOn " ") with
  | some (d, []) => f d
  | _ => "bad-datef"


/-! ### Spec/LitSpell: spellings from meanings (the harness feeds the texts to the real lexer / py_val) -/
namespace LitSpellWire
open OQ.LitSpell
def nats (s : String) (sep : Char) : Option (List Nat) := (s.splitOn (String.singleton sep)).mapM (·.toNat?)
def comp (s : String) : Option (Option (Nat × Nat)) :=
  if s == "-" then some none else match nats s ':' with
    | some [w, n] => some (some (w, n))
    | _ => none
def secs (s : String) : Option Secs :=
  if s == "-" then some .none else match s.splitOn ":" with
    | [n] => n.toNat?.map .whole
    | [n, ds] => (match n.toNat?, nats ds '.' with | some k, some fs => some (.frac k fs) | _, _ => none)
    | _ => none
def dsecs (s : String) : Option DSecs :=
  if s == "-" then some .none else match s.splitOn ":" with
    | [w, n] => (match w.toNat?, n.toNat? with | some a, some b => some (.whole a b) | _, _ => none)
    | [w, n, ds] => (match w.toNat?, n.toNat?, nats ds '.' with | some a, some b, some fs => some (.frac a b fs) | _, _, _ => none)
    | _ => none
def off (s : String) : Option Off :=
  if s == "-" then some .naive else if s == "Z" then some (.z true) else if s == "z" then some (.z false)
  else match s.splitOn ":" with
    | [sg, h, m] => (match h.toNat?, m.toNat? with | some a, some b => some (.hm (sg == "m") a b) | _, _ => none)
    | _ => none
def sign (s : String) : Sign := if s == "m" then .minus else if s == "p" then .plus else .none
end LitSpellWire

def handle (args : List String) : String :=
  match args with
  | ["ping"] => "pong"
  | ["lex", h] =>
      match decStr h with
      | some s =>
          let r := lexAll pyCharEnv s
          let e := match r.err with | some i => s!"err {i}" | none => "ok"
          e ++ " " ++ " ".intercalate (r.toks.map encTok)
      | none => "bad-arg"
  | ["parse", h] =>
      match decStr h with
      | some s => encOutcome (fun e => encTree e.toTree) (parseText pyCharEnv s)
      | none => "bad-arg"
  | ["trace", w] => withTree w (fun t => encTrace (visitTrace t))
  | ["preorder", w] => withTree w (fun t => encTrace (Spec.nodesOf t))
  | ["tgeneric", w] => withTree w (fun t => encTree (tvisit none t))
  | ["toverride", k, mode, w] => withTree w (fun t => encTree (tvisit (some ⟨k, wrapW, mode == "rec"⟩) t))
  | ["mapkind", k, mode, w] =>
      withTree w (fun t => encTree (if mode == "rec" then Spec.mapKind k wrapW t else Spec.replaceTD k wrapW t))
  | ["treeeq", a, b] =>
      (match decTree a, decTree b with
       | some x, some y => if x = y then "True" else "False"
       | _, _ => "bad-arg")
  | ["strip", x, w] => withTree x (fun xt => withTree w (fun t => encTree (strip xt t)))
  | ["reroot", x, w] => withTree x (fun xt => withTree w (fun t => encTree (Spec.reroot xt t)))
  | ["alias", m, w] =>
      withTree m (fun mt => withTree w (fun t =>
        match mt with
        | .list kvs => encTree (alias (pairsOf kvs) t)
        | _ => "bad-arg"))
  | ["subst", m, w] =>
      withTree m (fun mt => withTree w (fun t =>
        match mt with
        | .list kvs => encTree (Spec.subst (pairsOf kvs) [] t)
        | _ => "bad-arg"))
  | ["refprint", mode, sty, w] =>
      -- sty: six characters 0/1 = afterMinus insideParens beforeComma afterComma beforeColon afterColon
      withExpr w (fun e =>
        let b (i : Nat) : Bool := (sty.toList.getD i '0') == '1'
        let st : Spec.Style := { afterMinus := b 0, insideParens := b 1, beforeComma := b 2, afterComma := b 3,
                                 beforeColon := b 4, afterColon := b 5 }
        let md := if mode == "full" then Spec.Mode.full else if mode == "printer" then Spec.Mode.printer else Spec.Mode.minimal
        hexOfString (String.ofList (Spec.render (Spec.printToks st md e))))
  | ["rtrender", w] => withExpr w (fun e => hexOfString (String.ofList (rtRender e)))
  | ["sql", d, a, w] =>
      (match dialectOf d, decAlias a with
       | some dl, some al =>
           withExpr w (fun e => encOutcome (fun t => hexOfString (String.ofList t)) (sqlText pyCharEnv.isDigit dl al e))
       | _, _ => "bad-arg")
  | ["sqlread", h] =>
      (match decStr h with
       | some s => encOptSql (Spec.sqlRead s)
       | none => "bad-arg")
  | ["mirror", d, a, w] =>
      (match dialectOf d, decAlias a with
       | some dl, some al => withExpr w (fun e => encOptSql (Spec.mirror pyCharEnv.isDigit dl al e))
       | _, _ => "bad-arg")
  | ["sqlsafe", d, w] =>
      (match dialectOf d with
       | some dl => withExpr w (fun e => if Spec.sqlSafe dl e then "True" else "False")
       | none => "bad-arg")
  | ["sqlthm", d, a, w] =>
      -- the statements of the lexing / parsing theorems, evaluated on one instance (a test, not a proof)
      (match dialectOf d, decAlias a with
       | some dl, some al =>
           withExpr w (fun e =>
             let lo := litOk pyCharEnv.isDigit dl e && aliasOk al
             let sf := Spec.sqlSafe dl e
             match sqlVisit pyCharEnv.isDigit dl al e with
             | .ok ps =>
                 let lexOk := Spec.sqlLex (renderPieces ps) == some (pieceToks ps)
                 let mir := Spec.mirror pyCharEnv.isDigit dl al e
                 let parseOk := mir.isNone || Spec.sqlParse (pieceToks ps) == mir
                 let allOk := ps.all Piece.ok
                 s!"ok litok={lo} safe={sf} pieces={allOk} lex={lexOk} mirror={mir.isSome} parse={parseOk}"
             | _ => s!"exc litok={lo} safe={sf}")
       | _, _ => "bad-arg")
  | ["odataeval", w, rs] =>
      -- ODataSem on every row: T / F / U per row, `x` when the row is outside semOk; "noelab" when the filter is outside the typed fragment
      withExpr w (fun e =>
        match Spec.elabB e, decRows rs with
        | some b, some rows => " ".intercalate (rows.map (fun ρ => if Spec.semOkB ρ b then encV3 (Spec.evalB ρ b) else "x" ++ encV3 (Spec.evalB ρ b)))
        | none, _ => "noelab"
        | _, none => "bad-rows")
  | ["datefexpr", w] => withDateF w (fun d => encTree d.toExpr.toTree)
  | ["datefeval", w, rs] =>
      -- Spec.evalDF per row: T / F / U, prefixed `x` when the filter is not well-formed or the row is outside rowOk
      withDateF w (fun d =>
        match decRows rs with
        | some rows => " ".intercalate (rows.map (fun ρ => (if d.wf && d.rowOk ρ then "" else "x") ++ encV3 (Spec.evalDF ρ d)))
        | none => "bad-rows")
  | ["sqlitedate", h, rs] =>
      -- Spec.sqlEvalD (SQLite's behaviour on the date shapes) on the tree read from a WHERE text: 1 / 0 per row, `?` outside the model
      (match decStr h, decRows rs with
       | some txt, some rows =>
           (match Spec.sqlRead txt with
            | some t => " ".intercalate (rows.map (fun ρ => match Spec.sqliteSelectsD ρ t with
                                                           | some true => "1" | some false => "0" | none => "?"))
            | none => "unreadable")
       | _, _ => "bad-arg")
  | ["sqliteeval", h, rs] =>
      -- SqliteSem on the tree the Lean SQL reader gets from a WHERE text: 1 / 0 per row, `?` when outside the model
      (match decStr h, decRows rs with
       | some txt, some rows =>
           (match Spec.sqlRead txt with
            | some t => " ".intercalate (rows.map (fun ρ => match Spec.sqliteSelects ρ t with
                                                           | some true => "1" | some false => "0" | none => "?"))
            | none => "unreadable")
       | _, _ => "bad-arg")
  | ["ormsem", backend, w, rs] =>
      -- backend ∈ dj | sa : per row  <model selection 1/0/?><spec T/F/U, prefixed x when outside the backend's semOk>; or a refusal / nomodel
      withExpr w (fun e =>
        match decRows rs with
        | none => "bad-rows"
        | some rows =>
            let built := if backend == "dj" then djBuild e else saBuild (["id", "i1", "i2", "f1", "s1", "s2", "b1", "d1", "dt1"].map String.toList) false e
            match built with
            | .ok t =>
                (match (if backend == "dj" then Spec.djSql t else Spec.saSql t), Spec.elabB e with
                 | some s, some b =>
                     "ok " ++ " ".intercalate (rows.map (fun ρ =>
                       (match Spec.sqliteSelects ρ s with
                        | some true => "1" | some false => "0" | none => "?") ++
                       (if (if backend == "dj" then Spec.semOkDj ρ b else Spec.semOkSa ρ b) then "" else "x") ++ encV3 (Spec.evalB ρ b)))
                 | none, _ => "nomodel"
                 | _, none => "noelab")
            | .foreign "unmodelled" => "unmodelled"
            | o => encOutcome (fun _ => "") o)
  | ["numfn", fn, cmp, n, cells] =>
      -- Spec.NumFn: `fn(col) cmp n` on cells given in quarters (`n` = NULL): T / F / U per cell
      (match (match fn with | "floor" => some Spec.RoundFn.floor | "ceiling" => some .ceiling | "round" => some .round | _ => none),
             (match cmp with | "eq" => some Spec.CmpK.eq | "ne" => some .ne | "lt" => some .lt | "le" => some .le | "gt" => some .gt | "ge" => some .ge | _ => none),
             n.toInt? with
       | some f, some k, some nv =>
           " ".intercalate ((cells.splitOn ",").map (fun c =>
             if c == "n" then encV3 (Spec.numFnHolds f k nv none)
             else match c.toInt? with
                  | some q => encV3 (Spec.numFnHolds f k nv (some q))
                  | none => "bad-cell"))
       | _, _, _ => "bad-arg")
  | "litspell" :: kind :: args =>
      let out (t : List Char) : String := hexOfString (String.ofList t)
      (match kind, args with
       | "int", [w, n] => (match w.toNat?, n.toNat? with | some a, some b => out (OQ.LitSpell.pad a b) | _, _ => "bad-arg")
       | "date", [y, m, d] => (match y.toNat?, m.toNat?, d.toNat? with | some a, some b, some c => out (OQ.LitSpell.isoDate a b c) | _, _, _ => "bad-arg")
       | "time", [h, mi, sc] => (match h.toNat?, mi.toNat?, LitSpellWire.secs sc with
                                 | some a, some b, some c => out (OQ.LitSpell.clockText a b c) | _, _, _ => "bad-arg")
       | "datetime", [y, m, d, sep, h, mi, sc, o] =>
           (match y.toNat?, m.toNat?, d.toNat?, h.toNat?, mi.toNat?, LitSpellWire.secs sc, LitSpellWire.off o with
            | some a, some b, some c, some e, some f, some g, some k =>
                out (OQ.LitSpell.dateTimeText a b c (if sep == "t" then 't' else 'T') e f g k)
            | _, _, _, _, _, _, _ => "bad-arg")
       | "duration", [sg, y, mo, d, tp] =>
           (match LitSpellWire.comp y, LitSpellWire.comp mo, LitSpellWire.comp d with
            | some a, some b, some c =>
                if tp == "-" then out (OQ.LitSpell.durText (LitSpellWire.sign sg) a b c none) ++ " " ++ toString (OQ.LitSpell.durMicros (LitSpellWire.sign sg) a b c none)
                else (match tp.splitOn ";" with
                      | [h, mi, s] => (match LitSpellWire.comp h, LitSpellWire.comp mi, LitSpellWire.dsecs s with
                                       | some e, some f, some g =>
                                           out (OQ.LitSpell.durText (LitSpellWire.sign sg) a b c (some (e, f, g))) ++ " " ++
                                             toString (OQ.LitSpell.durMicros (LitSpellWire.sign sg) a b c (some (e, f, g)))
                                       | _, _, _ => "bad-arg")
                      | _ => "bad-arg")
            | _, _, _ => "bad-arg")
       | "guid", [n, mask] => (match n.toNat?, mask.toNat? with
                               | some a, some m => out (OQ.LitSpell.guidText (fun i => m.testBit i) a) | _, _ => "bad-arg")
       | "quote", [h] => (match stringOfHex h with | some t => out (OQ.LitSpell.quoteText t.toList) | none => "bad-arg")
       | _, _ => "bad-arg")
  | ["datecmp", cmp, lit, cells] =>
      -- Spec.DateSem: `col cmp lit` per cell
      (match decCmpK cmp, Spec.DateV.ofIso lit.toList with
       | some k, some l => perCell cells decDateCell (Spec.dateHolds k l)
       | _, _ => "bad-arg")
  | ["datein", lits, cells] =>
      (match (lits.splitOn ";").mapM (fun l => Spec.DateV.ofIso l.toList) with
       | some ls => perCell cells decDateCell (Spec.dateIn ls)
       | none => "bad-arg")
  | ["datepart", part, cmp, n, cells] =>
      (match (match part with | "year" => some Spec.DatePart.year | "month" => some .month | "day" => some .day | _ => none), decCmpK cmp, n.toInt? with
       | some p, some k, some nv => perCell cells decDateCell (Spec.datePartHolds p k nv)
       | _, _, _ => "bad-arg")
  | ["clockpart", part, cmp, n, cells] =>
      (match (match part with | "hour" => some Spec.ClockPart.hour | "minute" => some .minute | "second" => some .second | _ => none), decCmpK cmp, n.toInt? with
       | some p, some k, some nv => perCell cells decClockCell (Spec.clockPartHolds p k nv)
       | _, _, _ => "bad-arg")
  | ["releval", tbl, w, dbs] =>
      -- RelSem on every row of the root table: T / F / U per row (in table order); "noelab" / "noschema"
      withExpr w (fun e =>
        match Spec.elabR Spec.vKind none (Spec.unwrapBoolCmp e), decDB dbs with
        | some f, some db =>
            let rows := Spec.DB.table db tbl.toList
            " ".intercalate (rows.map (fun r => (if Spec.lambdaClean Spec.vSchema db tbl.toList r f then "" else "x") ++
                                               (match Spec.evalR Spec.vSchema db tbl.toList r f with
                                                | some v => encV3 v
                                                | none => "?")))
        | none, _ => "noelab"
        | _, none => "bad-db")
  | ["relplan", backend, tbl, w, dbs] =>
      -- the plan model of a backend (dj | sa) evaluated by the environment model on every row of the root table
      withExpr w (fun e =>
        match decDB dbs with
        | none => "bad-db"
        | some db =>
            let rows := Spec.DB.table db tbl.toList
            if backend == "dj" then
              match djPlan Spec.vSchema Spec.vKind 12 tbl.toList e with
              | .ok p => "ok " ++ " ".intercalate (rows.map (fun r => encV3 (Spec.evalDjPlan Spec.vSchema db tbl.toList r p)))
              | .error er => "err " ++ (match er with | .typeLambda => "typeLambda" | .noField => "noField" | .unsupported => "unsupported")
            else
              match saPlan Spec.vSchema Spec.vKind 12 tbl.toList e with
              | .ok p => "ok " ++ " ".intercalate (rows.map (fun r => match Spec.evalSaPlan Spec.vSchema db p.joins tbl.toList r p.clause with
                                                                     | some v => encV3 v
                                                                     | none => "?"))
              | .error er => "err " ++ (match er with | .typeLambda => "typeLambda" | .noField => "noField" | .unsupported => "unsupported"))
  | ["djbuild", w] => withExpr w (fun e => encOrmOutcome (djBuild e))
  | ["sabuild", mode, fs, w] =>
      withExpr w (fun e => encOrmOutcome (saBuild ((fs.splitOn ",").map String.toList) (mode == "core") e))
  | ["sqllex", h] =>
      (match decStr h with
       | some s => encSqlToks (Spec.sqlLex s)
       | none => "bad-arg")
  | ["pyval", k, h] =>
      (match LitKind.ofClassName k, decStr h with
       | some kind, some v => encOutcome encPyValue (pyVal kind v)
       | _, _ => "bad-arg")
  | ["infer", w] => withExpr w (fun e => match inferType e with | some t => t.className | none => "None")
  | ["welltyped", w] => withExpr w (fun e => if Spec.wellTypedFilter gamma e then "True" else "False")
  | ["typeof", w] => withExpr w (fun e => encOTy (Spec.typeOf gamma e))
  | ["typecheck", w, allowed] =>
      withExpr w (fun e => encOutcome (fun _ => "unit") (typecheck e (parseTys allowed) "field".toList))
  | ["c11spec", h, v, n] =>
      -- what C11 demands of a call `name(…n args…)`: from Spec.Builtins only
      match decStr h, n.toNat? with
      | some nm, some k =>
          if v == "1" then
            match Spec.arity nm with
            | none => s!"UnknownFunctionException {encStr nm}"
            | some (lo, hi) =>
                if lo ≤ k ∧ k ≤ hi then "accept" else s!"ArgumentCountException {encStr nm} {lo} {hi} {k}"
          else "accept"
      | _, _ => "bad-arg"
  | _ => "bad-op"

partial def loop (hin : IO.FS.Stream) (hout : IO.FS.Stream) : IO Unit := do
  let line ← hin.getLine
  if line.isEmpty then return ()
  let l := (line.dropEndWhile (fun c => c == '\n' || c == '\r')).toString
  let out := handle (l.splitOn "\t")
  hout.putStrLn out
  loop hin hout

def main : IO Unit := do
  let hin ← IO.getStdin
  let hout ← IO.getStdout
  loop hin hout
  hout.flush
